"""MiniFortran generators, module layout renderer and Loki drivers for
   C28 (inlining preserves behaviour)  and  C33 (outlining / extraction preserve behaviour).

The oracle is NOT here: programs (JSON, grammar of spec/FMachine.tla) are judged by TLC (Trace_FMachine) through
lib_fm.behaviour_check.  This module only derives caller/callee structures, renders them into several Fortran
modules (cmod = PARAMETER constants, hmod = imported helpers, kmod = kernel), drives the Loki transformations
and classifies failing programs (tags of the shrunk program -> normal-form key).

Callee bodies are derived with the ordinary lib_fm.Gen statement grammar over the *standard vocabulary*
(n m flag ia ra ib k x  i j l w t1 t2 y) and then renamed according to a role table:
   D = dummy argument, L = local (possibly clashing with a caller name), H = host associated, RES = function result.
Call sites respect Fortran's aliasing rules (an entity is never reachable through two names if it is defined):
copy-in/copy-out of FMachine is then indistinguishable from argument association.
"""
import copy
import re

from . import lib_fm as F
from .lib_fm import V, N, R, op, call, el, cmp_, assign, decl, unit, NONE, NotApplicable, _flat
from .core import MachineryError

STD_TYPES = {'n': 'int', 'm': 'int', 'flag': 'log', 'ia': 'int', 'ra': 'real', 'ib': 'int', 'k': 'int', 'x': 'real',
             'i': 'int', 'j': 'int', 'l': 'int', 'w': 'int', 't1': 'int', 't2': 'int', 'y': 'real', 'o': 'int'}
STD_ORDER = ['n', 'm', 'flag', 'ia', 'ra', 'ib', 'k', 'x', 'o', 'i', 'j', 'l', 'w', 't1', 't2', 'y']
DUMMY_NAMES = {'n': 's1', 'm': 's2', 'flag': 'lg', 'ia': 'a', 'ra': 'b', 'ib': 'c', 'k': 'r', 'x': 'xo', 'o': 'opt'}
LOOPVARS = ('i', 'j', 'l', 'w')


def raw(text):
    return {'s': 'raw', 'text': text}


# ----------------------------------------------------------------------------- tree utilities
def rename(obj, m):
    """Rename variables (var/arr references and DO variables) in a statement / expression tree."""
    if isinstance(obj, list):
        return [rename(x, m) for x in obj]
    if not isinstance(obj, dict):
        return obj
    out = {}
    for key, v in obj.items():
        if key == 'name' and obj.get('k') in ('var', 'arr'):
            out[key] = m.get(v, v)
        elif key == 'var' and obj.get('s') == 'do':
            out[key] = m.get(v, v)
        else:
            out[key] = rename(v, m)
    return out


def mentions(obj, acc=None):
    """Names of all variables referenced in a tree."""
    acc = set() if acc is None else acc
    if isinstance(obj, list):
        for x in obj:
            mentions(x, acc)
    elif isinstance(obj, dict):
        if obj.get('k') in ('var', 'arr'):
            acc.add(obj['name'])
        if obj.get('s') == 'do':
            acc.add(obj['var'])
        for v in obj.values():
            if isinstance(v, (list, dict)):
                mentions(v, acc)
    return acc


def written(ss, acc=None):
    """Names that a statement list may define (syntactic, conservative: every actual of a CALL counts)."""
    acc = set() if acc is None else acc
    for s in _flat(ss):
        if s['s'] == 'assign':
            acc.add(s['lhs']['name'])
        elif s['s'] == 'do':
            acc.add(s['var'])
        elif s['s'] == 'call':
            mentions(s['args'], acc)
    return acc


def call_exprs(obj, acc=None):
    """All {'k': 'call'} expression nodes in a tree."""
    acc = [] if acc is None else acc
    if isinstance(obj, list):
        for x in obj:
            call_exprs(x, acc)
    elif isinstance(obj, dict):
        if obj.get('k') == 'call':
            acc.append(obj)
        for v in obj.values():
            if isinstance(v, (list, dict)):
                call_exprs(v, acc)
    return acc


def called_names(u):
    """Names of procedures (subroutines and non-intrinsic functions) referenced by a unit's body."""
    names = [s['name'] for s in _flat(u['body']) if s['s'] == 'call']
    names += [c['f'] for c in call_exprs(u['body'])]
    return names


# ----------------------------------------------------------------------------- generator
class GenX(F.Gen):
    """lib_fm.Gen plus: extra integer leaves (function calls, constants, statement functions), statement
    rejection (functions must be side-effect free), callee derivation by role tables and alias-safe call sites."""

    def __init__(self, rng, features=(), ck='kernel'):
        super().__init__(rng, features)
        self.ck = ck
        self.leaf_extra = []
        self.p_extra = 0.0
        self.xdepth = 0
        self.forbid_write = set()
        self.no_print = False
        self.extra_int_arrays = []

    def setup(self, has_ib):
        self.arrays = {'ia': self.IA[1], 'ra': self.RA[1]}
        if has_ib:
            self.arrays['ib'] = self.IB[1]
        self.active_loops = []
        self.loop_range = {}
        self.int_writable = ['k', 't1', 't2']
        self.int_scalars = ['n', 'm', 'k', 't1', 't2']
        self.int_scalars_noarr = list(self.int_scalars)
        self.real_scalars = ['x', 'y']
        self.real_writable = ['x', 'y']
        self.helpers = []
        self.functions = []
        self.assoc_names = []
        self.assoc_depth = 0

    # ---- expressions
    noarr = 0

    def index(self, arr, dim, scalars, simple=None):
        """In callees subscripts do not reference arrays (indirect addressing through a dummy array is a
        construct of its own: feature 'nestedsub')."""
        if self.ck == 'kernel' or 'nestedsub' in self.f:
            return super().index(arr, dim, scalars, simple)
        self.noarr += 1
        try:
            return super().index(arr, dim, scalars, simple)
        finally:
            self.noarr -= 1

    def int_leaf(self, scalars):
        if self.noarr:
            return V(self.rng.choice(scalars)) if self.rng.random() < 0.6 else N(self.rng.choice([0, 1, 2, 3, 5, 7]))
        if self.leaf_extra and self.xdepth < 2 and self.rng.random() < self.p_extra:
            self.xdepth += 1
            try:
                return self.rng.choice(self.leaf_extra)(self, scalars)
            finally:
                self.xdepth -= 1
        return super().int_leaf(scalars)

    # ---- statements
    def acceptable(self, ss):
        for s in _flat(ss):
            if s['s'] == 'if' and len(s['conds']) > 1 and 'fnelseif' not in self.f and \
                    any(c['f'] in self.user_functions for c in call_exprs(s['conds'][1:])):
                return False
            if s['s'] == 'if' and s.get('inline') and 'fninlineif' not in self.f and \
                    any(c['f'] in self.user_functions for c in call_exprs(s['bodies'])):
                return False      # one-line IF whose statement references a function: slice of its own
            if s['s'] == 'print' and self.no_print:
                return False
            if s['s'] == 'print' and 'printrefs' not in self.f and \
                    (any(c['f'] in self.user_functions for c in call_exprs(s['items'])) or mentions(s['items']) & {'c1', 'c2', 'c3'}):
                return False      # PRINT items that the transformation would have to rewrite: slice of its own
            if s['s'] == 'assign' and s['lhs']['name'] in self.forbid_write:
                return False
        return True

    user_functions = ()

    def stmt(self, d):
        if 'fnwhile' in self.f and self.fn_leaves and 'w' not in self.active_loops and d > 0 and self.rng.random() < 0.25:
            # DO WHILE whose condition references a function
            self.active_loops.append('w')
            self.loop_range['w'] = (0, 3)
            body = self.block(d - 1, self.rng.randint(1, 2)) + [assign(V('w'), op('sum', V('w'), N(1)))]
            self.active_loops.pop()
            fc = self.rng.choice(self.fn_leaves)(self, ['w', 'n', 'm'])
            if fc['c'] and fc['c'][0].get('k') != 'var':
                fc['c'][0] = op('sum', V('w'), self.rng.choice([N(1), V('n'), V('m')]))    # the value changes with every iteration
            cond = op('and', cmp_('<', V('w'), N(3)), cmp_('==', call('mod', fc, N(2)), N(self.rng.choice([0, 1]))))
            return [assign(V('w'), N(0)), {'s': 'while', 'cond': cond, 'body': body}]
        if self.fn_leaves and self.ck == 'kernel' and self.rng.random() < 0.3:
            # constructs that need a function reference in a particular place
            rng, scal = self.rng, self.int_scalars_noarr
            writable = [v for v in self.int_writable if v not in self.active_loops and not v.startswith('z')]
            fc = lambda: rng.choice(self.fn_leaves)(self, scal)      # noqa: E731
            opts = []
            if 'fninlineif' in self.f:
                opts.append('inlineif')
            if 'fnelseif' in self.f:
                opts.append('elseif')
            if 'printrefs' in self.f:
                opts.append('print')
            if opts:
                o = rng.choice(opts)
                if o == 'inlineif':
                    return [{'s': 'if', 'conds': [self.cond(scal)], 'bodies': [[assign(V(rng.choice(writable)), self.bounded(op('sum', fc(), self.int_leaf(scal))))]],
                             'els': [], 'inline': True}]
                if o == 'elseif':
                    return [{'s': 'if', 'conds': [self.cond(scal), cmp_(rng.choice(['<', '>=']), fc(), N(rng.choice([1, 2, 3])))],
                             'bodies': [self.block(d - 1, 1), self.block(d - 1, 1)], 'els': self.block(d - 1, 1) if rng.random() < 0.5 else []}]
                return [{'s': 'print', 'items': [op('sum', fc(), N(1))]}]
        for _ in range(20):
            ss = super().stmt(d)
            for x in _flat(ss):
                # `IF (c) CALL sub(..)` on one line is a construct of its own (feature 'callinlineif')
                if x['s'] == 'if' and x.get('inline') and x['bodies'][0][0]['s'] == 'call':
                    if 'callinlineif' in self.f:
                        x['bodies'][0][0].pop('kworder', None)
                    else:
                        x.pop('inline')
            if self.acceptable(ss):
                return ss
        return [assign(V('t1'), self.bounded(self.int_expr(1, self.int_scalars_noarr)))]

    # ---- callees
    def derive_callee(self, name, ck, has_ib, lower, mod, depth=1, nstmts=3, host=''):
        """A procedure `name` of callee kind ck in {'modsub','intsub','modfun','elemental','intfun'}; `lower` is
        the list of helper records it may use itself (nested calls)."""
        rng = self.rng
        feats = set(self.f) & {'select', 'while', 'exitcycle', 'section', 'assoc', 'nestedsub', 'lbshift'}
        isfun = ck in ('modfun', 'elemental', 'intfun')
        if isfun:
            feats -= {'assoc'}
        sub = GenX(rng, feats | ({'call'} if not isfun else set()), ck=ck)
        sub.setup(has_ib)
        roles = {}
        D, L, H = 'D', 'L', 'H'

        def pick(*opts):
            return rng.choice(opts)
        if ck == 'modsub':
            roles = {'n': D, 'm': pick(D, D, D, L), 'flag': pick(D, L), 'ia': D, 'ra': pick(D, L), 'ib': pick(D, L),
                     'k': D, 'x': pick(D, L), 't1': L, 't2': L, 'y': L}
        elif ck == 'intsub':
            roles = {'n': pick(H, D), 'm': pick(H, D), 'flag': H, 'ia': pick(H, D), 'ra': pick(H, H, D), 'ib': H,
                     'k': pick(D, D, H), 'x': pick(H, D), 't1': pick(L, H), 't2': pick(L, H), 'y': pick(L, H)}
            if 'nohostarrays' in self.f:
                roles.update({'ia': D, 'ra': pick(D, L), 'ib': L})
        elif ck in ('modfun', 'elemental'):
            roles = {'n': D, 'm': D, 'flag': L, 'ia': L if ck == 'elemental' else pick(D, L), 'ra': L, 'ib': L,
                     'k': 'RES', 'x': L, 't1': L, 't2': L, 'y': L}
        elif ck == 'intfun':
            roles = {'n': pick(D, D, H), 'm': H, 'flag': H, 'ia': H, 'ra': H, 'ib': H, 'k': 'RES', 'x': L, 't1': L, 't2': L, 'y': L}
            if 'nohostarrays' in self.f:
                roles.update({'ia': L, 'ra': L, 'ib': L})
        else:
            raise MachineryError(f'callee kind {ck}')
        for v in LOOPVARS:
            roles[v] = L
        if not has_ib:
            roles.pop('ib')
        if 'optional' in self.f and ck in ('modsub', 'intsub') and rng.random() < 0.8:
            roles['o'] = D          # OPTIONAL, INTENT(IN) integer dummy, used under PRESENT() only
        if 'lbshift' in self.f:
            # dummy / local arrays with lower bounds that differ from the actual's (the body is derived for the shifted bounds)
            for a in ('ia', 'ra', 'ib'):
                if roles.get(a) in (D, L) and rng.random() < 0.6:
                    sh = rng.choice([-2, -1, 1, 2])
                    sub.arrays[a] = [(lo + sh, hi + sh) for lo, hi in sub.arrays[a]]
        intents = {}
        for s, r in roles.items():
            if r == D:
                intents[s] = 'in' if s in ('n', 'm', 'flag', 'o') else 'inout' if s in ('ia', 'ra', 'ib') else pick('out', 'out', 'inout')
                if isfun:
                    intents[s] = 'in'
        # functions have no side effects: no PRINT, no definition of dummies / host entities
        if not isfun and 'calleeprint' not in self.f:
            sub.no_print = True       # PRINT in a callee is a construct of its own (slice 'calleeprint')
        if isfun:
            sub.no_print = True
            sub.forbid_write = {s for s, r in roles.items() if r in (D, H)}
            sub.real_writable = [v for v in sub.real_writable if roles[v] == L]
        if ck == 'intsub':
            # host loop variables are never touched (own i j l w); host scalars that are host associated stay writable
            pass
        # nested references (a callee that itself calls generated procedures) only with feature 'nested'
        if 'nested' not in self.f:
            lower = []
        sub.helpers = [h for h in lower if h['ck'] == 'modsub'] if ck in ('modsub', 'intsub') else []
        funs = [h for h in lower if h['ck'] in (('elemental',) if ck == 'elemental' else ('modfun', 'elemental'))]
        sub.leaf_extra = [h['mkleaf'] for h in funs] + list(self.const_leaves if ck in ('intsub', 'intfun') and 'constinternal' in self.f else [])
        sub.user_functions = {h['name'] for h in funs}
        sub.fn_leaves = [h['mkleaf'] for h in funs]
        sub.p_extra = 0.12 if sub.leaf_extra else 0.0
        sub.nest_marked = self.nest_marked
        body = sub.block(depth, nstmts)
        if roles.get('o') == D:
            tgt = rng.choice(['t1', 't2'] + (['k'] if roles.get('k') == D else []))
            st = {'s': 'if', 'conds': [call('present', V('o'))],
                  'bodies': [[assign(V(tgt), sub.bounded(op('sum', V(tgt), op('prod', V('o'), N(rng.choice([1, 2, 3]))))))]],
                  'els': [assign(V(tgt), sub.bounded(op('sum', V(tgt), N(rng.choice([3, 5])))))] if rng.random() < 0.6 else []}
            body.insert(rng.randrange(len(body) + 1), st)
        if roles.get('k') in (D, 'RES'):
            # the result depends on the arguments (otherwise misplaced evaluations go unnoticed)
            body.append(assign(V('k'), sub.bounded(op('sum', V('k'), V('n'), sub.int_expr(1, sub.int_scalars)))))
        if ck == 'modsub' and 'return' in self.f and rng.random() < 0.4:
            body.insert(rng.randrange(len(body) + 1), {'s': 'if', 'conds': [cmp_(rng.choice(['<', '>']), V('n'), N(rng.choice([0, 2])))],
                                                       'bodies': [[{'s': 'return'}]], 'els': [], 'inline': True})
        # initialisation of everything the body may read before writing it
        init_std = {'k': assign(V('k'), N(0)), 'x': assign(V('x'), R(0)), 't1': assign(V('t1'), V('m')), 't2': assign(V('t2'), N(1)),
                    'y': assign(V('y'), R(1, 2)), 'flag': assign(V('flag'), cmp_('>', V('n'), N(1))), 'ia': assign(V('ia'), V('m')),
                    'ra': assign(V('ra'), R(1)), 'ib': assign(V('ib'), N(1)), 'm': assign(V('m'), N(2))}
        init = []
        for s in ('m', 'flag', 'k', 'x', 't1', 't2', 'y', 'ia', 'ra', 'ib'):
            r = roles.get(s)
            if r in (L, 'RES') or (r == D and intents[s] == 'out'):
                init.append(init_std[s])
        init = [dict(st, init=1) for st in init]      # shrinking keeps initialisations (legality)
        body = init + body
        # names
        ident = 'identnames' in self.f and rng.random() < 0.5
        keep_locals = rng.random() < 0.6
        nm = {}
        for s, r in roles.items():
            if r == D:
                # per-callee dummy names: an actual never mentions a name of the callee it is passed to
                nm[s] = s if ident else f'{DUMMY_NAMES[s]}_{name}'
            elif r == L:
                nm[s] = s if keep_locals else s + 'c'
            elif r == 'RES':
                nm[s] = 'res' if 'resclash' in self.f else name if rng.random() < 0.4 else 'r' + name
            else:
                nm[s] = s
        if isfun and not ident:
            nm.update({s: f'{d}_{name}' for s, d in (('n', 'u'), ('m', 'v')) if roles.get(s) == D})
        body = rename(body, nm)
        args = [nm[s] for s in STD_ORDER if roles.get(s) == D]
        if ck == 'modsub' and rng.random() < 0.5:
            rng.shuffle(args)
        inv = {v: k for k, v in nm.items()}
        decls = []
        for a in args:
            s = inv[a]
            decls.append(decl(a, STD_TYPES[s], intents[s], sub.arrays.get(s, ())))
            if s == 'o':
                decls[-1]['optional'] = True
        for s in STD_ORDER:
            if roles.get(s) in (L, 'RES'):
                decls.append(decl(nm[s], STD_TYPES[s], 'local', sub.arrays.get(s, ())))
        u = unit(name, args, decls, body, kind='function' if isfun else 'subroutine', result=nm['k'] if isfun else '', host=host)
        u['mod'] = mod
        u['ck'] = ck
        if ck == 'elemental':
            u['elemental'] = True
        h = {'unit': u, 'ck': ck, 'roles': roles, 'intents': intents, 'nm': nm, 'name': name}
        if isfun:
            h['mkleaf'] = lambda g, scalars, h=h: g.fun_call(h, scalars)
        else:
            h['mkcall'] = lambda g, h=h: g.sub_call(h)
        return h

    # ---- call sites
    def int_arrays_here(self):
        return ['ia'] + list(self.extra_int_arrays)

    def simple_index(self, arr):
        lo, hi = self.arrays['ia'][0]
        cands = [v for v in self.active_loops if v != 'w' and self.loop_range.get(v, (0, -1))[0] >= lo and self.loop_range[v][1] <= hi]
        if cands and self.rng.random() < 0.5:
            return V(self.rng.choice(cands))
        return N(self.rng.randint(lo, hi))

    def fun_call(self, h, scalars):
        args = []
        saved = self.xdepth
        if 'fnnest' not in self.f:
            self.xdepth = 99          # no function references inside the arguments of a function reference
        try:
            for a in h['unit']['args']:
                s = {v: k for k, v in h['nm'].items()}[a]
                if s == 'ia':
                    args.append(V(self.rng.choice(self.int_arrays_here())))
                else:
                    args.append(self.int_expr(1, scalars))
        finally:
            self.xdepth = saved
        return call(h['name'], *args)

    def sub_call(self, h):
        """Alias-safe call of helper subroutine h from the current routine (standard vocabulary of the caller)."""
        rng = self.rng
        roles, intents, nm = h['roles'], h['intents'], h['nm']
        inv = {v: k for k, v in nm.items()}
        internal = h['ck'] == 'intsub'
        hostnames = {s for s, r in roles.items() if r == 'H'} if internal else set()
        # host entities the callee may define through host association: never associated with a dummy
        host_written = (hostnames & {'k', 't1', 't2', 'x', 'y', 'ia', 'ra', 'ib'})
        actual = {}
        # arrays first
        arr_passed = None
        for s in ('ia', 'ra', 'ib'):
            if roles.get(s) == 'D':
                if s == 'ia':
                    cands = [a for a in self.int_arrays_here() if a not in host_written]
                    arr_passed = rng.choice(cands)
                    actual[s] = V(arr_passed)
                else:
                    actual[s] = V(s)
        # scalar results
        out_vars = set()
        if roles.get('k') == 'D':
            cands = [V(v) for v in self.int_writable if v not in self.active_loops and v not in host_written and not v.startswith('z')]
            elem_arrays = [a for a in self.int_arrays_here() if a != arr_passed and a not in host_written]
            if elem_arrays and rng.random() < 0.3:
                tgt = el(rng.choice(elem_arrays), self.simple_index('ia'))
            else:
                tgt = rng.choice(cands)
            actual['k'] = tgt
            out_vars.add(tgt['name'])
        if roles.get('x') == 'D':
            cands = [v for v in ('x', 'y') if v not in host_written]
            actual['x'] = V(rng.choice(cands))
            out_vars.add(actual['x']['name'])
        # scalar inputs
        for s in ('n', 'm', 'o'):
            if roles.get(s) != 'D':
                continue
            if s == 'o' and rng.random() < 0.5:
                actual[s] = dict(NONE)      # omitted optional argument
                continue
            r = rng.random()
            plain = [v for v in self.int_scalars_noarr + [v for v in self.active_loops if v != 'w']
                     if v not in out_vars and v not in host_written and not v.startswith('z')]
            elem_arrays = [a for a in self.int_arrays_here() if a != arr_passed and a not in host_written and a not in out_vars]
            if r < 0.3 and plain:
                actual[s] = V(rng.choice(plain))
            elif r < 0.4:
                actual[s] = N(rng.choice([0, 1, 2, 3]))
            elif r < 0.55 and elem_arrays:
                actual[s] = el(rng.choice(elem_arrays), self.simple_index('ia'))
            elif 'exprdep' in self.f:
                if r < 0.8:
                    actual[s] = op('sum', self.int_expr(1, self.int_scalars_noarr), N(1))     # a temporary: may mention anything
                else:
                    cands = [v for v in self.int_scalars_noarr if not v.startswith('z')]
                    actual[s] = op('sum', V(rng.choice(cands)), N(rng.choice([1, 2])))
            else:
                # a temporary over entities the callee cannot define
                safe = [V(v) for v in plain] + [N(2), N(3)]
                a, b = rng.choice(safe), rng.choice(safe)
                actual[s] = rng.choice([op('sum', a, N(1)), op('prod', a, b), op('sum', a, op('neg', b)),
                                        call('mod', op('sum', a, N(5)), N(4)), op('quot', op('sum', a, N(7)), N(2))])
        if roles.get('flag') == 'D':
            actual['flag'] = rng.choice([V('flag'), op('not', V('flag')), cmp_('>', V('m'), N(1))])
        args = [actual[inv[a]] for a in h['unit']['args']]
        st = {'s': 'call', 'name': h['name'], 'args': args}
        if any(a.get('k') == 'none' for a in args):
            st['kworder'] = list(range(len(args)))
            st['npos'] = min(i for i, a in enumerate(args) if a.get('k') == 'none')
            st['kwnames'] = list(h['unit']['args'])
        elif 'kwargs' in self.f and len(args) >= 2 and rng.random() < 0.4:
            npos = rng.randint(0, len(args) - 1)
            rest = list(range(npos, len(args)))
            rng.shuffle(rest)
            st['kworder'] = list(range(npos)) + rest
            st['npos'] = npos
            st['kwnames'] = list(h['unit']['args'])
        marked = h['ck'] == 'modsub' and (self.nest_marked if self.ck != 'kernel' else 'marked' in self.f) and rng.random() < self.p_marked
        return ([raw('!$loki inline')] if marked else []) + [st]

    nest_marked = False
    fn_leaves = ()
    p_marked = 0.75
    const_leaves = ()

    # ---- whole programs
    def program(self, nstmts=5, depth=2):
        rng = self.rng
        f = self.f
        has_ib = 'twod' in f or rng.random() < 0.4
        self.setup(has_ib)
        self.extra_int_arrays = ['la']
        self.nest_marked = 'nested' in f
        layout = {'helper_mod': 'hmod' if ('imported' in f or rng.random() < 0.5) else 'kmod',
                  'use_at': rng.choice(['module', 'routine']), 'consts': [], 'fn_first': rng.random() < 0.5,
                  'jprb': 'selected_real_kind(13, 300)' if ('kindfn' in f or not ({'consts', 'localconst'} & f)) else '8'}
        if 'samemod' in f:
            layout['helper_mod'] = 'kmod'
        hm = layout['helper_mod']
        units = []
        kdecls_extra = []
        # PARAMETER constants (imported from cmod, or local to the kernel)
        self.const_leaves = []
        if 'consts' in f:
            c1, c2 = rng.choice([2, 3, 4]), rng.choice([1, 2])
            layout['consts'] = [{'name': 'c1', 'type': 'int', 'ftext': str(c1)},
                                {'name': 'c2', 'type': 'int', 'ftext': f'c1 + {c2}' if 'constdep' in f else f'{c1} + {c2}'}]
            kdecls_extra += [dict(decl('c1', 'int', 'local', (), N(c1)), param='cmod'),
                             dict(decl('c2', 'int', 'local', (), op('sum', N(c1), N(c2))), param='cmod')]
            self.const_leaves += [lambda g, sc: V('c1'), lambda g, sc: V('c2')]
        if 'localconst' in f:
            c3 = rng.choice([1, 2, 3])
            kdecls_extra.append(dict(decl('c3', 'int', 'local', (), N(c3)), param='local'))
            self.const_leaves.append(lambda g, sc: V('c3'))
        # functions (bottom-up: level 0 may be used by level 1)
        funs = []
        if 'elemental' in f:
            funs.append(self.derive_callee('fe', 'elemental', False, [], hm, depth=1, nstmts=rng.randint(0, 2)))
        if 'functions' in f:
            funs.append(self.derive_callee('f1', 'modfun', has_ib and rng.random() < 0.5, list(funs), hm, depth=1, nstmts=rng.randint(1, 3)))
            if rng.random() < 0.6:
                funs.append(self.derive_callee('f2', 'modfun', False, list(funs), hm, depth=1, nstmts=rng.randint(0, 2)))
        # module subroutines
        subs = []
        if 'modsubs' in f:
            subs.append(self.derive_callee('h1', 'modsub', has_ib, list(funs), hm, depth=1, nstmts=rng.randint(1, 3)))
            subs.append(self.derive_callee('h2', 'modsub', has_ib, subs + funs, hm, depth=1, nstmts=rng.randint(1, 3)))
        # internal procedures of the kernel
        ints = []
        if 'internal' in f:
            for nmi in ('in1', 'in2')[:rng.choice([1, 2, 2])]:
                ints.append(self.derive_callee(nmi, 'intsub', has_ib, subs + funs, 'kmod', depth=1, nstmts=rng.randint(1, 3), host='kernel'))
        if 'internalfn' in f:
            ints.append(self.derive_callee('fi', 'intfun', has_ib, funs, 'kmod', depth=1, nstmts=rng.randint(0, 2), host='kernel'))
        # statement functions of the kernel
        sfs = []
        if 'stmtfunc' in f:
            for kx in range(rng.choice([1, 2, 2])):
                sfs.append(self.derive_stmtfunc(f'sf{kx + 1}', sfs, funs))
        self.helpers = [h for h in subs + ints if 'mkcall' in h]
        self.fn_leaves = [h['mkleaf'] for h in funs + ints if 'mkleaf' in h]
        self.user_functions = {h['name'] for h in funs + ints + sfs if 'mkleaf' in h}
        self.leaf_extra = self.fn_leaves + [h['mkleaf'] for h in sfs] + list(self.const_leaves)
        self.p_extra = self.p_leaf if self.leaf_extra else 0.0
        if self.helpers:
            self.f.add('call')
        decls = [decl('n', 'int', 'in'), decl('m', 'int', 'in'), decl('flag', 'log', 'in'),
                 decl('ia', 'int', 'inout', self.arrays['ia']), decl('ra', 'real', 'inout', self.arrays['ra'])]
        args = ['n', 'm', 'flag', 'ia', 'ra']
        if has_ib:
            decls.append(decl('ib', 'int', 'inout', self.arrays['ib']))
            args.append('ib')
        decls += [decl('k', 'int', 'out'), decl('x', 'real', 'out')]
        args += ['k', 'x']
        decls += [decl(v, 'int') for v in ('i', 'j', 'l', 'w', 't1', 't2')] + [decl('y', 'real'), decl('la', 'int', 'local', self.arrays['ia'])]
        decls += kdecls_extra
        init = [assign(V('k'), N(0)), assign(V('x'), R(0)), assign(V('t1'), V('m')), assign(V('t2'), N(1)), assign(V('y'), R(1, 2)),
                assign(V('la'), V('ia'))]
        init = [dict(st, init=1) for st in init]
        mid = self.block(depth, nstmts)
        if 'loopcarried' in f:
            for kx in range(rng.choice([1, 1, 2])):
                blk, dl = self.loopcarried_block(kx + 1)
                decls += dl
                pos = rng.randint(0, len(mid))
                mid[pos:pos] = blk
        body = init + mid + [{'s': 'print', 'items': [V('t1'), V('t2'), V('y'), V('la')]}]
        kernel = unit('kernel', args, decls, body)
        kernel['mod'] = 'kmod'
        kernel['ck'] = 'kernel'
        units = [kernel] + [h['unit'] for h in ints + sfs + subs + funs]
        prog = {'units': units, 'renderer': 'inline', 'layout': layout}
        return prune(prog)

    p_leaf = 0.15

    def loopcarried_block(self, kx):
        """An outline region INSIDE a loop that defines plain locals (scalar lcN, array lcaN) which the NEXT
        iteration reads textually BEFORE the region (loop-carried values), with or without reads after the loop.
        Returns (statements, declarations of the locals)."""
        rng = self.rng
        lc, lca = f'lc{kx}', f'lca{kx}'
        decls = [decl(lc, 'int'), decl(lca, 'int', 'local', [(0, 4)])]
        scal = self.int_scalars_noarr
        form = rng.choice(['do', 'do', 'do-partial', 'do-down', 'while', 'nested', 'nested-inner'])
        use_arr = rng.random() < 0.7
        use_scal = (not use_arr) or rng.random() < 0.7
        saved = (list(self.active_loops), dict(self.loop_range))

        def quiet(n):
            """simple statements that cannot leave the region / loop and do not print"""
            for _ in range(30):
                ss = self.block(0, n)
                if region_ok(ss) and not any(x['s'] in ('print', 'exit', 'cycle', 'if') for x in _flat(ss)):
                    return ss
            return [assign(V('t1'), self.bounded(op('sum', V('t1'), N(1))))]
        if form == 'while':
            lv = 'w'
            self.active_loops.append('w')
            self.loop_range['w'] = (0, 3)
        else:
            lv = 'i'
            self.active_loops.append('i')
            self.loop_range['i'] = (0, 4)
            if form.startswith('nested'):
                self.active_loops.append('j')
                self.loop_range['j'] = (0, 2)
        ix = V(lv)
        # reads of the carried values, textually before the region
        reads = []
        carried = ([V(lc)] if use_scal else []) + ([el(lca, ix)] if use_arr else []) + ([el(lca, N(rng.randint(0, 4)))] if use_arr and rng.random() < 0.5 else [])
        tgt = rng.choice(['k', 't1', 't2'])
        reads.append(assign(V(tgt), self.bounded(op('sum', V(tgt), *carried))))
        if rng.random() < 0.4:
            reads.append(assign(el('ia', ix), self.bounded(op('sum', el('ia', ix), rng.choice(carried)))))
        # the region: defines the carried locals (and does not read them, or reads them too: inout)
        reg = []
        src = op('sum', op('prod', ix, N(rng.choice([2, 3]))), self.int_expr(1, scal), N(1))
        if use_scal:
            reg.append(assign(V(lc), self.bounded(op('sum', V(lc), src) if rng.random() < 0.2 else src)))
        if use_arr:
            r = rng.random()
            if r < 0.4:
                reg.append(assign(el(lca, ix), self.bounded(op('sum', src, N(2)))))
            elif r < 0.7:
                reg.append({'s': 'do', 'var': 'l', 'lo': N(0), 'hi': N(4), 'st': NONE,
                            'body': [assign(el(lca, V('l')), self.bounded(op('sum', op('prod', V('l'), ix), self.int_leaf(scal))))]})
            else:
                reg.append(assign(V(lca), op('sum', V('ia'), ix)))
        if rng.random() < 0.5:
            reg[rng.randint(0, len(reg)):0] = quiet(1)
        pragma = '!$loki outline' + (f' name(lcreg{kx})' if rng.random() < 0.4 else '')
        inner = quiet(rng.randint(0, 1)) + reads + quiet(rng.randint(0, 1)) + [raw(pragma)] + reg + [raw('!$loki end outline')]
        if rng.random() < 0.3:
            inner += quiet(1)
        self.active_loops, self.loop_range = saved
        init = [assign(V(lc), self.int_leaf(['n', 'm'])), assign(V(lca), V(rng.choice(['m', 'n'])))]
        if form == 'while':
            loop = [assign(V('w'), N(0)), {'s': 'while', 'cond': cmp_('<', V('w'), N(rng.randint(2, 4))), 'body': inner + [assign(V('w'), op('sum', V('w'), N(1)))]}]
        elif form == 'nested':          # region in the inner loop
            loop = [{'s': 'do', 'var': 'i', 'lo': N(0), 'hi': N(rng.randint(2, 4)), 'st': NONE,
                     'body': [{'s': 'do', 'var': 'j', 'lo': N(0), 'hi': N(rng.randint(1, 2)), 'st': NONE, 'body': inner}]}]
        elif form == 'nested-inner':    # region in the outer loop, after an inner loop
            pre = {'s': 'do', 'var': 'j', 'lo': N(0), 'hi': N(2), 'st': NONE, 'body': [assign(V('t2'), self.bounded(op('sum', V('t2'), V('j'), V('i'))))]}
            loop = [{'s': 'do', 'var': 'i', 'lo': N(0), 'hi': N(rng.randint(2, 4)), 'st': NONE, 'body': [pre] + inner}]
        elif form == 'do-down':
            loop = [{'s': 'do', 'var': 'i', 'lo': N(4), 'hi': N(rng.randint(0, 2)), 'st': N(-1), 'body': inner}]
        elif form == 'do-partial':
            loop = [{'s': 'do', 'var': 'i', 'lo': N(0), 'hi': call('min', op('sum', V('n'), N(2)), N(4)), 'st': NONE, 'body': inner}]
        else:
            loop = [{'s': 'do', 'var': 'i', 'lo': N(rng.randint(0, 1)), 'hi': N(rng.randint(3, 4)), 'st': NONE, 'body': inner}]
        after = []
        if rng.random() < 0.35:         # the carried values are also read after the loop
            after.append(assign(V('t2'), self.bounded(op('sum', V('t2'), V(lc), el(lca, N(rng.randint(0, 4)))))))
        return init + loop + after, decls

    def derive_stmtfunc(self, name, earlier, funs):
        """Statement function  name(sa, sb) = <integer expression over sa, sb, host scalars>: for the machine an
        internal function of the kernel whose body is one assignment (host association = same semantics)."""
        sub = GenX(self.rng, (), ck='stmtfn')
        sub.setup('ib' in self.arrays)
        sub.leaf_extra = [h['mkleaf'] for h in (earlier if 'sfnest' in self.f else [])] + [h['mkleaf'] for h in funs] + list(self.const_leaves)
        sub.p_extra = 0.2 if sub.leaf_extra else 0.0
        e = sub.int_expr(2, ['sa', 'sb', 'sa', 'n', 'm', 't1'])
        if e['k'] in ('var', 'int', 'arr', 'call', 'neg') and 'sfbare' not in self.f:
            e = op('sum', e, V('sa'))       # a bare variable as right-hand side is a construct of its own (slice stmtfunc-bare)
        elif 'sfbare' in self.f and self.rng.random() < 0.5:
            e = V(self.rng.choice(['sa', 'n']))
        nargs = 2 if 'sb' in mentions(e) else 1
        args = ['sa', 'sb'][:nargs]
        u = unit(name, args, [decl(a, 'int', 'in') for a in args] + [decl(name + 'r', 'int')], [assign(V(name + 'r'), e)],
                 kind='function', result=name + 'r', host='kernel')
        u['mod'] = 'kmod'
        u['ck'] = 'stmtfn'
        u['stmtfunc'] = True
        h = {'unit': u, 'ck': 'stmtfn', 'name': name, 'nargs': nargs}
        def mkleaf(g, scalars, h=h):
            saved = g.xdepth
            if 'sfnest' not in g.f:
                g.xdepth = 99          # no statement function / function references inside the arguments
            try:
                return call(h['name'], *[g.int_expr(1, scalars) for _ in range(h['nargs'])])
            finally:
                g.xdepth = saved
        h['mkleaf'] = mkleaf
        return h


def prune(prog):
    """Drop units that are not reachable from the kernel (cosmetic; keeps reproducers small)."""
    units = {u['name']: u for u in prog['units']}
    seen, todo = set(), ['kernel']
    while todo:
        n = todo.pop()
        if n in seen or n not in units:
            continue
        seen.add(n)
        todo += called_names(units[n])
    prog['units'] = [u for u in prog['units'] if u['name'] in seen]
    return prog


# ----------------------------------------------------------------------------- outline regions (C33)
def regions_post(count=(1, 2), **kw):
    """generate() post-processor: put outline regions into the kernel."""
    def post(rng, prog):
        insert_regions(rng, prog['units'][0], rng.randint(*count), **kw)
    return post


def has_region(prog):
    return any(st['s'] == 'raw' and st['text'].startswith('!$loki outline') for st in _flat(prog['units'][0]['body']))


def region_ok(ss):
    """A statement list can be outlined iff control cannot leave it other than by falling through."""
    def esc(ss, inloop):
        for s in ss:
            k = s['s']
            if k == 'return' or k == 'raw':
                return True
            if k in ('exit', 'cycle') and not inloop:
                return True
            if k in ('do', 'while'):
                if esc(s['body'], True):
                    return True
            elif k == 'if':
                if any(esc(b, inloop) for b in s['bodies']) or esc(s['els'], inloop):
                    return True
            elif k == 'select':
                if any(esc(c['body'], inloop) for c in s['cases']) or esc(s['default'], inloop):
                    return True
            elif k == 'assoc':
                if esc(s['body'], inloop):
                    return True
        return False
    return bool(ss) and not esc(ss, False)


def blocks_of(ss, inside_assoc=False, acc=None):
    """All statement lists (with flag: lies inside an ASSOCIATE) of a body that are not inside an outline region."""
    acc = [] if acc is None else acc
    acc.append((ss, inside_assoc))
    inreg = False
    for s in ss:
        if s['s'] == 'raw' and s['text'].startswith('!$loki outline'):
            inreg = True
        elif s['s'] == 'raw' and s['text'].startswith('!$loki end outline'):
            inreg = False
        if inreg:
            continue
        for key in ('body', 'els', 'default'):
            if isinstance(s.get(key), list):
                blocks_of(s[key], inside_assoc or s['s'] == 'assoc', acc)
        for b in s.get('bodies', []):
            blocks_of(b, inside_assoc, acc)
        for c in s.get('cases', []):
            blocks_of(c['body'], inside_assoc, acc)
    return acc


def free_indices(blk):
    """Indices of a statement list that are not part of an existing outline region."""
    out, inreg = [], False
    for i, s in enumerate(blk):
        if s['s'] == 'raw' and s['text'].startswith('!$loki outline'):
            inreg = True
        elif s['s'] == 'raw' and s['text'].startswith('!$loki end outline'):
            inreg = False
        elif not inreg:
            out.append(i)
    return out


def insert_regions(rng, kernel, count, *, overrides=True, names=True, allow_assoc=False, allow_print=False, ovarray=False, skip=6):
    """Wrap up to `count` disjoint statement ranges of the kernel body into `!$loki outline` regions."""
    intent_in = {d['name'] for d in kernel['decls'] if d['intent'] == 'in'}
    params = {d['name'] for d in kernel['decls'] if d.get('param')}
    placed = 0
    for attempt in range(40):
        if placed >= count:
            break
        cands = [(b, ia) for b, ia in blocks_of(kernel['body']) if (allow_assoc or not ia)]
        blk, _ = rng.choice(cands)
        lo0 = skip if blk is kernel['body'] else 0
        hi0 = len(blk) - (1 if blk is kernel['body'] else 0)     # keep the final PRINT of the kernel outside
        if hi0 - lo0 < 1:
            continue
        a = rng.randint(lo0, hi0 - 1)
        b = rng.randint(a + 1, min(hi0, a + 3))
        free = set(free_indices(blk))
        if any(i not in free for i in range(a, b)):
            continue
        seg = blk[a:b]
        if not region_ok(seg):
            continue
        if not allow_print and any(st['s'] == 'print' for st in _flat(seg)):
            continue
        pragma = '!$loki outline'
        if names and rng.random() < 0.5:
            pragma += f' name(reg{placed + 1})'
        if overrides and rng.random() < 0.5:
            used = mentions(seg) - params
            if not ovarray:      # arrays in in()/inout()/out() are a construct of their own
                used -= {d['name'] for d in kernel['decls'] if d['dims']}
            wr = written(seg)
            ro = sorted(v for v in used if v not in wr and not v.startswith('z'))
            rw = sorted(v for v in used if v not in intent_in and not v.startswith('z') and (v not in LOOPVARS or v in wr))
            r = rng.random()
            if r < 0.4 and ro:
                pragma += f' in({rng.choice(ro)})'
            elif r < 0.85 and rw:
                pragma += ' inout(' + ','.join(rng.sample(rw, min(len(rw), rng.choice([1, 1, 2])))) + ')'
            elif seg[0]['s'] == 'assign' and seg[0]['lhs']['k'] == 'var' and seg[0]['lhs']['name'] not in mentions(seg[0]['rhs']) \
                    and seg[0]['lhs']['name'] in ('k', 't1', 't2', 'x', 'y'):
                pragma += f" out({seg[0]['lhs']['name']})"
        blk[a:b] = [raw(pragma)] + seg + [raw('!$loki end outline')]
        placed += 1
    return placed


# ----------------------------------------------------------------------------- renderer (several modules)
def jprb_line(prog):
    return f"  integer, parameter :: {F.ident('jprb')} = " + prog['layout'].get('jprb', 'selected_real_kind(13, 300)')


def _kwcalls(ss):
    """Call statements with keyword arguments are rendered as text (the machine sees the positional order)."""
    out = []
    for s in ss:
        s = dict(s)
        for key in ('body', 'els', 'default'):
            if isinstance(s.get(key), list):
                s[key] = _kwcalls(s[key])
        if 'bodies' in s:
            s['bodies'] = [_kwcalls(b) for b in s['bodies']]
        if 'cases' in s:
            s['cases'] = [dict(c, body=_kwcalls(c['body'])) for c in s['cases']]
        if s['s'] == 'call' and s.get('kworder'):
            parts = []
            for pos, i in enumerate(s['kworder']):
                if s['args'][i].get('k') == 'none':
                    continue
                t = F.rx(s['args'][i])
                parts.append(t if pos < s['npos'] else f"{F.ident(s['kwnames'][i])}={t}")
            s = raw(f"call {F.ident(s['name'])}({', '.join(parts)})")
        elif s['s'] == 'raw' and s['text'].startswith('!$loki outline') and '(' in s['text']:
            # variable names in the in()/inout()/out() options take part in case mixing
            s['text'] = re.sub(r'\b(in|out|inout)\(([^)]*)\)',
                               lambda m: f"{m.group(1)}({','.join(F.ident(v) for v in m.group(2).split(','))})", s['text'])
        out.append(s)
    return out


def render_unit(u, prog, ind=2):
    pad = ' ' * ind
    layout = prog['layout']
    args = ', '.join(F.ident(a) for a in u['args'])
    pre = 'elemental ' if u.get('elemental') else ''
    head = f"{pad}{pre}subroutine {F.ident(u['name'])}({args})" if u['kind'] == 'subroutine' else \
        f"{pad}{pre}function {F.ident(u['name'])}({args})" + (f" result({F.ident(u['result'])})" if u['result'] != u['name'] else '')
    lines = [head]
    names = {x['name']: x for x in prog['units']}
    if layout['use_at'] == 'routine' and not u['host']:
        inner = [x for x in prog['units'] if x['host'] == u['name']]
        used = []
        for x in [u] + inner:
            used += called_names(x)
        ext = sorted({n for n in used if n in names and names[n]['mod'] != u['mod'] and not names[n]['host']})
        if ext:
            lines.append(f"{pad}  use {F.ident('hmod')}, only: {', '.join(F.ident(n) for n in ext)}")
        cs = [d['name'] for d in u['decls'] if d.get('param') == 'cmod']
        if cs:
            lines.append(f"{pad}  use {F.ident('cmod')}, only: {', '.join(F.ident(n) for n in cs)}")
    for d in u['decls']:
        if d.get('param') == 'cmod':
            continue
        if d.get('param') == 'local':
            lines.append(f"{pad}  {F.kinded(F.TYPES[d['type']])}, parameter :: {F.ident(d['name'])} = {F.rx(d['init'])}")
            continue
        line = F.rdecl(d, d['name'] in u['args'])
        if d.get('optional'):
            line = line.replace(' ::', ', optional ::', 1)
        lines.append(pad + '  ' + line)
    sfs = [x for x in prog['units'] if x['host'] == u['name'] and x.get('stmtfunc')]
    if sfs:
        dn = sorted({a for x in sfs for a in x['args']})
        lines.append(f"{pad}  integer :: {', '.join(F.ident(n) for n in dn + [x['name'] for x in sfs])}")
        for x in sfs:
            lines.append(f"{pad}  {F.ident(x['name'])}({', '.join(F.ident(a) for a in x['args'])}) = {F.rx(x['body'][0]['rhs'])}")
    lines += F.rstmts(_kwcalls(u['body']), ind + 2, None)
    inner = [x for x in prog['units'] if x['host'] == u['name'] and not x.get('stmtfunc')]
    if inner:
        lines.append(pad + 'contains')
        for x in inner:
            lines += render_unit(x, prog, ind + 2)
    lines.append(f"{pad}end {u['kind']} {F.ident(u['name'])}")
    return lines


def render_modules(prog):
    """[(module name, text)] in compilation order; identifiers case mixed if prog['casemix'] is a seed."""
    with F.casemixing(prog.get('casemix'), prog.get('casemix_keep', ())):
        return _render_modules(prog)


def _render_modules(prog):
    layout = prog['layout']
    out = []
    names = {x['name']: x for x in prog['units']}
    kernel = prog['units'][0]
    consts = [c for c in layout['consts'] if any(d['name'] == c['name'] for d in kernel['decls'])]
    if consts:
        L = [f"module {F.ident('cmod')}", '  implicit none', jprb_line(prog)]
        for c in consts:
            L.append(f"  {F.kinded(F.TYPES[c['type']])}, parameter :: {F.ident(c['name'])} = "
                     + re.sub(r'[a-z]\w*', lambda m: F.ident(m.group(0)), c['ftext']))
        L.append(f"end module {F.ident('cmod')}")
        out.append(('cmod', '\n'.join(L) + '\n'))
    for mod in ('hmod', 'kmod'):
        us = [u for u in prog['units'] if u['mod'] == mod and not u['host']]
        if not us:
            continue
        if layout.get('fn_first'):
            us = [u for u in us if u['kind'] == 'function'] + [u for u in us if u['kind'] != 'function']
        L = [f'module {F.ident(mod)}']
        if mod == 'kmod' and layout['use_at'] == 'module':
            used = []
            for u in prog['units']:
                if u['mod'] == 'kmod':
                    used += called_names(u)
            ext = sorted({n for n in used if n in names and names[n]['mod'] == 'hmod'})
            if ext:
                L.append(f"  use {F.ident('hmod')}, only: {', '.join(F.ident(n) for n in ext)}")
            if consts:
                L.append(f"  use {F.ident('cmod')}, only: {', '.join(F.ident(c['name']) for c in consts)}")
        L += ['  implicit none', jprb_line(prog), 'contains']
        for u in us:
            L += render_unit(u, prog, 2)
        L.append(f'end module {F.ident(mod)}')
        out.append((mod, '\n'.join(L) + '\n'))
    return out


def render(prog):
    return ''.join(t for _, t in render_modules(prog))


F.RENDERERS['inline'] = render


# ----------------------------------------------------------------------------- Loki drivers
TRANSFORM_TIMEOUT = int(__import__("os").environ.get("VERIF_TF_TIMEOUT", "180"))     # seconds; a transformation that does not return is a failure class


_WARM = []


def warm_up():
    """Imports and the frontend's one-time set-up are not part of the transformation's time budget."""
    if not _WARM:
        import loki.transformations.inline  # noqa: F401  pylint: disable=unused-import
        import loki.transformations.extract  # noqa: F401  pylint: disable=unused-import
        from loki import Sourcefile
        from loki.logging import set_log_level, ERROR
        set_log_level(ERROR)      # keep the transformations' progress messages out of the check's output
        Sourcefile.from_source('module wm\ncontains\nsubroutine ws(a)\ninteger, intent(inout) :: a\na = a + 1\nend subroutine ws\nend module wm\n').to_fortran()
        _WARM.append(1)


def guarded(fn):
    """Run a transformation under a SIGALRM watchdog (behaviour_check calls it in the main thread)."""
    import functools
    import signal
    import threading

    @functools.wraps(fn)
    def run(text, prog, workdir):
        warm_up()
        if threading.current_thread() is not threading.main_thread():
            return fn(text, prog, workdir)

        def on_alarm(signum, frame):
            raise TimeoutError(f'transformation did not return within {TRANSFORM_TIMEOUT} s')
        old = signal.signal(signal.SIGALRM, on_alarm)
        signal.alarm(TRANSFORM_TIMEOUT)
        try:
            return fn(text, prog, workdir)
        finally:
            signal.alarm(0)
            signal.signal(signal.SIGALRM, old)
    return run


class Parsed:
    """The program's modules parsed by Loki one by one (later modules see earlier ones as definitions)."""

    def __init__(self, prog):
        from loki import Sourcefile
        self.files = []
        defs = []
        for name, text in render_modules(prog):
            sf = Sourcefile.from_source(text, definitions=list(defs))
            defs += list(sf.modules)
            self.files.append((name, sf))
        self.kmod = self.files[-1][1]['kmod']
        self.kernel = self.kmod['kernel']

    def routine(self, name):
        for _, sf in self.files:
            for m in sf.modules:
                if name in m:
                    return m[name]
        raise MachineryError(f'routine {name} not found')

    def sources(self):
        return [(f'{name}.f90', sf.to_fortran()) for name, sf in self.files]


def bottom_up(prog):
    """Module level procedures, callees before callers; the kernel last."""
    units = {u['name']: u for u in prog['units'] if not u['host']}
    order, seen = [], set()

    def visit(n):
        if n in seen or n not in units:
            return
        seen.add(n)
        inner = [x for x in prog['units'] if x['host'] == n]
        for x in [units[n]] + inner:
            for c in called_names(x):
                visit(c)
        order.append(n)
    visit('kernel')
    return order


def has_marked(prog, unit_names=None):
    for u in prog['units']:
        if unit_names is not None and u['name'] not in unit_names:
            continue
        if any(s['s'] == 'raw' and s['text'].startswith('!$loki inline') for s in _flat(u['body'])):
            return True
    return False


def calls_to(prog, pred, within=None):
    """Number of references (call statements and function references) to units satisfying pred."""
    names = {u['name'] for u in prog['units'] if pred(u)}
    n = 0
    for u in prog['units']:
        if within is not None and u['name'] not in within:
            continue
        n += sum(1 for c in called_names(u) if c in names)
    return n


def tf_marked(adjust_imports=True):
    @guarded
    def transform(text, prog, workdir):
        from loki.transformations.inline import inline_marked_subroutines
        if not has_marked(prog):
            raise NotApplicable('no marked call')
        p = Parsed(prog)
        for name in bottom_up(prog):
            inline_marked_subroutines(p.routine(name), adjust_imports=adjust_imports)
        return p.sources()
    return transform


@guarded
def tf_internal(text, prog, workdir):
    from loki.transformations.inline import inline_internal_procedures
    if not calls_to(prog, lambda u: u['host'] and not u.get('stmtfunc')):
        raise NotApplicable('no internal procedure')
    p = Parsed(prog)
    inline_internal_procedures(p.kernel)
    return p.sources()


def tf_functions(explicit=True):
    """inline_functions on every routine, callees first.  explicit: pass the module functions of the program as
    `functions=` (the default functions=None trips over intrinsic references, slice functions-all)."""
    @guarded
    def transform(text, prog, workdir):
        from loki.transformations.inline import inline_functions
        if not calls_to(prog, lambda u: u['kind'] == 'function' and not u['host']):
            raise NotApplicable('no function reference')
        p = Parsed(prog)
        funs = tuple(p.routine(u['name']) for u in prog['units'] if u['kind'] == 'function' and not u['host'])
        for name in bottom_up(prog):
            if explicit:
                inline_functions(p.routine(name), functions=funs)
            else:
                inline_functions(p.routine(name))
        return p.sources()
    return transform


@guarded
def tf_elemental(text, prog, workdir):
    from loki.transformations.inline import inline_elemental_functions
    if not calls_to(prog, lambda u: u.get('elemental')):
        raise NotApplicable('no elemental function reference')
    p = Parsed(prog)
    for name in bottom_up(prog):
        inline_elemental_functions(p.routine(name))
    return p.sources()


@guarded
def tf_stmtfunc(text, prog, workdir):
    from loki.transformations.inline import inline_statement_functions
    if not calls_to(prog, lambda u: u.get('stmtfunc')):
        raise NotApplicable('no statement function reference')
    p = Parsed(prog)
    inline_statement_functions(p.kernel)
    return p.sources()


def tf_constants(external_only=True):
    @guarded
    def transform(text, prog, workdir):
        from loki.transformations.inline import inline_constant_parameters
        kernel = prog['units'][0]
        want = ('cmod',) if external_only else ('cmod', 'local')
        cs = {d['name'] for d in kernel['decls'] if d.get('param') in want}
        if not cs or not any(cs & mentions(u['body']) for u in prog['units']):
            raise NotApplicable('no constant referenced')
        p = Parsed(prog)
        inline_constant_parameters(p.kernel, external_only=external_only)
        return p.sources()
    return transform


def tf_transformation(**opts):
    @guarded
    def transform(text, prog, workdir):
        from loki.transformations.inline import InlineTransformation
        p = Parsed(prog)
        trafo = InlineTransformation(**opts)
        for name in bottom_up(prog):
            trafo.apply(p.routine(name))
        return p.sources()
    return transform


def tf_outline(via='function'):
    @guarded
    def transform(text, prog, workdir):
        from loki.transformations.extract import outline_pragma_regions, ExtractTransformation
        if not any(s['s'] == 'raw' and s['text'].startswith('!$loki outline') for s in _flat(prog['units'][0]['body'])):
            raise NotApplicable('no region')
        p = Parsed(prog)
        if via == 'function':
            new = outline_pragma_regions(p.kernel)
            p.kmod.contains.append(new)
        else:
            ExtractTransformation(extract_internals=(via == 'both'), outline_regions=True).apply(p.kmod)
        return p.sources()
    return transform


def tf_extract(via='function'):
    @guarded
    def transform(text, prog, workdir):
        from loki.transformations.extract import extract_internal_procedures, ExtractTransformation
        if not any(u['host'] for u in prog['units']):
            raise NotApplicable('no internal procedure')
        p = Parsed(prog)
        if via == 'function':
            new = extract_internal_procedures(p.kernel)
            p.kmod.contains.append(new)
        else:
            ExtractTransformation(extract_internals=True, outline_regions=False).apply(p.kmod)
        return p.sources()
    return transform


# ----------------------------------------------------------------------------- classification of failing programs
def _ctx_of_calls(ss, names, acc, ctx='top'):
    """Syntactic contexts in which references to functions in `names` occur."""
    def has(e):
        return any(c['f'] in names for c in call_exprs(e))
    for s in ss:
        k = s['s']
        if k == 'assign':
            if has(s['rhs']):
                acc.add('ctx=rhs-sec' if (s['lhs']['k'] == 'arr' and any(c.get('k') == 'range' for c in s['lhs']['c'])) else 'ctx=rhs')
            if has(s['lhs']):
                acc.add('ctx=lhs-subscript')
        elif k == 'if':
            for i, c in enumerate(s['conds']):
                if has(c):
                    acc.add('ctx=if' if i == 0 else 'ctx=elseif')
            if s.get('inline') and has(s['bodies']):
                acc.add('ctx=inline-if')
            for b in s['bodies']:
                _ctx_of_calls(b, names, acc)
            _ctx_of_calls(s['els'], names, acc)
        elif k == 'do':
            if has([s['lo'], s['hi'], s['st']]):
                acc.add('ctx=do-bound')
            _ctx_of_calls(s['body'], names, acc)
        elif k == 'while':
            if has(s['cond']):
                acc.add('ctx=while')
            _ctx_of_calls(s['body'], names, acc)
        elif k == 'select':
            if has(s['e']):
                acc.add('ctx=select')
            for c in s['cases']:
                _ctx_of_calls(c['body'], names, acc)
            _ctx_of_calls(s['default'], names, acc)
        elif k == 'call':
            if has(s['args']):
                acc.add('ctx=actual')
        elif k == 'print':
            if has(s['items']):
                acc.add('ctx=print')
        elif k == 'assoc':
            if has(s['targets']):
                acc.add('ctx=assoc')
            _ctx_of_calls(s['body'], names, acc)


def arr_refs(obj, acc=None):
    """All subscripted array references {'k': 'arr'} in a tree."""
    acc = [] if acc is None else acc
    if isinstance(obj, list):
        for x in obj:
            arr_refs(x, acc)
    elif isinstance(obj, dict):
        if obj.get('k') == 'arr':
            acc.append(obj)
        for v in obj.values():
            if isinstance(v, (list, dict)):
                arr_refs(v, acc)
    return acc


def mentions_whole(obj, names, acc=None):
    """Whole-array references (k = var) to the given names: {name: {name}}."""
    acc = {} if acc is None else acc
    if isinstance(obj, list):
        for x in obj:
            mentions_whole(x, names, acc)
    elif isinstance(obj, dict):
        if obj.get('k') == 'var' and obj['name'] in names:
            acc.setdefault(obj['name'], set()).add(obj['name'])
        for v in obj.values():
            if isinstance(v, (list, dict)):
                mentions_whole(v, names, acc)
    return acc


def need(ap, *wanted):
    """Applicability predicate that also requires the slice's construct (tags of the program)."""
    def pred(p):
        if not ap(p):
            return False
        tg = set(tags(p).split('+'))
        return all(any(alt in tg for alt in w.split('|')) for w in wanted)
    return pred


def casemix_post(inner=None, arraydummies=False):
    """generate() post-processor: render the program with case-mixed identifiers (after an optional other post).
    Array dummies of the callees keep their spelling unless arraydummies=True (a construct of its own: Loki maps
    array arguments by case-sensitive name comparison)."""
    def post(rng, prog):
        if inner is not None:
            inner(rng, prog)
        prog['casemix'] = rng.randint(1, 10 ** 6)
        if not arraydummies:
            prog['casemix_keep'] = sorted({d['name'] for u in prog['units'][1:] for d in u['decls'] if d['dims'] and d['name'] in u['args']})
    return post


def tags(prog):
    """Structural features of the (shrunk) failing program that matter for inlining / outlining."""
    t = set()
    if any(d['name'] == 'lc1' for d in prog['units'][0]['decls']) and {'lc1', 'lca1'} & mentions(prog['units'][0]['body']) and has_region(prog):
        t.add('region-loop-carried')
    if prog.get('casemix'):
        t.add('casemix')
        if 'casemix_keep' not in prog and any(d['dims'] and d['name'] in u['args'] for u in prog['units'][1:] for d in u['decls']):
            t.add('casemix-array-dummy')
    units = {u['name']: u for u in prog['units']}
    for u in prog['units']:
        body = u['body']
        flat = list(_flat(body))
        own = {d['name'] for d in u['decls']}
        for idx, s in enumerate(flat):
            if s['s'] != 'call' or s['name'] not in units:
                continue
            cal = units[s['name']]
            t.add('sub=' + cal.get('ck', '?'))
            if any(x['s'] == 'return' for x in _flat(cal['body'])):
                t.add('return')
            outs = {a['name'] for a, dn in zip(s['args'], cal['args'])
                    if a.get('k') in ('var', 'arr') and next(d for d in cal['decls'] if d['name'] == dn)['intent'] != 'in'}
            for a, dn in zip(s['args'], cal['args']):
                if a.get('k') == 'arr':
                    t.add('elem-actual')
                elif a.get('k') not in ('var', 'int', 'neg', 'log', 'real', 'none'):
                    t.add('expr-actual')
                    hostw = written(cal['body']) - {d['name'] for d in cal['decls']} if cal['host'] else set()
                    if mentions(a) & (outs | hostw):
                        t.add('expr-actual-mentions-defined')
            if {d['name'] for d in cal['decls'] if d['name'] not in cal['args']} & own:
                t.add('local-clash')
            if set(cal['args']) & own:
                t.add('dummy-clash')
            if any(a.get('k') not in ('var', 'arr') and mentions(a) & set(cal['args']) for a in s['args']):
                t.add('actual-mentions-dummy-name')
            if any(x['s'] == 'print' for x in _flat(cal['body'])):
                t.add('callee-print')
            dums = {d['name'] for d in cal['decls'] if d['name'] in cal['args'] and d['dims']}
            if any(e['name'] in dums and mentions(e['c']) & dums for e in arr_refs(cal['body'])):
                t.add('nested-subscript')
            if any(d.get('optional') for d in cal['decls']):
                t.add('optional-absent' if any(a.get('k') == 'none' for a in s['args']) else 'optional-present')
            if s.get('kworder'):
                t.add('kwargs')
            if any(x['s'] == 'if' and x.get('inline') and x['bodies'][0][0] is s for x in flat):
                t.add('call-in-inline-if')
            if any(c in units for c in called_names(cal)):
                t.add('nested')
        fnames = {c['f'] for c in call_exprs(body) if c['f'] in units}
        for fn in fnames:
            cal = units[fn]
            t.add('fn=' + cal.get('ck', '?'))
            if {d['name'] for d in cal['decls'] if d['name'] not in cal['args']} & own:
                t.add('local-clash')
            if any(c in units for c in called_names(cal)):
                t.add('nested')
        if fnames:
            _ctx_of_calls(body, fnames, t)
            for s in flat:
                for e in call_exprs(s):
                    if e['f'] in fnames and any(c['f'] in fnames for c in call_exprs(e['c'])):
                        t.add('fn-in-fn-arg')
                cs = [e for e in call_exprs({k: v for k, v in s.items() if k not in ('body', 'bodies', 'els', 'cases', 'default')}) if e['f'] in fnames]
                if len(cs) > 1:
                    t.add('two-refs-one-stmt')
        for s in flat:
            if s['s'] == 'raw' and s['text'].startswith('!$loki outline'):
                t.add('region')
                for kw in ('name', 'in', 'out', 'inout'):
                    if re.search(rf'\b{kw}\(', s['text']):
                        t.add('region-' + kw)
        if any(d.get('param') for d in u['decls']) and any(d['name'] in mentions(body) for d in u['decls'] if d.get('param')):
            t.add('const')
        if u['name'] == 'kernel':
            cs = {d['name'] for d in u['decls'] if d.get('param')}
            if cs & mentions([x['items'] for x in flat if x['s'] == 'print']):
                t.add('const-in-print')
            if any(cs & mentions(x['body']) for x in prog['units'] if x['host'] == 'kernel' and not x.get('stmtfunc')):
                t.add('const-internal')
            if 'c2' in mentions([x['body'] for x in prog['units']]) and any('c1' in c['ftext'] for c in prog['layout']['consts'] if c['name'] == 'c2'):
                t.add('const-dep')
            harr = {d['name'] for d in u['decls'] if d['dims']}
            for x in prog['units']:
                if x['host'] == 'kernel' and not x.get('stmtfunc'):
                    own_x = {d['name'] for d in x['decls']}
                    refs = {}
                    for e in arr_refs(x['body']):
                        if e['name'] in harr and e['name'] not in own_x:
                            refs.setdefault(e['name'], set()).add(F.rx(e))
                    for nm_, st_ in mentions_whole(x['body'], harr - own_x).items():
                        refs.setdefault(nm_, set()).update(st_)
                    if any(len(v) > 1 for v in refs.values()):
                        t.add('host-array-2refs')
            inreg = False
            for x in flat:
                if x['s'] == 'raw' and x['text'].startswith('!$loki outline'):
                    inreg = True
                elif x['s'] == 'raw' and x['text'].startswith('!$loki end outline'):
                    inreg = False
                elif inreg and x['s'] == 'print' and mentions(x['items']) & harr:
                    t.add('region-print-array')
            inassoc = False
            for x in _flat(body):
                if x['s'] == 'assoc' and any(y['s'] == 'raw' and y['text'].startswith('!$loki outline') for y in _flat(x['body'])):
                    inassoc = True
            if inassoc:
                t.add('region-in-assoc')
            arrs = {d['name'] for d in u['decls'] if d['dims']}
            for x in flat:
                if x['s'] == 'raw' and x['text'].startswith('!$loki outline'):
                    for m_ in re.finditer(r'\b(?:in|out|inout)\(([^)]*)\)', x['text']):
                        if set(m_.group(1).split(',')) & arrs:
                            t.add('region-array-option')
        if u.get('stmtfunc') and u['body'][0]['rhs']['k'] == 'var':
            t.add('sf-bare')
        if u['kind'] == 'function' and not u.get('stmtfunc'):
            for c in call_exprs(body):
                if c['f'] in units and units[c['f']]['kind'] == 'function' and units[c['f']]['result'] == u['result']:
                    t.add('result-clash')
    if any(u['host'] and not u.get('stmtfunc') for u in prog['units']):
        t.add('internal')
    lay = prog.get('layout', {})
    t.add('use@' + lay.get('use_at', '?'))
    if any(u['mod'] == 'hmod' for u in prog['units']):
        t.add('imported')
    return '+'.join(sorted(t))


def site_candidates(prog, limit=24):
    """Shrink steps beyond statement deletion: simplify actual arguments, drop pragmas' options, drop unused units."""
    out = []
    for ui, u in enumerate(prog['units']):
        flat_paths = []

        def walk(ss, path):
            for i, s in enumerate(ss):
                flat_paths.append((path + [i], s))
                for key in ('body', 'els', 'default'):
                    if isinstance(s.get(key), list):
                        walk(s[key], path + [i, key])
                for bi, b in enumerate(s.get('bodies', [])):
                    walk(b, path + [i, 'bodies', bi])
                for ci, c in enumerate(s.get('cases', [])):
                    walk(c['body'], path + [i, 'cases', ci, 'body'])
        walk(u['body'], [])
        for path, s in flat_paths:
            if s['s'] == 'call':
                for ai, a in enumerate(s['args']):
                    if a.get('k') not in ('var', 'arr', 'int', 'none'):
                        p2 = copy.deepcopy(prog)
                        cur = p2['units'][ui]['body']
                        for step in path:
                            cur = cur[step]
                        cur['args'][ai] = N(1)
                        out.append(p2)
            if s['s'] == 'raw' and '(' in s['text']:
                p2 = copy.deepcopy(prog)
                cur = p2['units'][ui]['body']
                for step in path:
                    cur = cur[step]
                cur['text'] = s['text'].split(' name(')[0].split(' in(')[0].split(' inout(')[0].split(' out(')[0]
                if cur['text'] != s['text']:
                    out.append(p2)
    pr = prune(copy.deepcopy(prog))
    if len(pr['units']) < len(prog['units']):
        out.insert(0, pr)
    return out[:limit]


def n_inits(prog):
    return [sum(1 for st in _flat(u['body']) if st.get('init')) for u in prog['units']]


def removal_candidates(prog, limit=24):
    """lib_fm.removal_candidates minus the candidates that lose an initialisation statement."""
    want = n_inits(prog)
    return [c for c in F.removal_candidates(prog, limit=limit + 12) if n_inits(c) == want][:limit]


def expr_candidates(prog, limit=24):
    """Programs in which one compound expression is replaced by one of its operands or by the literal 1."""
    found = []

    def walk(o, path):
        if isinstance(o, list):
            for i, x in enumerate(o):
                walk(x, path + [i])
        elif isinstance(o, dict):
            if o.get('init'):
                return
            if o.get('k') in ('sum', 'prod', 'quot', 'pow', 'neg', 'par', 'call', 'and', 'or', 'not', 'arr') and path and path[-1] != 'lhs':
                found.append((path, o))
            for key, v in o.items():
                if isinstance(v, (list, dict)):
                    walk(v, path + [key])
    for ui, u in enumerate(prog['units']):
        walk(u['body'], ['units', ui, 'body'])
    found.sort(key=lambda po: -len(str(po[1])))
    out = []
    for path, o in found:
        reps = [c for c in o.get('c', []) if isinstance(c, dict) and c.get('k') not in (None, 'range', 'none')][:2]
        if o['k'] not in ('and', 'or', 'not'):
            reps.append(N(1))
        for rep in reps:
            p2 = copy.deepcopy(prog)
            cur = p2
            for step in path[:-1]:
                cur = cur[step]
            cur[path[-1]] = copy.deepcopy(rep)
            out.append(p2)
            if len(out) >= limit:
                return out
    return out


def sig_of(kind, msg):
    """lib_fm.failure_signature with quoted identifiers abstracted (stable across generated names)."""
    if kind == 'compile-error':
        # the build log is cut to its tail: prefer the most specific diagnostic over the follow-up errors
        for pat in (r'Duplicate symbol', r'PARAMETER attribute conflicts', r'has already appeared in the current argument list',
                    r'has no IMPLICIT type', r'undefined reference'):
            m = re.search(rf'^.*{pat}.*$', msg, re.M)
            if m:
                msg = m.group(0).replace('Error: ', 'Error: ', 1)
                if 'Error' not in msg:
                    msg = 'Error: ' + msg
                break
    if kind == 'transform-raised' and msg.startswith('TransformationError'):
        # batch wrapper: the cause is what follows ' -- ' in the first line
        first = msg.splitlines()[0]
        cause = first.split(' -- ', 1)[1] if ' -- ' in first else first
        return 'transform-raised:TransformationError:' + re.sub(r'\d+', 'N', re.sub(r"[‘'`][A-Za-z_0-9]+[’']", 'ID', cause))[:80]
    sg = re.sub(r"[‘'`][A-Za-z_0-9]+[’']", 'ID', F.failure_signature(kind, msg))
    sg = re.sub(r'; did you mean ID\?', '', sg)
    return re.sub(r'(RecursionError).*', r'\1', sg)


def generate(rng, features, applicable, nstmts=(3, 6), depth=2, tries=400, post=None):
    """One program of the slice (regenerated until the slice's transformation statically applies) + inputs."""
    for _ in range(tries):
        g = GenX(rng, features)
        prog = g.program(nstmts=rng.randint(*nstmts), depth=depth)
        if post is not None:
            post(rng, prog)
        if applicable(prog):
            return prog, g.inputs(prog, 3)
    raise MachineryError(f'generator: no applicable program in {tries} tries for features {sorted(features)}')


def dispatch(slices):
    """One transform for programs of several slices (prog['slice'] selects the slice's transformation)."""
    def transform(text, prog, workdir):
        return slices[prog['slice']][1](text, prog, workdir)
    return transform


def fast_outcome(work, tag, prog, inputs, transform):
    """Failure signature of one shrink candidate WITHOUT the oracle (development of reproducers only; the final
    shrunk program is re-judged by TLC): None = no failure, 'invalid' = original does not build / run."""
    import traceback
    try:
        text = F.render(prog)
        drv = F.driver_text(prog, 'kernel', inputs)
    except Exception:  # pylint: disable=broad-except
        return 'invalid', None
    try:
        srcs = transform(text, prog, work)
    except NotApplicable:
        return None, None
    except MachineryError:
        return 'invalid', None
    except Exception as ex:  # pylint: disable=broad-except
        return sig_of('transform-raised', f'{type(ex).__name__}: {ex}\n' + traceback.format_exc()[-1500:]), None
    return 'build', (text, drv, srcs)


def first_error(work, tag, sources):
    """First diagnostic of a failing build (lib_fm.compile_run keeps the tail of the log only)."""
    import os
    import subprocess
    d = os.path.join(work, tag)
    os.makedirs(d, exist_ok=True)
    files = []
    for name, text in sources:
        with open(os.path.join(d, name), 'w') as fh:
            fh.write(text)
        files.append(name)
    try:
        c = subprocess.run(['gfortran', '-O0', '-w', '-fno-range-check', '-ffree-line-length-none', '-fmax-errors=1', '-o', 'a.out'] + files,
                           cwd=d, capture_output=True, text=True, timeout=180)
    except subprocess.TimeoutExpired:
        return 'compile timeout'
    return c.stderr[:1500]


def fast_build(work, tag, built):
    text, drv, srcs = built
    st, out, err = F.compile_run(work, f'{tag}-o', [('kmod.f90', text), ('drv.f90', drv)])
    if st != 'ok':
        return 'invalid'
    st2, out2, err2 = F.compile_run(work, f'{tag}-n', list(srcs) + [('drv.f90', drv)])
    if st2 == 'compile-error':
        err2 = first_error(work, f'{tag}-e', list(srcs) + [('drv.f90', drv)])
    if st2 != 'ok':
        return sig_of(st2, err2)
    return sig_of('output', '') if out != out2 else None


def shrink(ctx, rep, inputs, transform, rounds, tagbase):
    """Greedy shrinking of one failing program; returns the history of accepted programs (last = smallest)."""
    import concurrent.futures as cf
    import time
    hist = [rep['small']]
    phase = 0
    t0 = time.time()
    for rnd in range(rounds):
        if time.time() - t0 > rep.get('budget', 240):
            break
        cur = hist[-1]
        if phase == 0:
            cands = site_candidates(cur, 8) + removal_candidates(cur, limit=24)
        else:
            cands = expr_candidates(cur, 24)
        cands = [prune(copy.deepcopy(c)) for c in cands]
        hit = None
        for c0 in range(0, len(cands), 8):
            chunk = cands[c0:c0 + 8]
            pre = [fast_outcome(ctx.work, f'{tagbase}-{rnd}-{c0 + i}', c, inputs, transform) for i, c in enumerate(chunk)]
            with cf.ThreadPoolExecutor(max_workers=8) as ex:
                sigs = list(ex.map(lambda ib: fast_build(ctx.work, f'{tagbase}-{rnd}-{c0 + ib[0]}', ib[1][1]) if ib[1][0] == 'build' else ib[1][0],
                                   enumerate(pre)))
            for c, sg in zip(chunk, sigs):
                if sg == rep['sig']:
                    hit = c
                    break
            if hit is not None:
                break
        if hit is None:
            phase += 1
            if phase > 1:
                break
        else:
            hist.append(hit)
    return hist


def report(ctx, cases, results, fails, slices, per_group=2, rounds=12, budget=90, base=()):
    """Violations with a normal-form key  slice:signature:tags(shrunk program).  Failures are grouped by
    (slice, signature); up to per_group members with different tags are shrunk (fast, gfortran only), the shrunk
    programs are then re-judged by TLC in one batch; the key uses the smallest confirmed program."""
    transform = dispatch(slices)
    groups = {}
    fails = [(idx, kind, first_error(ctx.work, f'fe{idx}', list(results[idx]['srcs']) + [('drv.f90', results[idx]['drv'])])
              if kind == 'compile-error' and 'srcs' in results[idx] else msg) for idx, kind, msg in fails]
    for idx, kind, msg in fails:
        groups.setdefault((cases[idx][0]['slice'], sig_of(kind, msg)), []).append((idx, kind, msg))
    ctx.cover['failure_groups'] = {f'{k[0]}:{k[1]}': len(v) for k, v in sorted(groups.items())}
    reps = []
    for (label, sig), members in sorted(groups.items()):
        seen = set()
        for idx, kind, msg in sorted(members, key=lambda mm: len(results[mm[0]]['text'])):
            tg = tags(cases[idx][0])
            if tg in seen:
                continue
            seen.add(tg)
            reps.append({'label': label, 'sig': sig, 'idx': idx, 'kind': kind, 'msg': msg, 'small': cases[idx][0], 'n': len(members)})
            if len(seen) >= per_group:
                break
    confirm = []
    import time
    t0 = time.time()
    # failures of the base slices (unexpected ones) are shrunk first; the wall-clock budget bounds the rest
    order = sorted(range(len(reps)), key=lambda i: (reps[i]['label'] not in base, i))
    shrunk = 0
    for ri in order:
        r = reps[ri]
        left = budget - (time.time() - t0)
        if left <= 5:
            r['hist'] = [r['small']]
            continue
        r['budget'] = min(left, budget / 3)
        r['hist'] = shrink(ctx, r, cases[r['idx']][1], transform, rounds, f'shr{ri}')
        shrunk += 1
    ctx.cover['shrunk_representatives'] = f'{shrunk} of {len(reps)}'
    for ri, r in enumerate(reps):
        for h in r['hist'][1:]:
            confirm.append((ri, h))
    if confirm:
        cres, cfails, _ = F.behaviour_check(ctx, 'confirm', [(h, cases[reps[ri]['idx']][1]) for ri, h in confirm], transform)
        csig = {i: sig_of(kind, first_error(ctx.work, f'fc{i}', list(cres[i]['srcs']) + [('drv.f90', cres[i]['drv'])])
                          if kind == 'compile-error' and 'srcs' in cres[i] else msg) for i, kind, msg in cfails}
        for ci, (ri, h) in enumerate(confirm):
            if csig.get(ci) == reps[ri]['sig']:
                reps[ri]['small'] = h          # later entries are smaller: the last confirmed one wins
    seen_keys = set()
    for r in reps:
        key = f"{r['label']}:{r['sig']}:{tags(r['small'])}"
        if key in seen_keys:
            continue
        seen_keys.add(key)
        idx = r['idx']
        what = (f"{r['label']}: {r['n']} program(s) in this failure group; transformed program "
                f"{'output differs from FMachine' if r['kind'] == 'output' else r['kind']}: {r['msg'][:700]}\n"
                f"--- original (shrunk) ---\n{F.render(r['small'])}--- transformed (unshrunk case) ---\n{results[idx].get('newtext', '')[:3000]}")
        ctx.violation(key, what, {'prog': cases[idx][0], 'inputs': cases[idx][1]})


def run_slices(ctx, slices, total, assumptions, minimums=None):
    """Common driver body of C28 / C33: generate per slice, one behaviour_check over everything, report."""
    import os
    if ctx.replay:
        c = ctx.replay['case']
        cases = [(c['prog'], c['inputs'])]
    else:
        total = int(os.environ.get('VERIF_N', total))
        only = os.environ.get('VERIF_SLICES')          # development: comma separated labels
        active = {k: v for k, v in slices.items() if not only or k in only.split(',')}
        wsum = sum(sl[3] for sl in active.values())
        cases = []
        for label, sl in active.items():
            n = max(2, round(total * sl[3] / wsum))
            for _ in range(n):
                prog, inputs = generate(ctx.rng, sl[0], sl[2], post=sl[4] if len(sl) > 4 else None)
                prog['slice'] = label
                cases.append((prog, inputs))
    results, fails, legal = F.behaviour_check(ctx, 'all', cases, dispatch(slices))
    per = {}
    failed = {idx: sig_of(kind, msg) for idx, kind, msg in fails}
    for r in results:
        label = cases[r['idx']][0]['slice']
        st = per.setdefault(label, {'programs': 0, 'legal': 0, 'not_applicable': 0, 'ok': 0, 'failing': 0})
        st['programs'] += 1
        if r['idx'] in legal:
            st['legal'] += 1
            if r.get('new', ('',))[0] == 'not-applicable':
                st['not_applicable'] += 1
            elif r['idx'] in failed:
                st['failing'] += 1
            else:
                st['ok'] += 1
    ctx.cover['slices'] = per
    # vacuity guard: strata that every run must have exercised (judged programs carrying the tag)
    for tag, least in (minimums or {}).items():
        have = sum(1 for r in results if r['idx'] in legal and r.get('new', ('',))[0] != 'not-applicable'
                   and tag in tags(cases[r['idx']][0]).split('+'))
        ctx.cover[f'stratum_{tag}'] = have
        if not ctx.replay and not os.environ.get('VERIF_SLICES') and have < least:
            raise MachineryError(f'vacuity: only {have} judged programs of stratum {tag} (minimum {least})')
    report(ctx, cases, results, fails, slices, per_group=1 if ctx.quick else 2, rounds=8 if ctx.quick else 16,
           budget=int(os.environ.get('VERIF_SHRINK_BUDGET', 45 if ctx.quick else 420)),
           base=[k for k in slices if '-' not in k or k.startswith('xform')])
    seen = set()
    for r in results:
        label = cases[r['idx']][0]['slice']
        if label not in seen and len(ctx.samples) < 6 and r['idx'] in legal:
            seen.add(label)
            ctx.sample({'slice': label, 'program': r['text'], 'inputs': cases[r['idx']][1][:1]})
    ctx.assumptions += assumptions
