"""MiniFortran plumbing for the behaviour-preservation checks (C01, C26-C39):
   gen_program()  seeded derivation of a program in the JSON grammar of spec/FMachine.tla
   render()       program JSON -> Fortran module text (trusted; pre-flight validates it with gfortran)
   driver_text()  harness-owned PROGRAM that feeds inputs and prints results (never passed through Loki)
   build_and_run() gfortran compile + run, canonical observed output
The expected behaviour is NOT computed here: TLC evaluates spec/FMachine.tla (Trace_FMachine)."""
import os
import re
import random
import subprocess
import threading
from fractions import Fraction

from .core import MachineryError

NONE = {'k': 'none'}


# ----------------------------------------------------------------------------- small constructors
def V(n):
    return {'k': 'var', 'name': n}


def N(v):
    return {'k': 'int', 'v': v} if v >= 0 else {'k': 'neg', 'c': [{'k': 'int', 'v': -v}]}


def R(n, d=1):
    f = Fraction(n, d)
    if f < 0:
        return {'k': 'neg', 'c': [{'k': 'real', 'n': -f.numerator, 'd': f.denominator}]}
    return {'k': 'real', 'n': f.numerator, 'd': f.denominator}


def op(k, *c):
    return {'k': k, 'c': list(c)}


def call(f, *c):
    return {'k': 'call', 'f': f, 'c': list(c)}


def el(name, *subs):
    return {'k': 'arr', 'name': name, 'c': list(subs)}


def rng_(lo=None, hi=None, st=None):
    return {'k': 'range', 'lo': lo or NONE, 'hi': hi or NONE, 'st': st or NONE}


def cmp_(o, a, b):
    return {'k': 'cmp', 'op': o, 'c': [a, b]}


def assign(lhs, rhs):
    return {'s': 'assign', 'lhs': lhs, 'rhs': rhs}


def decl(name, ty, intent='local', dims=(), init=None):
    return {'name': name, 'type': ty, 'intent': intent, 'dims': [list(d) for d in dims], 'init': init or NONE}


def unit(name, args, decls, body, kind='subroutine', result='', host=''):
    return {'name': name, 'kind': kind, 'args': list(args), 'decls': decls, 'body': body, 'result': result, 'host': host}


# ----------------------------------------------------------------------------- renderer
# Case mixing: Fortran is case-insensitive.  Inside `with casemixing(seed):` (or render(prog, casemix=seed) /
# prog['casemix'] = seed) every OCCURRENCE of an identifier that goes through ident() - variables, dummies, DO
# variables, associate names, procedure / module names, the kind parameter - is spelled lower / UPPER / Capitalised
# at random (deterministic per seed and text).  Keywords, intrinsic names, literals and raw text are left alone.
# The abstract program (what the machine sees) is unchanged.  The state is thread-local (renders run in threads).
_CASE = threading.local()
INTRINSIC_NAMES = {'abs', 'mod', 'modulo', 'max', 'min', 'sign', 'int', 'nint', 'real', 'merge', 'present', 'size', 'lbound',
                   'ubound', 'sum', 'maxval', 'minval'}


def ident(name):
    rng = getattr(_CASE, 'rng', None)
    if rng is None or name in _CASE.keep:
        return name
    r = rng.random()
    return name if r < 0.34 else name.upper() if r < 0.67 else name.capitalize()


class casemixing:
    """Context manager: identifiers rendered inside are case mixed with random.Random(seed); seed None = no change
    (an enclosing context stays in force).  `seed` may also be a random.Random (a seed is drawn from it).
    Names in `keep` are always spelled as given."""

    def __init__(self, seed, keep=()):
        self.seed = seed.getrandbits(32) if isinstance(seed, random.Random) else seed
        self.keep = frozenset(keep)

    def __enter__(self):
        self.old = (getattr(_CASE, 'rng', None), getattr(_CASE, 'keep', frozenset()))
        if self.seed is not None:
            _CASE.rng = random.Random(self.seed)
            _CASE.keep = self.keep
        return self

    def __exit__(self, *exc):
        _CASE.rng, _CASE.keep = self.old
        return False


def kinded(text):
    """Type / literal text with the kind parameter jprb spelled through ident()."""
    return text.replace('jprb', ident('jprb')) if getattr(_CASE, 'rng', None) is not None else text


PREC = {'or': 1, 'and': 2, 'not': 3, 'cmp': 4, 'sum': 5, 'neg': 5, 'prod': 6, 'quot': 6, 'pow': 7}


def rx(e, parent=0, right=False):
    """Expression -> Fortran text with the brackets the grammar requires (and no others, except that a
    sign following an operator is always bracketed: standard Fortran)."""
    k = e['k']
    if k == 'int':
        return str(e['v'])
    if k == 'real':
        return kinded(real_lit(Fraction(e['n'], e['d'])))
    if k == 'log':
        return '.true.' if e['v'] else '.false.'
    if k == 'var':
        return ident(e['name'])
    if k == 'arr':
        return f"{ident(e['name'])}({', '.join(rsub(s) for s in e['c'])})"
    if k == 'call':
        fn = e['f'] if e['f'] in INTRINSIC_NAMES else ident(e['f'])
        return f"{fn}({', '.join(rx(c) for c in e['c'])})"
    if k == 'par':
        return '(' + rx(e['c'][0]) + ')'
    p = PREC[k]
    if k == 'sum':
        parts = []
        for i, c in enumerate(e['c']):
            if c['k'] == 'neg' and i > 0:
                parts.append(' - ' + rx(c['c'][0], 6))
            else:
                parts.append((' + ' if i else '') + rx(c, p if i == 0 else 6 if c['k'] == 'neg' else p, i > 0))
        s = ''.join(parts)
    elif k == 'prod':
        s = '*'.join(rx(c, p + (1 if i > 0 and c['k'] in ('quot', 'prod') else 0), i > 0) for i, c in enumerate(e['c']))
    elif k == 'quot':
        s = rx(e['c'][0], p) + ' / ' + rx(e['c'][1], p + 1, True)
    elif k == 'pow':
        s = rx(e['c'][0], p + 1) + '**' + rx(e['c'][1], p, True)
    elif k == 'neg':
        s = '-' + rx(e['c'][0], 6)
        if right or parent >= 5:
            return '(' + s + ')'
        return s
    elif k == 'not':
        s = '.not. ' + rx(e['c'][0], 4)
    elif k == 'cmp':
        s = rx(e['c'][0], 5) + f" {e['op']} " + rx(e['c'][1], 5)
    elif k in ('and', 'or'):
        s = f' .{k}. '.join(rx(c, p + 1) for c in e['c'])
    else:
        raise MachineryError(f'render: unknown expression kind {k}')
    return '(' + s + ')' if parent > p or (parent == p and right) else s


def rsub(s):
    if s['k'] == 'range':
        lo = '' if s['lo'] == NONE else rx(s['lo'])
        hi = '' if s['hi'] == NONE else rx(s['hi'])
        st = '' if s['st'] == NONE else ':' + rx(s['st'])
        return f'{lo}:{hi}{st}'
    return rx(s)


def real_lit(f):
    if f.denominator == 1:
        return f'{f.numerator}.0_jprb'
    d, k5, k2 = f.denominator, 0, 0
    while d % 2 == 0:
        d //= 2
        k2 += 1
    while d % 5 == 0:
        d //= 5
        k5 += 1
    if d != 1:
        raise MachineryError('non-decimal real literal')
    digits = max(k2, k5)
    s = str((f * 10 ** digits).numerator).rjust(digits + 1, '0')
    return f'{s[:-digits]}.{s[-digits:]}_jprb'


TYPES = {'int': 'integer', 'real': 'real(kind=jprb)', 'log': 'logical'}


def rdecl(d, is_arg):
    attrs = [kinded(TYPES[d['type']])]
    if is_arg and d['intent'] in ('in', 'out', 'inout'):
        attrs.append(f"intent({d['intent']})")
    dims = ''
    if d.get('xdims'):      # expression bounds / assumed shape (C34, C39), see FMachine.HasX
        def xb(lo, hi):
            if hi['k'] == 'assumed':
                return ':' if lo == NONE else f'{rx(lo)}:'
            return rx(hi) if lo == NONE else f'{rx(lo)}:{rx(hi)}'
        dims = '(' + ', '.join(xb(lo, hi) for lo, hi in d['xdims']) + ')'
    elif d['dims']:
        dims = '(' + ', '.join(f'{lo}:{hi}' for lo, hi in d['dims']) + ')'
    init = ''
    if d['init'] != NONE and not is_arg:
        # a declaration initialiser would imply SAVE: locals are initialised by statements instead
        raise MachineryError('initialisers are rendered as statements')
    return f"{', '.join(attrs)} :: {ident(d['name'])}{dims}{init}"


def rstmts(ss, ind, style):
    out = []
    pad = ' ' * ind
    for s in ss:
        k = s['s']
        if k == 'assign':
            lhs = s['lhs']
            out.append(f"{pad}{rx(lhs)} = {rx(s['rhs'])}")
        elif k == 'if':
            if len(s['conds']) == 1 and not s['els'] and len(s['bodies'][0]) == 1 and s['bodies'][0][0]['s'] in ('assign', 'exit', 'cycle', 'call', 'print', 'prints') and s.get('inline'):
                out.append(f"{pad}if ({rx(s['conds'][0])}) " + rstmts(s['bodies'][0], 0, style)[0])
                continue
            for i, (c, b) in enumerate(zip(s['conds'], s['bodies'])):
                out.append(f"{pad}{'if' if i == 0 else 'else if'} ({rx(c)}) then")
                out += rstmts(b, ind + 2, style)
            if s['els']:
                out.append(f'{pad}else')
                out += rstmts(s['els'], ind + 2, style)
            out.append(f'{pad}end if')
        elif k == 'do':
            st = '' if s['st'] == NONE else ', ' + rx(s['st'])
            if s.get('label'):
                out.append(f"{pad}do {s['label']} {ident(s['var'])} = {rx(s['lo'])}, {rx(s['hi'])}{st}")
                out += rstmts(s['body'], ind + 2, style)
                out.append(f"{s['label']:<{max(ind, 1)}} continue".replace('  continue', ' continue') if ind else f"{s['label']} continue")
            else:
                out.append(f"{pad}do {ident(s['var'])} = {rx(s['lo'])}, {rx(s['hi'])}{st}")
                out += rstmts(s['body'], ind + 2, style)
                out.append(f'{pad}end do')
        elif k == 'while':
            out.append(f"{pad}do while ({rx(s['cond'])})")
            out += rstmts(s['body'], ind + 2, style)
            out.append(f'{pad}end do')
        elif k == 'select':
            out.append(f"{pad}select case ({rx(s['e'])})")
            for c in s['cases']:
                sel = str(c['lo']) if c['lo'] == c['hi'] else f"{c['lo']}:{c['hi']}"
                out.append(f'{pad}case ({sel})')
                out += rstmts(c['body'], ind + 2, style)
            if s['default']:
                out.append(f'{pad}case default')
                out += rstmts(s['default'], ind + 2, style)
            out.append(f'{pad}end select')
        elif k == 'call':
            out.append(f"{pad}call {ident(s['name'])}({', '.join(rx(a) for a in s['args'])})")
        elif k == 'print':
            out.append(f"{pad}print *, {', '.join(rx(i) for i in s['items'])}")
        elif k == 'prints':
            out.append(f"{pad}print '(A)', '" + s['text'].replace("'", "''") + "'")
        elif k == 'assoc':
            pairs = ', '.join(f'{ident(n)} => {rx(t)}' for n, t in zip(s['names'], s['targets']))
            out.append(f'{pad}associate ({pairs})')
            out += rstmts(s['body'], ind + 2, style)
            out.append(f'{pad}end associate')
        elif k == 'where':    # WHERE / ELSEWHERE construct (machine: spec/FMachineLog.tla only)
            for i, (c, b) in enumerate(zip(s['conds'], s['bodies'])):
                out.append(f"{pad}{'where' if i == 0 else 'elsewhere'} ({rx(c)})")
                out += rstmts(b, ind + 2, style)
            if s['els']:
                out.append(f'{pad}elsewhere')
                out += rstmts(s['els'], ind + 2, style)
            out.append(f'{pad}end where')
        elif k in ('exit', 'cycle', 'return'):
            out.append(pad + k)
        elif k == 'nop':
            out.append(pad + 'continue')
        elif k == 'raw':      # text only constructs the machine treats as no-ops (pragmas, comments)
            out.append(pad + s['text'])
        else:
            raise MachineryError(f'render: unknown statement {k}')
    return out


def render_unit(u, prog, ind=2, style=None):
    pad = ' ' * ind
    args = ', '.join(ident(a) for a in u['args'])
    head = f"{pad}subroutine {ident(u['name'])}({args})" if u['kind'] == 'subroutine' else \
        f"{pad}function {ident(u['name'])}({args}) result({ident(u['result'])})"
    lines = [head]
    for d in u['decls']:
        lines.append(pad + '  ' + rdecl(d, d['name'] in u['args']))
    lines += rstmts(u['body'], ind + 2, style)
    inner = [x for x in prog['units'] if x['host'] == u['name']]
    if inner:
        lines.append(pad + 'contains')
        for x in inner:
            lines += render_unit(x, prog, ind + 2, style)
    lines.append(f"{pad}end {u['kind']} {ident(u['name'])}")
    return lines


RENDERERS = {}     # prog['renderer'] -> function(prog) -> text: module layouts owned by lib_fm_<topic> modules


def render(prog, modname='kmod', style=None, casemix=None):
    """casemix: seed (int) or random.Random for case-mixed identifiers (see casemixing); default prog.get('casemix');
    prog.get('casemix_keep') lists names that keep their spelling."""
    if prog.get('renderer'):
        with casemixing(casemix, prog.get('casemix_keep', ())):
            return RENDERERS[prog['renderer']](prog)      # topic renderers honour prog['casemix'] themselves
    with casemixing(casemix if casemix is not None else prog.get('casemix'), prog.get('casemix_keep', ())):
        lines = [f'module {ident(modname)}', '  implicit none', f"  integer, parameter :: {ident('jprb')} = selected_real_kind(13, 300)", 'contains']
        for u in prog['units']:
            if not u['host']:
                lines += render_unit(u, prog, 2, style)
        lines.append(f'end module {ident(modname)}')
    return '\n'.join(lines) + '\n'


# ----------------------------------------------------------------------------- inputs / driver
def val_int(v):
    return {'t': 'int', 'v': v}


def val_real(f):
    f = Fraction(f)
    return {'t': 'real', 'n': f.numerator, 'd': f.denominator}


def val_log(b):
    return {'t': 'log', 'v': bool(b)}


def val_arr(dims, els):
    return {'t': 'arr', 'lb': [d[0] for d in dims], 'ub': [d[1] for d in dims], 'els': els}


def fort_value(v):
    if v['t'] == 'int':
        return str(v['v'])
    if v['t'] == 'real':
        return real_lit(Fraction(v['n'], v['d'])) if v['n'] >= 0 else '-' + real_lit(Fraction(-v['n'], v['d']))
    if v['t'] == 'log':
        return '.true.' if v['v'] else '.false.'
    raise MachineryError('fort_value')


def driver_text(prog, entry, inputs, modname='kmod'):
    """PROGRAM that, for each input set, assigns the dummies, calls the entry and prints every
    intent(out|inout) argument element by element with a type tag. A marker line separates runs."""
    u = next(x for x in prog['units'] if x['name'] == entry)
    L = ['program drv', f'  use {modname}', '  implicit none']
    for d in u['decls']:
        if d['name'] in u['args']:
            dims = '(' + ', '.join(f'{lo}:{hi}' for lo, hi in d['dims']) + ')' if d['dims'] else ''
            L.append(f"  {TYPES[d['type']]} :: {d['name']}{dims}")
    L.append('  integer :: i_, j_, k_')
    for k, inp in enumerate(inputs):
        for d in u['decls']:
            n = d['name']
            if n not in u['args']:
                continue
            if n in inp:
                v = inp[n]
                if v['t'] == 'arr':
                    vals = ', '.join(fort_value(x) for x in v['els'])
                    shape = ', '.join(str(hi - lo + 1) for lo, hi in d['dims'])
                    L.append(f'  {n} = reshape([{vals}], [{shape}])')
                else:
                    L.append(f'  {n} = {fort_value(v)}')
            else:
                # intent(out): poison so that a missing definition is visible, not random
                poison = {'int': '-777', 'real': '-777.0_jprb', 'log': '.false.'}[d['type']]
                L.append(f'  {n} = {poison}')
        L.append(f"  print '(A,I0)', '@@RUN ', {k}")
        L.append(f"  call {entry}({', '.join(u['args'])})")
        L.append("  print '(A)', '@@OUT'")
        for n in u['args']:
            d = next(x for x in u['decls'] if x['name'] == n)
            if d['intent'] not in ('out', 'inout'):
                continue
            fmt = {'int': "'(A,I0)', 'I '", 'real': "'(A,ES30.20E3)', 'R '", 'log': "'(A,L1)', 'L '"}[d['type']]
            if not d['dims']:
                L.append(f'  print {fmt}, {n}')
            elif len(d['dims']) == 1:
                L += [f"  do i_ = {d['dims'][0][0]}, {d['dims'][0][1]}", f'    print {fmt}, {n}(i_)', '  end do']
            elif len(d['dims']) == 2:
                L += [f"  do j_ = {d['dims'][1][0]}, {d['dims'][1][1]}", f"  do i_ = {d['dims'][0][0]}, {d['dims'][0][1]}",
                      f'    print {fmt}, {n}(i_, j_)', '  end do', '  end do']
            else:
                L += [f"  do k_ = {d['dims'][2][0]}, {d['dims'][2][1]}", f"  do j_ = {d['dims'][1][0]}, {d['dims'][1][1]}",
                      f"  do i_ = {d['dims'][0][0]}, {d['dims'][0][1]}", f'    print {fmt}, {n}(i_, j_, k_)', '  end do', '  end do', '  end do']
    L.append("  print '(A)', '@@END'")
    L.append('end program drv')
    return '\n'.join(L) + '\n'


def text_code(text):
    """Encoding of a printed character string as a small integer (position-weighted character sum)."""
    return sum((i % 97 + 1) * ord(c) for i, c in enumerate(text)) % 29989


def prints(text):
    return {'s': 'prints', 'text': text, 'code': text_code(text), 'len': len(text)}


STRINGS = ['#even   value:', '#a  b', "#it's", '#call foo(x)  ! not a comment', '#x = y + 1', '#if (a) then', '#tab\there', '#a & b &', '#  lead',
           '#end do', '#use mod, only: x', '#1.0e-3   2.5', '#.lt. .GT.']


def _real_image(text):
    """Exact rational image of a printed real; NaN / Infinity / unparsable text become a value image that
    no machine value equals (a mismatch for the trace spec, not a harness exception)."""
    try:
        f = Fraction(float(text))
    except (ValueError, OverflowError):
        return ['nonfinite', 0, 1]
    if abs(f.numerator) > 2 ** 30 or f.denominator > 2 ** 30:
        return ['nonfinite', 1, 1]        # beyond what TLC integers can hold: cannot equal a modelled value
    return ['real', f.numerator, f.denominator]


def _tok_value(tok):
    """One list-directed output token of the kernel's own PRINT statements."""
    if tok in ('T', 'F'):
        return ['log', 1 if tok == 'T' else 0, 1]
    if re.fullmatch(r'[+-]?\d+', tok):
        return ['int', int(tok), 1] if abs(int(tok)) < 2 ** 30 else ['nonfinite', 2, 1]
    return _real_image(tok)


def parse_output(text, nruns):
    """stdout -> list (per run) of observed value images [[tag, n, d], ...]; None if the run is incomplete."""
    runs = [None] * nruns
    cur = None
    mode = None
    vals = []
    for raw in text.splitlines():
        line = raw.strip()
        if raw.startswith('#') and cur is not None and mode == 'print':
            vals.append(['str', text_code(raw), len(raw)])
            runs[cur] = vals
            continue
        if line.startswith('@@RUN'):
            cur = int(line.split()[1])
            mode = 'print'
            vals = []
        elif line == '@@OUT':
            mode = 'out'
        elif line == '@@END':
            break
        elif cur is not None and line:
            if mode == 'out':
                tag, _, rest = line.partition(' ')
                rest = rest.strip()
                if tag == 'I':
                    vals.append(['int', int(rest), 1] if abs(int(rest)) < 2 ** 30 else ['nonfinite', 2, 1])
                elif tag == 'R':
                    vals.append(_real_image(rest))
                elif tag == 'L':
                    vals.append(['log', 1 if rest == 'T' else 0, 1])
                else:
                    raise MachineryError(f'unexpected output line {line!r}')
            else:
                vals += [_tok_value(t) for t in line.split()]
            runs[cur] = vals
        if cur is not None and runs[cur] is None:
            runs[cur] = vals
    return runs


def compile_run(workdir, tag, sources, timeout=60):
    """Compile the given (name, text) sources in order with gfortran and run the result.
    Returns (status, stdout, stderr): status in 'ok' | 'compile-error' | 'runtime-error' | 'timeout'."""
    d = os.path.join(workdir, tag)
    os.makedirs(d, exist_ok=True)
    files = []
    for name, text in sources:
        p = os.path.join(d, name)
        with open(p, 'w') as fh:
            fh.write(text)
        files.append(name)
    try:
        c = subprocess.run(['gfortran', '-O0', '-w', '-fno-range-check', '-ffree-line-length-none', '-o', 'a.out'] + files, cwd=d,
                           capture_output=True, text=True, timeout=120)
    except subprocess.TimeoutExpired:
        return 'timeout', '', 'compile timeout'
    if c.returncode != 0:
        return 'compile-error', '', c.stderr[-3000:]
    try:
        r = subprocess.run(['./a.out'], cwd=d, capture_output=True, text=True, timeout=timeout)
    except subprocess.TimeoutExpired:
        return 'timeout', '', 'run timeout'
    if r.returncode != 0:
        return 'runtime-error', r.stdout, r.stderr[-2000:]
    return 'ok', r.stdout, r.stderr


# ----------------------------------------------------------------------------- generator
class Gen:
    """Seeded derivation of kernel programs. `features` selects the constructs (so each property's
    driver generates programs that exercise its transformation)."""

    IA = ('ia', [(0, 4)])        # integer array, lower bound 0
    IB = ('ib', [(1, 3), (-1, 1)])   # 2-d integer array with a negative lower bound
    RA = ('ra', [(1, 4)])

    def __init__(self, rng, features=()):
        self.rng = rng
        self.f = set(features)
        self.loopvars = ['i', 'j', 'l']
        self.depth_loops = 0
        self.label = 10

    # ---- expressions
    def int_leaf(self, scalars):
        r = self.rng.random()
        if r < 0.45:
            return V(self.rng.choice(scalars))
        if r < 0.6:
            return self.ia_elem(scalars)
        if r < 0.68 and 'ib' in self.arrays:
            return el('ib', self.index('ib', 0, scalars), self.index('ib', 1, scalars))
        return N(self.rng.choice([0, 1, 2, 3, 5, 7]))

    def index(self, arr, dim, scalars, simple=None):
        lo, hi = self.arrays[arr][dim]
        ext = hi - lo + 1
        if (simple is None and self.rng.random() < 0.5) or simple:
            cands = [v for v in self.active_loops if self.loop_range.get(v, (0, -1))[0] >= lo and self.loop_range[v][1] <= hi]
            if cands:
                return V(self.rng.choice(cands))
            return N(self.rng.randint(lo, hi))
        inner = call('mod', call('abs', self.int_expr(1, scalars)), N(ext))
        return inner if lo == 0 else op('sum', N(lo), inner)

    def ia_elem(self, scalars):
        return el('ia', self.index('ia', 0, scalars))

    def int_expr(self, d, scalars):
        if d <= 0 or self.rng.random() < 0.25:
            return self.int_leaf(scalars)
        r = self.rng.random()
        a, b = self.int_expr(d - 1, scalars), self.int_expr(d - 1, scalars)
        if r < 0.3:
            return op('sum', a, b)
        if r < 0.45:
            return op('sum', a, op('neg', b))
        if r < 0.6:
            return op('prod', a, self.int_leaf(scalars))
        if r < 0.7:
            return op('quot', a, N(self.rng.choice([2, 3, 4])))
        if r < 0.78:
            return call('mod', a, N(self.rng.choice([3, 5, 7])))
        if r < 0.84:
            return call(self.rng.choice(['max', 'min']), a, b)
        if r < 0.88:
            return call('abs', a)
        if r < 0.92:
            return op('neg', a)
        if r < 0.96:
            return op('par', op('sum', a, b))
        return op('pow', self.int_leaf(scalars), N(2))

    def real_expr(self, d, rscalars, scalars):
        if d <= 0 or self.rng.random() < 0.3:
            r = self.rng.random()
            if r < 0.4 and rscalars:
                return V(self.rng.choice(rscalars))
            if r < 0.6:
                return el('ra', self.index('ra', 0, scalars))
            return self.rng.choice([R(1, 2), R(2), R(3, 2), R(1), R(1, 4)])
        r = self.rng.random()
        a, b = self.real_expr(d - 1, rscalars, scalars), self.real_expr(d - 1, rscalars, scalars)
        if r < 0.35:
            return op('sum', a, b)
        if r < 0.5:
            return op('sum', a, op('neg', b))
        if r < 0.7:
            return op('prod', a, self.rng.choice([R(1, 2), R(2), R(1, 4)]))
        if r < 0.8:
            return op('quot', a, self.rng.choice([R(2), R(4)]))
        if r < 0.9:
            return op('prod', a, call('real', self.int_leaf(scalars)))
        return call('abs', a)

    def cond(self, scalars):
        r = self.rng.random()
        c = cmp_(self.rng.choice(['==', '/=', '<', '<=', '>', '>=']), self.int_expr(1, scalars), self.int_expr(1, scalars))
        if r < 0.15:
            return V('flag')
        if r < 0.3:
            return op('and', c, cmp_(self.rng.choice(['<', '>']), self.int_leaf(scalars), N(2)))
        if r < 0.4:
            return op('or', c, V('flag'))
        if r < 0.5:
            return op('not', c)
        return c

    # ---- statements
    def bounded(self, e):
        """Keep integer magnitudes small so that the machine's magnitude bound is not hit."""
        return call('mod', e, N(self.rng.choice([13, 17, 19])))

    def stmt(self, d):
        rng = self.rng
        scal = self.int_scalars
        r = rng.random()
        kinds = ['assign', 'assign', 'aelem', 'aelem', 'real', 'if', 'do', 'print']
        if 'select' in self.f:
            kinds.append('select')
        if 'while' in self.f:
            kinds.append('while')
        if 'call' in self.f and self.helpers:
            kinds += ['call', 'call']
        if 'exitcycle' in self.f and self.active_loops and self.active_loops[-1] != 'w':
            kinds.append('exitcycle')
        if 'section' in self.f:
            kinds += ['section', 'section']
        if 'fcall' in self.f and self.functions:
            kinds += ['fcall']
        if 'assoc' in self.f and self.assoc_depth < 2:
            kinds += ['assoc', 'assoc']
        if 'strings' in self.f:
            kinds += ['prints']
        if d <= 0:
            kinds = [k for k in kinds if k not in ('if', 'do', 'select', 'while')]
        k = rng.choice(kinds)
        writable = [v for v in self.int_writable if v not in self.active_loops]
        if k == 'assign':
            return [assign(V(rng.choice(writable)), self.bounded(self.int_expr(2, scal)))]
        if k == 'aelem':
            if rng.random() < 0.3 and 'ib' in self.arrays:
                return [assign(el('ib', self.index('ib', 0, scal), self.index('ib', 1, scal)), self.bounded(self.int_expr(2, scal)))]
            return [assign(self.ia_elem(scal), self.bounded(self.int_expr(2, scal)))]
        if k == 'real':
            tgt = V(rng.choice(self.real_writable)) if rng.random() < 0.6 else el('ra', self.index('ra', 0, scal))
            return [assign(tgt, self.real_expr(1, self.real_scalars, scal))]
        if k == 'if':
            n = rng.choice([1, 1, 2])
            s = {'s': 'if', 'conds': [self.cond(scal) for _ in range(n)], 'bodies': [self.block(d - 1, rng.randint(1, 2)) for _ in range(n)],
                 'els': self.block(d - 1, 1) if rng.random() < 0.5 else []}
            if n == 1 and not s['els'] and len(s['bodies'][0]) == 1 and rng.random() < 0.5:
                s['inline'] = True
            return [s]
        if k == 'do':
            free = [v for v in self.loopvars if v not in self.active_loops]
            if not free:
                return [assign(V(rng.choice(writable)), self.bounded(self.int_expr(1, scal)))]
            v = free[0]
            arr = rng.choice(list(self.arrays))
            dim = rng.randrange(len(self.arrays[arr]))
            lo, hi = self.arrays[arr][dim]
            st = NONE
            shape = rng.random()
            if shape < 0.55:
                lo_e, hi_e = N(lo), N(hi)
            elif shape < 0.7:
                lo_e, hi_e, st = N(hi), N(lo), N(-1)
            elif shape < 0.8:
                lo_e, hi_e, st = N(lo), N(hi), N(2)
            elif shape < 0.9:
                lo_e, hi_e = N(lo), call('min', V('n'), N(hi))       # possibly zero-trip (n input)
            else:
                lo_e, hi_e = N(lo + 1), N(lo)                          # zero-trip
            self.active_loops.append(v)
            self.loop_range[v] = (lo, hi)
            body = self.block(d - 1, rng.randint(1, 3))
            self.active_loops.pop()
            s = {'s': 'do', 'var': v, 'lo': lo_e, 'hi': hi_e, 'st': st, 'body': body}
            if 'labelled' in self.f and rng.random() < 0.3 and not any(x['s'] in ('exit', 'cycle') for x in _flat(body)):
                s['label'] = self.label
                self.label += 10
            return [s]
        if k == 'print':
            items = [self.int_expr(1, scal)]
            if rng.random() < 0.3:
                items.append(V(rng.choice(self.real_scalars)))
            if rng.random() < 0.2:
                items.append(V('ia'))
            return [{'s': 'print', 'items': items}]
        if k == 'select':
            cases = []
            lo = 0
            for _ in range(rng.randint(1, 3)):
                hi = lo + rng.choice([0, 0, 1])
                cases.append({'lo': lo, 'hi': hi, 'body': self.block(d - 1, 1)})
                lo = hi + 1 + rng.choice([0, 1])
            return [{'s': 'select', 'e': call('mod', call('abs', self.int_expr(1, scal)), N(6)), 'cases': cases,
                     'default': self.block(d - 1, 1) if rng.random() < 0.6 else []}]
        if k == 'while':
            w = 'w'
            if w in self.active_loops:
                return []
            self.active_loops.append(w)
            self.loop_range[w] = (0, 3)
            body = self.block(d - 1, rng.randint(1, 2)) + [assign(V(w), op('sum', V(w), N(1)))]
            self.active_loops.pop()
            return [assign(V(w), N(0)), {'s': 'while', 'cond': cmp_('<', V(w), N(rng.randint(1, 3))), 'body': body}]
        if k == 'exitcycle':
            return [{'s': 'if', 'conds': [self.cond(scal)], 'bodies': [[{'s': rng.choice(['exit', 'cycle'])}]], 'els': [], 'inline': True}]
        if k == 'call':
            h = rng.choice(self.helpers)
            return h['mkcall'](self)
        if k == 'fcall':
            fn = rng.choice(self.functions)
            return [assign(V(rng.choice(writable)), self.bounded(op('sum', call(fn['name'], *[self.int_expr(1, scal) for _ in fn['args']]), self.int_leaf(scal))))]
        if k == 'section':
            return self.section_stmt()
        if k == 'prints':
            st = prints(rng.choice(STRINGS))
            if rng.random() < 0.5:
                return [{'s': 'if', 'conds': [self.cond(scal)], 'bodies': [[st]], 'els': [], 'inline': True}]
            return [st]
        if k == 'assoc':
            return self.assoc_stmt(d)
        return []

    def assoc_stmt(self, d):
        """ASSOCIATE over a scalar variable, an array element and an expression; inside the block the
        names are used like variables (the selectors' own variables stay usable too: the machine models
        true association)."""
        rng = self.rng
        base = len(self.assoc_names)
        names, targets, wr, rd = [], [], [], []
        for i in range(rng.choice([1, 2, 2, 3])):
            nm = f'z{base + i + 1}'
            r = rng.random()
            writable = [v for v in self.int_writable if v not in self.active_loops]
            if r < 0.4:
                t = V(rng.choice(writable))
                wr.append(nm)
            elif r < 0.75:
                t = el('ia', self.index('ia', 0, self.int_scalars, simple=True))
                wr.append(nm)
            else:
                t = op('sum', self.int_expr(1, self.int_scalars), N(1))
            names.append(nm)
            targets.append(t)
            rd.append(nm)
        saved = (list(self.int_writable), list(self.int_scalars))
        self.assoc_names += names
        self.int_writable = self.int_writable + wr
        self.int_scalars = self.int_scalars + rd
        self.assoc_depth += 1
        body = self.block(d - 1, rng.randint(1, 3))
        self.assoc_depth -= 1
        self.int_writable, self.int_scalars = saved
        for _ in names:
            self.assoc_names.pop()
        return [{'s': 'assoc', 'names': names, 'targets': targets, 'body': body}]

    def section_stmt(self):
        rng = self.rng
        r = rng.random()
        lo, hi = self.arrays['ia'][0]
        if r < 0.25:      # whole array op
            return [assign(V('ia'), op('sum', V('ia'), self.int_leaf(self.int_scalars_noarr)))]
        if r < 0.5:       # overlapping shift: RHS must be read before any store
            k = rng.choice([1, 2])
            if rng.random() < 0.5:
                return [assign(el('ia', rng_(N(lo + k), N(hi))), op('sum', el('ia', rng_(N(lo), N(hi - k))), N(1)))]
            return [assign(el('ia', rng_(N(lo), N(hi - k))), op('prod', el('ia', rng_(N(lo + k), N(hi))), N(2)))]
        if r < 0.65:      # strided
            return [assign(el('ia', rng_(N(lo), N(hi), N(2))), op('sum', el('ia', rng_(N(lo), N(hi), N(2))), V('m')))]
        if r < 0.8 and 'ib' in self.arrays:   # 2-d section with a scalar subscript
            (l1, h1), (l2, h2) = self.arrays['ib']
            j = rng.randint(l2, h2)
            return [assign(el('ib', rng_(), N(j)), op('sum', el('ib', rng_(), N(rng.randint(l2, h2))), el('ia', rng_(N(lo), N(lo + h1 - l1)))))]
        if 'ib' in self.arrays:
            return [assign(V('ib'), op('prod', V('ib'), N(rng.choice([2, 3]))))]
        return [assign(el('ia', rng_(NONE, N(lo + 1))), N(rng.randint(0, 5)))]

    def block(self, d, n):
        out = []
        for _ in range(n):
            out += self.stmt(d)
        return out or [assign(V(self.int_writable[0]), N(1))]

    # ---- whole programs
    def program(self, nstmts=6, depth=2):
        rng = self.rng
        self.arrays = {'ia': self.IA[1], 'ra': self.RA[1]}
        if 'twod' in self.f or rng.random() < 0.5:
            self.arrays['ib'] = self.IB[1]
        self.active_loops = []
        self.loop_range = {}
        self.int_writable = ['k', 't1', 't2']
        self.int_scalars = ['n', 'm', 'k', 't1', 't2']
        self.int_scalars_noarr = list(self.int_scalars)
        self.real_scalars = ['x', 'y']
        self.real_writable = ['x', 'y']
        self.helpers = []
        self.functions = []
        self.assoc_names = []
        self.assoc_depth = 0
        units = []
        if 'call' in self.f:
            units += self.make_helpers()
        if 'fcall' in self.f:
            units += self.make_functions()
        decls = [decl('n', 'int', 'in'), decl('m', 'int', 'in'), decl('flag', 'log', 'in'),
                 decl('ia', 'int', 'inout', self.arrays['ia']), decl('ra', 'real', 'inout', self.arrays['ra'])]
        args = ['n', 'm', 'flag', 'ia', 'ra']
        if 'ib' in self.arrays:
            decls.append(decl('ib', 'int', 'inout', self.arrays['ib']))
            args.append('ib')
        decls += [decl('k', 'int', 'out'), decl('x', 'real', 'out')]
        args += ['k', 'x']
        decls += [decl(v, 'int') for v in ('i', 'j', 'l', 'w', 't1', 't2')] + [decl('y', 'real')]
        init = [assign(V('k'), N(0)), assign(V('x'), R(0)), assign(V('t1'), V('m')), assign(V('t2'), N(1)), assign(V('y'), R(1, 2))]
        body = init + self.block(depth, nstmts)
        kernel = unit('kernel', args, decls, body)
        return {'units': [kernel] + units}

    def make_helpers(self):
        """Module-level helper subroutines with every intent; call sites respect the aliasing rules."""
        rng = self.rng
        hs = []
        # h1(a, s, r): a inout array, s in, r out
        b1 = [assign(V('r'), N(0)),
              {'s': 'do', 'var': 'q', 'lo': N(0), 'hi': N(4), 'st': NONE, 'body': [
                  assign(el('a', V('q')), call('mod', op('sum', el('a', V('q')), V('s')), N(11))),
                  assign(V('r'), op('sum', V('r'), el('a', V('q'))))]}]
        if rng.random() < 0.5:
            b1.insert(1, {'s': 'if', 'conds': [cmp_('<', V('s'), N(0))], 'bodies': [[{'s': 'return'}]], 'els': []})
        u1 = unit('h1', ['a', 's', 'r'], [decl('a', 'int', 'inout', [(0, 4)]), decl('s', 'int', 'in'), decl('r', 'int', 'out'), decl('q', 'int')], b1)

        def call1(g):
            # the intent(in) actual is always a compound expression (a temporary), never a variable that
            # could alias the intent(out) actual
            return [{'s': 'call', 'name': 'h1', 'args': [V('ia'), op('sum', g.int_expr(1, g.int_scalars_noarr), N(1)), V(g.rng.choice(['t1', 't2', 'k']))]}]
        hs.append({'unit': u1, 'mkcall': call1})
        # h2(p, q): scalars inout / in, element actual
        u2 = unit('h2', ['p', 'q'], [decl('p', 'int', 'inout'), decl('q', 'int', 'in')],
                  [assign(V('p'), call('mod', op('sum', op('prod', V('p'), N(2)), V('q')), N(23)))])

        def call2(g):
            tgt = V(g.rng.choice(['t1', 't2', 'k'])) if g.rng.random() < 0.6 else el('ia', N(g.rng.randint(0, 4)))
            others = [v for v in ['n', 'm', 't1', 't2', 'k'] if v != tgt.get('name')]
            return [{'s': 'call', 'name': 'h2', 'args': [tgt, op('sum', V(g.rng.choice(others)), N(1))]}]
        hs.append({'unit': u2, 'mkcall': call2})
        self.helpers = hs
        return [h['unit'] for h in hs]

    def make_functions(self):
        f1 = unit('f1', ['u', 'v'], [decl('u', 'int', 'in'), decl('v', 'int', 'in'), decl('res', 'int')],
                  [assign(V('res'), call('mod', op('sum', op('prod', V('u'), N(3)), op('neg', V('v'))), N(7))),
                   {'s': 'if', 'conds': [cmp_('>', V('u'), V('v'))], 'bodies': [[assign(V('res'), op('sum', V('res'), N(1)))]], 'els': []}],
                  kind='function', result='res')
        self.functions = [f1]
        return [f1]

    def inputs(self, prog, count=4):
        rng = self.rng
        u = prog['units'][0]
        out = []
        for c in range(count):
            inp = {}
            for d in u['decls']:
                if d['name'] not in u['args'] or d['intent'] == 'out':
                    continue
                if d['dims']:
                    size = 1
                    for lo, hi in d['dims']:
                        size *= hi - lo + 1
                    if d['type'] == 'int':
                        els = [val_int(rng.randint(-3, 6)) for _ in range(size)]
                    else:
                        els = [val_real(Fraction(rng.randint(-4, 8), 2)) for _ in range(size)]
                    inp[d['name']] = val_arr(d['dims'], els)
                elif d['type'] == 'int':
                    inp[d['name']] = val_int([0, 1, 3, 5, -2, 2][(c + (0 if d['name'] == 'n' else 2)) % 6] if rng.random() < 0.7 else rng.randint(-2, 6))
                elif d['type'] == 'log':
                    inp[d['name']] = val_log(c % 2 == 0)
                else:
                    inp[d['name']] = val_real(Fraction(rng.randint(-3, 5), 2))
            out.append(inp)
        return out


def _flat(ss):
    for s in ss:
        yield s
        for key in ('body', 'els', 'default'):
            if key in s and isinstance(s[key], list):
                yield from _flat(s[key])
        for b in s.get('bodies', []):
            yield from _flat(b)
        for c in s.get('cases', []):
            yield from _flat(c['body'])


def input_json(inp):
    """Input store in the trace format: list of [name, value]."""
    return [[k, v] for k, v in sorted(inp.items())]


# ----------------------------------------------------------------------------- generic behaviour check
class NotApplicable(Exception):
    """The transformation under test does not apply to this program (not judged)."""


def stmt_kinds(prog):
    ks = set()
    for u in prog['units']:
        for s in _flat(u['body']):
            ks.add(s['s'])
    return ','.join(sorted(ks))


def removal_candidates(prog, limit=40):
    """Programs obtained by deleting one statement (at any depth) or by replacing a compound statement
    by its body; initialisation statements (first five of the kernel) are kept."""
    import copy
    out = []

    def paths(ss, prefix):
        for i, s in enumerate(ss):
            yield prefix + [i], s
            for key in ('body', 'els', 'default'):
                if isinstance(s.get(key), list):
                    yield from paths(s[key], prefix + [i, key])
            for bi, b in enumerate(s.get('bodies', [])):
                yield from paths(b, prefix + [i, 'bodies', bi])
            for ci, c in enumerate(s.get('cases', [])):
                yield from paths(c['body'], prefix + [i, 'cases', ci, 'body'])
    for ui, u in enumerate(prog['units']):
        for path, s in paths(u['body'], []):
            if ui == 0 and len(path) == 1 and path[0] < 5:
                continue
            for mode in ('delete', 'unwrap'):
                if mode == 'unwrap' and s['s'] not in ('if', 'while'):
                    continue
                p2 = copy.deepcopy(prog)
                cur = p2['units'][ui]['body']
                for step in path[:-1]:
                    cur = cur[step]
                idx = path[-1]
                if mode == 'delete':
                    if len(cur) == 1 and len(path) > 1:
                        cur[idx] = {'s': 'nop'}
                    else:
                        del cur[idx]
                else:
                    inner = s.get('body') or (s.get('bodies') or [[]])[0]
                    if s['s'] == 'do':
                        continue
                    cur[idx:idx + 1] = copy.deepcopy(inner)
                out.append(p2)
    # drop unused helper units last
    return out[:limit]


def behaviour_check(ctx, label, cases, transform, *, entry='kernel', shrink=True, max_disagree=0.03):
    """cases: list of (prog, inputs). transform(text, prog, workdir) -> list of (filename, text) sources that
    replace the kernel module (the driver program is appended by us), or raises NotApplicable.
    Every observed behaviour (original by gfortran = pre-flight; transformed) is validated by TLC against
    Run(prog, entry, input) of spec/FMachine.tla."""
    import concurrent.futures as cf

    def build_orig(idx):
        prog, inputs = cases[idx]
        text = render(prog)
        drv = driver_text(prog, entry, inputs)
        res = {'idx': idx, 'text': text, 'drv': drv}
        st, out, err = compile_run(ctx.work, f'{label}-{idx}-orig', [('kmod.f90', text), ('drv.f90', drv)])
        res['orig'] = (st, parse_output(out, len(inputs)) if st == 'ok' else None, err)
        return res

    def build_new(res):
        if 'srcs' not in res:
            return res
        inputs = cases[res['idx']][1]
        st2, out2, err2 = compile_run(ctx.work, f"{label}-{res['idx']}-new", list(res['srcs']) + [('drv.f90', res['drv'])])
        res['new'] = (st2, parse_output(out2, len(inputs)) if st2 == 'ok' else None, err2)
        return res

    with cf.ThreadPoolExecutor(max_workers=8) as ex:
        results = list(ex.map(build_orig, range(len(cases))))
    # Loki itself is not thread-safe (global timers): the transformation runs serially in this thread
    for res in results:
        if res['orig'][0] != 'ok':
            continue
        prog = cases[res['idx']][0]
        try:
            res['srcs'] = transform(res['text'], prog, os.path.join(ctx.work, f"{label}-{res['idx']}-tr"))
            res['newtext'] = '\n'.join(t for _, t in res['srcs'])
        except NotApplicable as ex:
            res['new'] = ('not-applicable', None, str(ex))
        except MachineryError:
            raise
        except Exception as ex:  # pylint: disable=broad-except
            import traceback
            res['new'] = ('transform-raised', None, f'{type(ex).__name__}: {ex}\n' + traceback.format_exc()[-1500:])
    with cf.ThreadPoolExecutor(max_workers=8) as ex:
        results = list(ex.map(build_new, results))
    tcases, tmeta = [], []
    stats = dict(programs=len(cases), orig_failed=0, not_applicable=0, illegal=0, oracle_disagreement=0, judged=0)
    hard = []     # violations that need no TLC (transformed code does not compile / crashes / transform raised)
    for r in results:
        prog, inputs = cases[r['idx']]
        if r['orig'][0] != 'ok':
            stats['orig_failed'] += 1
            r['drop'] = f"original does not build/run: {r['orig'][0]} {r['orig'][2][:300]}"
            continue
        if r['new'][0] == 'not-applicable':
            stats['not_applicable'] += 1
        for k, inp in enumerate(inputs):
            obs = r['orig'][1][k]
            if obs is None:
                continue
            tcases.append({'prog': prog, 'entry': entry, 'input': input_json(inp), 'observed': obs, 'mode': 'preflight'})
            tmeta.append((r['idx'], k, 'preflight'))
            if r['new'][0] == 'ok' and r['new'][1][k] is not None:
                tcases.append({'prog': prog, 'entry': entry, 'input': input_json(inp), 'observed': r['new'][1][k], 'mode': 'new'})
                tmeta.append((r['idx'], k, 'new'))
    verdicts = ctx.validate('Trace_FMachine', 'Trace_ExprEquiv', tcases, timeout=2400, per_shard_min=8) if tcases else {}
    pre = {}
    for i, (idx, k, mode) in enumerate(tmeta):
        if mode == 'preflight':
            pre[(idx, k)] = verdicts[i]
    bad = {}
    for i, (idx, k, mode) in enumerate(tmeta):
        if mode != 'new':
            continue
        p = pre.get((idx, k))
        if p is None or not p[0]:
            continue                     # no trusted reference for this input
        stats['judged'] += 1
        ok, clause, pos = verdicts[i]
        if not ok and not clause.startswith('illegal'):
            bad.setdefault(idx, (k, clause))
    legal_inputs = {}
    for (idx, k), v in pre.items():
        if v[0]:
            legal_inputs.setdefault(idx, []).append(k)
        elif v[1].startswith('illegal'):
            stats['illegal'] += 1
        else:
            stats['oracle_disagreement'] += 1
            ctx.cover.setdefault('oracle_disagreement_examples', [])
            if len(ctx.cover['oracle_disagreement_examples']) < 3:
                ctx.cover['oracle_disagreement_examples'].append({'clause': v[1], 'program': results[idx]['text'][:1500], 'input': cases[idx][1][k]})
    for r in results:
        idx = r['idx']
        if 'drop' in r or idx not in legal_inputs:
            continue
        if r['new'][0] in ('compile-error', 'runtime-error', 'timeout', 'transform-raised'):
            hard.append((idx, r['new'][0], r['new'][2]))
    total_pre = max(1, len(pre))
    if stats['oracle_disagreement'] / total_pre > max_disagree:
        ex = ctx.cover.get('oracle_disagreement_examples', [{}])[0]
        raise MachineryError(f"oracle disagreement (gfortran on the ORIGINAL program vs FMachine) on {stats['oracle_disagreement']} of "
                             f"{total_pre} runs, e.g. {ex.get('clause')}\n{ex.get('program')}\ninput={ex.get('input')}")
    fails = [(idx, 'output', bad[idx][1]) for idx in bad] + [(idx, kind, msg) for idx, kind, msg in hard]
    for key, val in stats.items():
        ctx.cover[f'{label}_{key}'] = ctx.cover.get(f'{label}_{key}', 0) + val
    return results, fails, legal_inputs


def failure_signature(kind, msg):
    """Class of a failure: kind + exception type / first diagnostic, digits and paths abstracted."""
    first = ''
    for line in msg.splitlines():
        line = line.strip()
        if line and not line.startswith(('Traceback', 'File ', '^', '|')) and not re.match(r'^\d+ \|', line):
            first = line
            if 'Error' in line:
                break
    first = re.sub(r'/[\w/.\-]+', '<path>', first)
    first = re.sub(r'\d+', 'N', first)
    if kind == 'output':
        first = 'output-differs'
    return f'{kind}:{first[:110]}'


def report_failures(ctx, label, cases, results, fails, recheck=None, max_groups=6, rounds=5):
    """Turn failing programs into violations with a normal-form key: failures are grouped by signature, one
    representative per group is shrunk by statement deletion (re-running the whole check on the
    candidates, in batches) and keyed by signature + statement kinds of the shrunk program."""
    groups = {}
    for idx, kind, msg in fails:
        groups.setdefault(failure_signature(kind, msg), []).append((idx, kind, msg))
    ctx.cover[f'{label}_failure_groups'] = {k: len(v) for k, v in groups.items()}
    for gi, (sig, members) in enumerate(sorted(groups.items())):
        idx, kind, msg = min(members, key=lambda m: len(results[m[0]]['text']))
        prog, inputs = cases[idx]
        small = prog
        if recheck is not None and gi < max_groups:
            for _ in range(rounds):
                cands = removal_candidates(small, limit=16)
                if not cands:
                    break
                outcome = recheck([(c, inputs) for c in cands])
                nxt = next((c for c, (f, sg) in zip(cands, outcome) if f and sg == sig), None)
                if nxt is None:
                    break
                small = nxt
        key = f'{label}:{sig}:{stmt_kinds(small)}'
        ctx.violation(key, f'{label}: {len(members)} program(s); transformed program {"output differs" if kind == "output" else kind}: {msg[:700]}\n'
                           f'--- original (shrunk) ---\n{render(small)}--- transformed (unshrunk case) ---\n{results[idx].get("newtext", "")[:3000]}',
                      {'prog': prog, 'inputs': inputs})


def make_recheck(ctx, transform, label='shrink'):
    def recheck(cs):
        res, fl, _ = behaviour_check(ctx, label, cs, transform)
        failed = {idx: failure_signature(kind, msg) for idx, kind, msg in fl}
        return [(i in failed, failed.get(i)) for i in range(len(cs))]
    return recheck
