"""Independent export of a real Loki IR (nodes AND expression trees) for C15 (spec/Finders.tla).

The export is a plain structural recursion
  * over the dataclass fields of every IR node (not over `children` / `_traversable`, and without
    any Loki visitor / finder / mapper), and
  * over the constructor arguments (`__getinitargs__`) of every expression node.
It yields, per IR node:   {'id', 'mro': [class names], 'td': is TypeDef, 'eq': value-equality class,
                           'b': [child nodes in field order], 'e': [expression trees of its own slots]}
per expression node:      {'o': object id, 'mro': [class names], 'key': uniqueness key, 'ch': [children]}

Fields that are documented not to be part of the searchable tree are listed in EXEMPT_FIELDS.
"""
from dataclasses import fields as dc_fields

# source/label metadata; symbol tables and parent scopes of scoped nodes; attached pragmas (documented in
# pragmas_attached: "hidden" from visitors while attached; C16); the member comments of a CommentBlock
# (a CommentBlock is a leaf that stands for its comments)
EXEMPT_FIELDS = {'source', 'label', 'symbol_attrs', 'parent', 'pragma', 'pragma_post', 'comments',
                 'rescope_symbols'}


class FullExporter:
    def __init__(self):
        self.node_id = {}      # id(node obj) -> node id
        self.expr_id = {}      # id(expr obj) -> object id
        self.keep = []
        self.eqcls = {}
        self.nodes = []        # node objects in export order (pre-order)
        self.nexpr = 0

    # -- expressions ------------------------------------------------------------------------
    def _oid(self, e):
        if id(e) not in self.expr_id:
            self.expr_id[id(e)] = len(self.expr_id) + 1
            self.keep.append(e)
        return self.expr_id[id(e)]

    @staticmethod
    def _is_expr(x):
        from pymbolic.primitives import Expression
        return isinstance(x, Expression)

    def _expr_children(self, e):
        """Expression-valued constructor arguments, in order (tuples / dicts / pairs are opened)."""
        out = []

        def collect(x):
            if self._is_expr(x):
                out.append(x)
            elif isinstance(x, (tuple, list)):
                for y in x:
                    collect(y)
            elif isinstance(x, dict):
                for y in x.values():
                    collect(y)
        try:
            args = e.__getinitargs__()
        except Exception:  # pylint: disable=broad-except
            args = ()
        for a in args:
            collect(a)
        return out

    def key(self, e):
        """The documented uniqueness key (ExpressionFinder.find_uniques): name, parent name, dimensions for
        variables, the printed expression otherwise. Fortran names are case-insensitive."""
        from loki.expression.symbols import Scalar, Array
        if isinstance(e, (Scalar, Array)):
            par = getattr(e, 'parent', None)
            dims = ','.join(str(d) for d in e.dimensions) if isinstance(e, Array) and e.dimensions else ''
            return f'{e.name}|{par.name if par is not None else ""}|{dims}'.lower()
        from loki.expression.symbols import TypedSymbol, MetaSymbol
        s = str(e)
        return s.lower() if isinstance(e, (TypedSymbol, MetaSymbol)) else s

    def expr(self, e):
        self.nexpr += 1
        return {'o': self._oid(e), 'mro': [c.__name__ for c in type(e).__mro__ if c.__name__ not in ('object', 'ABC')],
                'key': self.key(e), 'ch': [self.expr(c) for c in self._expr_children(e)]}

    # -- nodes --------------------------------------------------------------------------------
    def node(self, o):
        from loki.ir import Node
        nid = len(self.nodes) + 1
        self.node_id.setdefault(id(o), nid)
        self.nodes.append(o)
        try:
            eq = self.eqcls.setdefault(o, len(self.eqcls) + 1)
        except TypeError:
            eq = -nid
        rec = {'id': nid, 'mro': [c.__name__ for c in type(o).__mro__ if c.__name__ not in ('object', 'ABC')],
               'td': type(o).__name__ == 'TypeDef', 'eq': eq, 'b': [], 'e': []}
        kids, exprs = [], []

        def collect(x):
            if isinstance(x, Node):
                kids.append(x)
            elif self._is_expr(x):
                exprs.append(x)
            elif isinstance(x, (tuple, list)):
                for y in x:
                    collect(y)
            elif isinstance(x, dict):
                for y in x.values():
                    collect(y)
        for f in dc_fields(o):
            if f.name in EXEMPT_FIELDS:
                continue
            collect(getattr(o, f.name, None))
        # declaration initialisers are expressions of the declaration (DESIGN 4.7)
        if type(o).__name__ in ('VariableDeclaration', 'ProcedureDeclaration'):
            for v in o.symbols:
                ini = getattr(getattr(v, 'type', None), 'initial', None)
                if ini is not None and self._is_expr(ini):
                    exprs.append(ini)
        rec['e'] = [self.expr(x) for x in exprs]
        rec['b'] = [self.node(k) for k in kids]
        return rec

    def forest(self, objs):
        from loki.ir import Node
        out = []
        for o in objs:
            if isinstance(o, Node):
                out.append(self.node(o))
            elif isinstance(o, (tuple, list)):
                out += self.forest(o)
        return out
