"""C04 Generated Fortran respects free-form line limits without altering tokens.

spec: LineWrap.tla        the free-form reading of a text (continuation rules of the standard, comments, tokens),
                          the line clause (<= width, or only a trailing comment / a single token longer than the
                          width), the described JoinableStringList items and their documented meaning sep.join
      MC_LineWrap         design level: a correct wrapping is read back and accepted, every corruption rejected
      Gen_LineWrap        TLC enumerates the level (i) universe (described lists x widths x continuation strings)
      Trace_LineWrap      TLC decides every recorded case
Real code:
  level (i)  loki.tools.strings.JoinableStringList (+, radd, nested, separable) -- str() of the real object
  level (ii) fgen(ir, style=FortranStyle() | IFSFortranStyle()) against fgen(ir, style(linewidth=10**6)) for
             programs with very long expressions, argument lists, declarations, literals and deep nesting;
             gfortran -ffree-line-length-132 -Werror=line-truncation -fsyntax-only must accept the output.
"""
import json
import os
import re
import time

from ..core import MachineryError
from .. import lib_text as T

CLAUSES = {
    'tokens': 'the tokens read from the wrapped lines differ from the tokens of the unwrapped text',
    'statement-split': 'a line is not continued: the wrapped text reads as more than one statement',
    'line-long': 'a line with several breakable tokens is longer than the width',
    'line-near': 'a line is longer than the width although its longest token is not (token + continuation markers do not fit)',
}


# --------------------------------------------------------------------------------------------- level (i)
def universe(ctx):
    out = os.path.join(ctx.work, 'linewrap-universe.json')
    r = ctx.tlc('Gen_LineWrap', 'Gen_LineWrap' if ctx.quick else 'Gen_LineWrap_thorough', env={'OUT': out}, timeout=900, heap='6g')
    if not r.ok or not os.path.exists(out):
        raise MachineryError(f'Gen_LineWrap failed:\n{r.tail(30)}')
    with open(out) as fh:
        u = json.load(fh)
    sizes = r.prints('UNIVERSE')
    ctx.cover['level1_universe'] = dict(zip(['T1_flat', 'T1b_flat_long', 'T2_call', 'T3_assign', 'T4_decl_depth2', 'aligned_total'], sizes[0][1:])) if sizes else {}
    return u


def jsl_case(top, width, cont):
    c0, c1 = T.chars(cont['c0']), T.chars(cont['c1'])
    obj = T.build_jsl(top, width, (c0 + '\n', c1))
    out = str(obj)
    return {'lvl': 1, 'top': top, 'width': width, 'cont0': cont['c0'], 'cont1': cont['c1'], 'flat': T.codes(T.flat_text(top)),
            'out': T.lines_codes(out), 'wide': []}


def level1(ctx):
    if ctx.replay and ctx.replay['case'].get('lvl') == 1:
        rc = ctx.replay['case']
        combos = [(rc['top'], rc['width'], rc['cont'])]
    else:
        u = universe(ctx)
        combos = [(t, w, c) for t in u['tops'] for w in u['widths'] for c in u['conts']]
        ctx.cover['level1_universe_cases'] = len(combos)
        if ctx.quick:
            # the quick universe is enumerated completely up to a budget; beyond it a seeded sample
            budget = 24000
            if len(combos) > budget:
                combos = ctx.rng.sample(combos, budget)
    cases = []
    raised = []
    for top, w, c in combos:
        try:
            cases.append(jsl_case(top, w, c))
        except MachineryError:
            raise
        except Exception as e:  # pylint: disable=broad-except
            raised.append((top, w, c, e))
            cases.append(None)
    live = [c for c in cases if c is not None]
    verdicts = ctx.validate('Trace_LineWrap', 'Trace_LineWrap', live, timeout=3000, per_shard_min=400)
    k = 0
    nbad = 0
    clause_count = {}
    for (top, w, c), case in zip(combos, cases):
        if case is None:
            continue
        ok, clause, n = verdicts[k][:3]
        if not ok:
            if clause.startswith('machinery'):
                raise MachineryError(f'level (i): {clause} for {top} (harness built other items than the spec describes)')
            _f, cl, pos, _p2 = verdicts[f'{k}#1'][:4]
            nbad += 1
            clause_count[cl] = clause_count.get(cl, 0) + 1
            key = f'jsl:{cl}:{T.shape_of(top)}'
            text = '\n'.join(T.chars(l) for l in case['out'])
            ctx.violation(key, f"JoinableStringList {CLAUSES.get(cl, cl)} (at {pos}); width={w} cont={T.chars(c['c0'])!r}+{T.chars(c['c1'])!r} "
                               f"items={T.flat_text(top)!r}\n--- printed ---\n{text}",
                          {'lvl': 1, 'top': top, 'width': w, 'cont': c})
        k += 1
    for top, w, c, e in raised:
        ctx.violation(f'jsl:raises:{type(e).__name__}:{T.shape_of(top)}', f'str(JoinableStringList) raised {type(e).__name__}: {e} for items '
                      f'{T.flat_text(top)!r} width={w}', {'lvl': 1, 'top': top, 'width': w, 'cont': c})
    ctx.cover['level1_cases'] = len(live)
    ctx.cover['level1_rejected'] = nbad
    ctx.cover['level1_rejected_by_clause'] = clause_count
    ctx.cover['level1_wrapped_outputs'] = sum(1 for c in live if len(c['out']) > 1)
    if live:
        c = live[len(live) // 2]
        ctx.sample({'level': 1, 'items': T.chars(c['flat']), 'width': c['width'], 'printed': [T.chars(l) for l in c['out']]})


def run(ctx):
    if not ctx.replay:
        ctx.mc('MC_LineWrap', 'MC_LineWrap' if ctx.quick else 'MC_LineWrap_thorough', timeout=1500, coverage=False)
    t0 = time.time()
    level1(ctx)
    ctx.cover['level1_wall_s'] = round(time.time() - t0, 1)
    ctx.assumptions += [
        'level (i): items whose boundaries are token boundaries and that contain no `&`/`!` outside literals (checked per case by '
        'TLC: Aligned); widths 12..20, continuation strings " &" + ["& ", "  & "]',
    ]
