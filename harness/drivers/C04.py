"""C04 Generated Fortran respects free-form line limits without altering tokens.

spec: LineWrap.tla        the free-form reading of a text (continuation rules of the standard, comments, tokens),
                          the line clause (<= width, or only a trailing comment / a single token longer than the
                          width), the described JoinableStringList items and their documented meaning sep.join
      MC_LineWrap         design level: a correct wrapping is read back and accepted, every corruption rejected
      Gen_LineWrap        TLC enumerates the level (i) universe (described lists x widths x continuation strings)
      Trace_LineWrap      TLC decides every recorded case
Real code:
  level (i)  loki.tools.strings.JoinableStringList (+, radd, nested, separable) -- str() of the real object
  level (ii) fgen(ir, style=FortranStyle() | IFSFortranStyle()) against fgen(ir, style(linewidth=10**6)) for
             programs with very long expressions, argument lists, declarations, literals and deep nesting;
             gfortran -ffree-line-length-132 -Werror=line-truncation -fsyntax-only must accept the output.
"""
import json
import os
import re
import time

from ..core import MachineryError
from .. import lib_text as T

CLAUSES = {
    'tokens': 'the tokens read from the wrapped lines differ from the tokens of the unwrapped text',
    'statement-split': 'a line is not continued: the wrapped text reads as more than one statement',
    'lone-ampersand': 'a line holds nothing but `&` (not allowed in free form; the statement ends there)',
    'stray-ampersand': 'an `&` that is not a continuation marker is part of the text',
    'line-long': 'a line with several breakable tokens is longer than the width',
    'line-near': 'a line is longer than the width although its longest token is not (token + continuation markers do not fit)',
}


# --------------------------------------------------------------------------------------------- level (i)
def universe(ctx):
    out = os.path.join(ctx.work, 'linewrap-universe.json')
    r = ctx.tlc('Gen_LineWrap', 'Gen_LineWrap' if ctx.quick else 'Gen_LineWrap_thorough', env={'OUT': out}, timeout=900, heap='6g')
    if not r.ok or not os.path.exists(out):
        raise MachineryError(f'Gen_LineWrap failed:\n{r.tail(30)}')
    with open(out) as fh:
        u = json.load(fh)
    sizes = r.prints('UNIVERSE')
    ctx.cover['level1_universe'] = dict(zip(['T1_flat', 'T1b_flat_long', 'T2_call', 'T3_assign', 'T4_decl_depth2', 'aligned_total'], sizes[0][1:])) if sizes else {}
    return u


def jsl_case(top, configs):
    runs = []
    for w, cont in configs:
        c0, c1 = T.chars(cont['c0']), T.chars(cont['c1'])
        out = str(T.build_jsl(top, w, (c0 + '\n', c1)))
        runs.append({'width': w, 'cont0': cont['c0'], 'cont1': cont['c1'], 'out': T.lines_codes(out)})
    return {'lvl': 1, 'top': top, 'flat': T.codes(T.flat_text(top)), 'runs': runs, 'wide': [], 'out': [], 'width': 0}


def level1(ctx):
    if ctx.replay and ctx.replay['case'].get('lvl') == 1:
        rc = ctx.replay['case']
        tops, configs = [rc['top']], [(rc['width'], rc['cont'])]
    else:
        u = universe(ctx)
        tops = u['tops']
        configs = [(w, c) for w in u['widths'] for c in u['conts']]
        ctx.cover['level1_universe_cases'] = len(tops) * len(configs)
        # quick: a seeded sample of the quick universe; thorough: the complete thorough universe
        budget = int(os.environ.get('C04_L1_BUDGET', '0')) or (600 if ctx.quick else None)
        if budget and len(tops) > budget:
            tops = ctx.rng.sample(tops, budget)
    cases, raised = [], []
    for top in tops:
        try:
            cases.append(jsl_case(top, configs))
        except MachineryError:
            raise
        except Exception as e:  # pylint: disable=broad-except
            raised.append((top, e))
    verdicts = ctx.validate('Trace_LineWrap', 'Trace_LineWrap', cases, timeout=3000, per_shard_min=100)
    nbad = 0
    clause_count = {}
    by_width = {}
    for k, case in enumerate(cases):
        ok, clause, n = verdicts[k][:3]
        if ok:
            continue
        if clause.startswith('machinery'):
            raise MachineryError(f"level (i): {clause} for {case['top']} (the harness built other items than the spec describes)")
        top = case['top']
        for i in range(1, n + 1):
            _f, cl, r, pos = verdicts[f'{k}#{i}'][:4]
            run_ = case['runs'][r - 1]
            nbad += 1
            clause_count[cl] = clause_count.get(cl, 0) + 1
            text = '\n'.join(T.chars(l) for l in run_['out'])
            reg = T.regime(top, run_['width'], len(run_['cont0']) + len(run_['cont1']))
            by_width[run_['width']] = by_width.get(run_['width'], 0) + 1
            ctx.violation(f'jsl:{cl}:{reg}',
                          f"JoinableStringList [{T.shape_of(top)}]: {CLAUSES.get(cl.split(':')[0], cl)} (at {pos}); width={run_['width']} "
                          f"cont={T.chars(run_['cont0'])!r}+{T.chars(run_['cont1'])!r} items={T.flat_text(top)!r}\n--- printed ---\n{text}",
                          {'lvl': 1, 'top': top, 'width': run_['width'], 'cont': {'c0': run_['cont0'], 'c1': run_['cont1']}})
    for top, e in raised:
        ctx.violation(f'jsl:raises:{type(e).__name__}:{T.shape_of(top)}', f'str(JoinableStringList) raised {type(e).__name__}: {e} for items '
                      f'{T.flat_text(top)!r}', {'lvl': 1, 'top': top, 'width': configs[0][0], 'cont': configs[0][1]})
    nruns = sum(len(c['runs']) for c in cases)
    ctx.cover['level1_lists'] = len(cases)
    ctx.cover['level1_cases'] = nruns
    ctx.cover['level1_rejected'] = nbad
    ctx.cover['level1_rejected_by_clause'] = clause_count
    ctx.cover['level1_rejected_by_width'] = by_width
    ctx.cover['level1_wrapped_outputs'] = sum(1 for c in cases for r in c['runs'] if len(r['out']) > 1)
    if cases:
        c = cases[len(cases) // 2]
        ctx.sample({'level': 1, 'items': T.chars(c['flat']), 'width': c['runs'][0]['width'], 'printed': [T.chars(l) for l in c['runs'][0]['out']]})


# --------------------------------------------------------------------------------------------- level (ii)
FEATURES = ('select', 'while', 'call', 'fcall', 'twod', 'assoc', 'section', 'exitcycle', 'labelled')
WIDE = 10 ** 6


def gen_programs(ctx, n):
    from .. import lib_fm_long as G
    out = []
    for i in range(n):
        # every other program without apostrophes in literal values: the first token difference of a text is reported,
        # and the split of literals with doubled quotes would hide the other constructs
        g = G.LongGen(ctx.rng, FEATURES, apostrophes=(i % 2 == 0))
        prog = g.program(nstmts=ctx.rng.randint(4, 10), depth=2, nest_levels=[0, 5, 12, 24][(i // 2) % 4], showcase=True)
        out.append(G.long_program_text(prog, ctx.rng))
    return out


def sweep_programs(ctx):
    """Deterministic length sweep: for every statement form and nesting depth, print the complete sweep once with both
    styles and keep the steps whose final operand ends in the last columns of a line (or was just pushed to the next
    line); the reduced programs go through the ordinary level (ii) pipeline."""
    from loki import Sourcefile
    from loki.backend.style import FortranStyle, IFSFortranStyle
    from .. import lib_fm_long as G
    texts = []
    nsteps = 0
    for form in G.SWEEP_FORMS:
        for depth in ((0, 3) if ctx.quick else (0, 1, 3, 6)):
            sf = Sourcefile.from_source(G.sweep_text(form, depth))
            keep = set()
            for mk in (FortranStyle, IFSFortranStyle):
                keep |= G.sweep_hits(sf.to_fortran(style=mk()))
            keep = sorted(keep & set(G.SWEEP_STEPS))
            if not keep:
                raise MachineryError(f'C04 sweep {form}/{depth}: no step reaches the end of a line')
            nsteps += len(keep)
            texts.append(G.sweep_text(form, depth, keep))
    ctx.cover['level2_sweep_programs'] = len(texts)
    ctx.cover['level2_sweep_statements'] = nsteps
    return texts


def statement_at(lines, ln):
    """(first line, last line) of the logical statement that contains physical line ln (1-based) -- for reports only."""
    a = ln
    while a > 1 and lines[a - 2].rstrip().endswith('&'):
        a -= 1
    b = ln
    while b < len(lines) and lines[b - 1].rstrip().endswith('&'):
        b += 1
    return a, b


def construct_of(line):
    """Kind of statement for the normal-form key (first keyword of the statement)."""
    s = line.strip().lstrip('&').strip()
    m = re.match(r'^(\d+\s+)?([A-Za-z_]+)', s)
    w = m.group(2).upper() if m else '?'
    lab = 'labelled-' if m and m.group(1) else ''
    if w in ('CALL', 'PRINT', 'WRITE', 'IF', 'ELSE', 'DO', 'SELECT', 'CASE', 'WHERE', 'FORALL', 'ALLOCATE', 'DEALLOCATE', 'USE', 'ASSOCIATE',
             'SUBROUTINE', 'FUNCTION', 'INTEGER', 'REAL', 'LOGICAL', 'CHARACTER', 'TYPE', 'DATA', 'FORMAT'):
        return lab + w
    return lab + ('ASSIGNMENT' if '=' in s else w)


def level2(ctx):
    import concurrent.futures as cf
    from loki import Sourcefile
    from loki.backend.style import FortranStyle, IFSFortranStyle
    if ctx.replay and ctx.replay['case'].get('lvl') == 2:
        texts = [ctx.replay['case']['text']]
    elif ctx.replay:
        return
    else:
        texts = gen_programs(ctx, int(os.environ.get('C04_L2_N', '0')) or (6 if ctx.quick else 120))
        texts += sweep_programs(ctx)
    styles = [('default', FortranStyle, 132), ('ifs', IFSFortranStyle, 132)]
    if not ctx.quick:
        styles.append(('default-w80', lambda **kw: FortranStyle(**{'linewidth': 80, **kw}), 80))

    def preflight(i):
        return T.gfortran_syntax(ctx.work, f'l2-{i}-orig', [('orig.f90', texts[i])], width='none')

    with cf.ThreadPoolExecutor(max_workers=8) as ex:
        pre = list(ex.map(preflight, range(len(texts))))
    for i, (ok, err) in enumerate(pre):
        if not ok:
            raise MachineryError(f'C04 generator produced a program gfortran rejects:\n{err}\n{texts[i][:3000]}')
    recs = []
    t_parse = time.time()
    for i, text in enumerate(texts):
        sf = Sourcefile.from_source(text)
        for sname, mk, width in styles:
            try:
                out = sf.to_fortran(style=mk())
                wide = sf.to_fortran(style=mk(linewidth=WIDE))
            except Exception as e:  # pylint: disable=broad-except
                ctx.violation(f'fgen:raises:{type(e).__name__}', f'fgen raised {type(e).__name__}: {e} (style {sname})', {'lvl': 2, 'text': text})
                continue
            recs.append({'i': i, 'style': sname, 'width': width, 'out': out, 'wide': wide})
    ctx.cover['level2_loki_wall_s'] = round(time.time() - t_parse, 1)

    def post(k):
        r = recs[k]
        return T.gfortran_syntax(ctx.work, f"l2-{r['i']}-{r['style']}", [('out.f90', r['out'])], width=r['width'])

    with cf.ThreadPoolExecutor(max_workers=8) as ex:
        gf = list(ex.map(post, range(len(recs))))
    cases = []
    for r, (ok, err) in zip(recs, gf):
        if ok is None:
            raise MachineryError('gfortran timed out on a generated file')
        r['gf_err'] = err
        cases.append({'lvl': 2, 'width': r['width'], 'wide': T.lines_codes(r['wide']), 'out': T.lines_codes(r['out']), 'gf': bool(ok),
                      'top': {}, 'flat': [], 'runs': []})
    verdicts = ctx.validate('Trace_LineWrap', 'Trace_LineWrap', cases, timeout=3000, per_shard_min=3,
                            extra_env={'JAVA_TOOL_OPTIONS': '-Xss256m'})
    nlines = nwrapped = nlong_exempt = 0
    clause_count = {}
    for k, r in enumerate(recs):
        olines = r['out'].split('\n')
        wlines = r['wide'].split('\n')
        nlines += len(olines)
        nwrapped += sum(1 for l in olines if l.rstrip().endswith('&'))
        nlong_exempt += sum(1 for l in olines if len(l) > r['width'])
        ok, clause, n = verdicts[k][:3]
        if ok:
            continue
        explained = False
        for j in range(1, n + 1):
            _f, cl, a, b = verdicts[f'{k}#{j}'][:4]
            if cl == 'gfortran-rejects':
                continue
            explained = True
            clause_count[cl] = clause_count.get(cl, 0) + 1
            a0, a1 = statement_at(olines, max(1, min(a, len(olines))))
            cons = construct_of(olines[a0 - 1])
            what = f"fgen (style {r['style']}, width {r['width']}): {CLAUSES.get(cl.split(':')[0], cl)}; line {a} of the output\n" \
                   f"--- printed statement ---\n" + '\n'.join(f'{len(l):4d} |{l}' for l in olines[a0 - 1:a1])
            if cl.startswith('tokens') and b:
                b0, b1 = statement_at(wlines, max(1, min(b, len(wlines))))
                what += '\n--- the same statement printed without a width limit ---\n' + '\n'.join(wlines[b0 - 1:b1])[:1500]
            ctx.violation(f'fgen:{cl}:{cons}', what, {'lvl': 2, 'text': texts[r['i']]})
        if not explained:
            # gfortran rejects an output that the reading accepts: report it on its own
            clause_count['gfortran-rejects'] = clause_count.get('gfortran-rejects', 0) + 1
            first = next((l.strip() for l in r['gf_err'].splitlines() if l.startswith('Error')), r['gf_err'][-200:])
            ctx.violation('fgen:gfortran-rejects:' + re.sub(r'\d+', 'N', first)[:80],
                          f"gfortran -ffree-line-length-{r['width']} -Werror=line-truncation rejects the output (style {r['style']}):\n{r['gf_err'][:1500]}",
                          {'lvl': 2, 'text': texts[r['i']]})
    ctx.cover['level2_programs'] = len(texts)
    ctx.cover['level2_outputs_checked'] = len(recs)
    ctx.cover['level2_output_lines'] = nlines
    ctx.cover['level2_continued_lines'] = nwrapped
    ctx.cover['level2_lines_longer_than_width'] = nlong_exempt
    ctx.cover['level2_gfortran_rejected'] = sum(1 for ok, _ in gf if not ok)
    ctx.cover['level2_rejected_by_clause'] = clause_count
    if recs:
        r = recs[0]
        wl = [l for l in r['out'].split('\n') if l.rstrip().endswith('&')][:3]
        ctx.sample({'level': 2, 'style': r['style'], 'some continued lines': wl})


def run(ctx):
    if not ctx.replay:
        ctx.mc('MC_LineWrap', 'MC_LineWrap' if ctx.quick else 'MC_LineWrap_thorough', timeout=1500, coverage=False)
    t0 = time.time()
    if not (ctx.replay and ctx.replay['case'].get('lvl') == 2):
        level1(ctx)
    ctx.cover['level1_wall_s'] = round(time.time() - t0, 1)
    t0 = time.time()
    level2(ctx)
    ctx.cover['level2_wall_s'] = round(time.time() - t0, 1)
    ctx.assumptions += [
        'level (i): items whose boundaries are token boundaries and that contain no `&`/`!` outside literals (checked per case by '
        'TLC: Aligned); widths 12..32, continuation strings " &" + ["& ", "  & "]',
        'level (ii): generated module programs (lib_fm_long.LongGen) parsed with the FP frontend; styles FortranStyle and '
        'IFSFortranStyle (thorough: also linewidth 80); the reference is the same IR printed with linewidth 10**6',
        'tokens: names/numbers, character literals (verbatim), two-character operators, single punctuation; comments and '
        'preprocessor lines carry no tokens; OpenMP/OpenACC-style sentinel continuation (pragmas) is not interpreted',
        'exempt lines: only a trailing comment is beyond the width, or one token is itself longer than the width',
    ]


def selftest(ctx):
    """Binding demonstration: corrupt single recorded fields of accepted cases; TLC must reject with the matching clause."""
    import copy
    leaf = lambda k, n: {'k': k, 'n': n, 'items': [], 'sep': [], 'separable': True}
    top = {'k': 'L', 'n': 0, 'items': [leaf('P', 3), leaf('Q', 6), leaf('P', 5), leaf('P', 3)], 'sep': [44, 32], 'separable': True}
    good1 = jsl_case(top, [(16, {'c0': [32, 38], 'c1': [38, 32]})])
    if len(good1['runs'][0]['out']) < 2:
        raise MachineryError('selftest: the level (i) sample is not wrapped')
    b = []
    c = copy.deepcopy(good1); c['runs'][0]['out'][0] = c['runs'][0]['out'][0][:-1]; b.append(('continuation marker dropped', c, ('statement-split', 'tokens')))
    c = copy.deepcopy(good1); c['runs'][0]['out'][0].insert(1, 32); b.append(('blank inserted into a name', c, ('tokens',)))
    c = copy.deepcopy(good1)
    l = next(x for x in c['runs'][0]['out'] if 39 in x)
    l.insert(l.index(39) + 2, 32)
    b.append(('blank inserted into a literal', c, ('tokens',)))
    c = copy.deepcopy(good1); c['runs'][0]['width'] = 9; b.append(('width lowered below the printed lines', c, ('line-',)))
    c = copy.deepcopy(good1); c['runs'][0]['out'].insert(1, [32, 38]); b.append(('line with a lone &', c, ('lone-ampersand',)))
    c = copy.deepcopy(good1); c['flat'] = c['flat'][:-1]; b.append(('harness joins other items than described', c, ('machinery',)))
    src = ("module kmod\ncontains\nsubroutine kernel(a, b)\ninteger, intent(inout) :: a, b\n"
           "a = " + ' + '.join(['a*b'] * 40) + "\nprint *, 'some text', a  ! trailing\nend subroutine kernel\nend module kmod\n")
    from loki import Sourcefile
    from loki.backend.style import FortranStyle
    sf = Sourcefile.from_source(src)
    out, wide = sf.to_fortran(style=FortranStyle()), sf.to_fortran(style=FortranStyle(linewidth=WIDE))
    good2 = {'lvl': 2, 'width': 132, 'wide': T.lines_codes(wide), 'out': T.lines_codes(out), 'gf': True, 'top': {}, 'flat': [], 'runs': []}
    k = next(i for i, l in enumerate(good2['out']) if l and l[-1] == 38)
    c = copy.deepcopy(good2); c['out'][k] = c['out'][k][:-1]; b.append(('continuation marker dropped (program)', c, ('tokens',)))
    c = copy.deepcopy(good2); c['out'][k][20] = 120; b.append(('one character of the wrapped statement changed', c, ('tokens',)))
    c = copy.deepcopy(good2); c['out'][k] = c['out'][k][:-2] + [32] * 10 + c['out'][k + 1][c['out'][k + 1].index(38) + 1:]; del c['out'][k + 1]
    b.append(('two lines joined beyond the width', c, ('line-long',)))
    c = copy.deepcopy(good2); c['gf'] = False; b.append(('gfortran verdict flipped', c, ('gfortran-rejects',)))
    v = ctx.validate('Trace_LineWrap', 'Trace_LineWrap', [good1, good2] + [x[1] for x in b], shards=1,
                     extra_env={'JAVA_TOOL_OPTIONS': '-Xss256m'})
    if not v[0][0] or not v[1][0]:
        raise MachineryError(f'selftest: an uncorrupted case is rejected: {v[0]} {v[1]}')
    missed = []
    for i, (name, _c, want) in enumerate(b, 2):
        got = v[i][1]
        hit = (not v[i][0]) and any(got.startswith(w) for w in want)
        print(f"  {'rejected' if hit else 'MISSED (!)'}: {name}: {got}")
        if not hit:
            missed.append(name)
    print(f'SELFTEST-FAILED C04: {missed}' if missed else f'SELFTEST-OK C04: {len(b)} corruptions rejected')
    return 1 if missed else 0
