"""C18 Pickling round-trip preserves program units.

spec: PickleRT.tla (one Unpickle step of the CloneAlias heap model; Equal, SameText, ScopesReattached,
      OriginalUntouched), MC_PickleRT (any content before pickling + design mutants), Trace_PickleRT (real round trips:
      the model is initialised from the observed original, Unpickle applied, the observed unpickled unit compared).
Real code: pickle.loads(pickle.dumps(unit)) for Subroutine (with internal procedures), function, Module (derived types,
      procedures, imports enriched through definitions=), Sourcefile.
"""
import concurrent.futures as cf
import itertools
import os
import pickle
import random

from ..core import MachineryError, NCPU
from .. import lib_units as L
from .C17 import _consts, _write

CLAUSE = {'R': 'RoundTripCompletes', 'OU': 'OriginalUntouched', 'T': 'SameText', 'E': 'Equal', 'S': 'ScopesReattached',
          'ST': 'ScopesReattached:types', 'EQ': 'Equal:__eq__', 'EH': 'Equal:__hash__'}


TAGSET = {'ow': 'owners', 'mp': 'memparent', 'mt': 'memtab', 'ca': 'calls', 'td': 'tdef', 'np': 'nparent', 'no': 'nown'}


def expand(code):
    head, _, rest = code.partition(':')
    return CLAUSE.get(head, head) + (':' + TAGSET.get(rest, rest) if rest else '')


def codes(verdict):
    ok, text, _ = verdict
    return [] if ok else [c for c in text.split(';') if c]


KINDS = ('sub', 'func', 'mod', 'file')      # top-level units (a unit pickled without its host loses host association)
MUT_EXPECT = {'MutNoRescope': 'ScopesReattached', 'MutStaleProcs': 'ScopesReattached', 'MutShareBody': 'ScopesReattached'}


def type_strings(copy):
    """One string per symbol occurrence (traversal order): name, data type, kind, intent, shape, link state."""
    from loki import ProcedureType, DerivedType, BasicType
    out = []
    for root in L._roots(copy):                      # pylint: disable=protected-access
        for u in L.all_units(root):
            for sec in L._unit_sections(u):          # pylint: disable=protected-access
                for s in L._symbols(sec):            # pylint: disable=protected-access
                    t = s.type
                    if t is None:
                        out.append(f'{s.name.lower()}:untyped')
                        continue
                    d = t.dtype
                    if isinstance(d, ProcedureType):
                        ds = f'proc({d.name},{"deferred" if d.procedure is BasicType.DEFERRED else "linked"},fn={d.is_function})'
                    elif isinstance(d, DerivedType):
                        ds = f'type({d.name},{"deferred" if d.typedef is BasicType.DEFERRED else "linked"})'
                    else:
                        ds = L.dtok(d)
                    shape = getattr(s, 'shape', None)
                    out.append(f'{s.name.lower()}:{ds}:kind={t.kind}:intent={t.intent}:shape={shape}:par={t.parameter}:imp={t.imported}')
    return out


def roundtrip(fx):
    """One real round trip; returns the case for Trace_PickleRT."""
    o, parent = L.build(fx)
    assert parent is None
    tok = L.Tokens(o)
    case = {'kind': fx['kind'], 'feat': fx['feat'], 'raised': '', 'equal': False, 'hasheq': False}
    case['o_before'] = L.project(o, None, None, tok)
    case['types_o'] = type_strings(o)
    u = None
    try:
        new = pickle.loads(pickle.dumps(o.root))
        u = L.Copy(o.kind, new, o.focus_path)
    except Exception as ex:  # pylint: disable=broad-except
        case['raised'] = type(ex).__name__
        case['raised_msg'] = str(ex)[:200]
    case['o_after'] = L.project(o, u, None, tok)
    if u is not None:
        try:
            case['u'] = L.project(u, o, None, tok)
            case['types_u'] = type_strings(u)
            case['equal'] = bool(new == o.root)
            case['hasheq'] = hash(new) == hash(o.root)
        except Exception as ex:  # pylint: disable=broad-except
            # the unpickled object cannot even be inspected / printed / compared
            case['raised'] = 'Unusable' + type(ex).__name__
            case['raised_msg'] = str(ex)[:200]
            u = None
    if u is None:
        case['u'] = case['o_after']
        case['types_u'] = case['types_o']
    return case


def _chunk(fxs):
    res = []
    for fx in fxs:
        try:
            res.append(roundtrip(fx))
        except Exception as ex:  # pylint: disable=broad-except
            import traceback
            res.append({'error': f'{type(ex).__name__}: {ex}', 'tb': traceback.format_exc(), 'fx': fx})
    return res


def feature_grid(kind):
    """Every combination of the generator's feature switches that makes sense for the kind."""
    for imp_k, imp_ot, imp_proc, defs, extra, cast in itertools.product((0, 1), repeat=6):
        if defs and not (imp_k or imp_ot or imp_proc):
            continue
        f = {'imp_k': imp_k, 'imp_ot': imp_ot, 'imp_proc': imp_proc, 'defs': defs, 'members': 1, 'typedef': 1, 'cast': cast}
        if kind in ('sub', 'file'):
            f['members'] = extra
        elif kind == 'mod':
            f['typedef'] = extra
        elif extra:
            continue
        yield f


def run(ctx):
    quick = ctx.quick
    import loki  # noqa: F401  pylint: disable=unused-import,import-outside-toplevel
    L.other_module()
    workers = min(NCPU, 6 if quick else 12)
    pool = None if ctx.replay else cf.ProcessPoolExecutor(max_workers=workers)
    if pool is not None:
        list(pool.map(int, range(workers * 2)))
    try:
        with cf.ThreadPoolExecutor(max_workers=6) as tp:
            def main_mc():
                cfg = _write(os.path.join(ctx.work, 'MC_PickleRT_run.cfg'),
                             'SPECIFICATION PSpec\n' + _consts(MaxDepth=4 if quick else 5) +
                             'INVARIANT Equal\nINVARIANT SameText\nINVARIANT ScopesReattached\nPROPERTY OriginalUntouched\n'
                             'CHECK_DEADLOCK FALSE\n')
                return ctx.mc('MC_PickleRT', cfg, timeout=900, workers=2 if quick else 8)

            def mutant(m):
                mcfg = _write(os.path.join(ctx.work, f'MC_PickleRT_{m}.cfg'),
                              'SPECIFICATION PSpec\n' + _consts(mut=m, MaxDepth=3) + f'INVARIANT {MUT_EXPECT[m]}\nCHECK_DEADLOCK FALSE\n')
                r = ctx.tlc('MC_PickleRT', mcfg, timeout=600, workers=1)
                if r.invariant_violated != MUT_EXPECT[m]:
                    raise MachineryError(f'design mutant {m} not rejected by {MUT_EXPECT[m]} (got {r.invariant_violated})\n{r.tail(20)}')
            futs = [tp.submit(main_mc)] + [tp.submit(mutant, m) for m in (list(MUT_EXPECT)[:1] if quick else MUT_EXPECT)]
            rng = random.Random(ctx.seed * 15485863 + 18)
            if ctx.replay:
                fxs = [ctx.replay['case']['fx']]
            else:
                fxs = []
                for kind in KINDS:
                    for f in feature_grid(kind):            # bounded exhaustive over the feature switches
                        for _ in range(1 if quick else 6):
                            fxs.append(L.gen_fixture(kind, rng, f))
                for i in range(60 if quick else 1500):     # plus seeded random draws
                    fxs.append(L.gen_fixture(KINDS[i % 4], rng))
            if pool is None:
                cases = _chunk(fxs)
            else:
                n = workers * 3
                chunks = [fxs[i::n] for i in range(n)]
                cases = [None] * len(fxs)
                for ci, res in enumerate(pool.map(_chunk, chunks)):
                    for j, r in enumerate(res):
                        cases[ci + j * n] = r
            for c in cases:
                if 'error' in c:
                    raise MachineryError(f"harness failure: {c['error']}\n{c['tb']}\n{c['fx']['main']}")
            for f in futs:
                f.result()
            ctx.cover['design_mutants_rejected'] = len(futs) - 1
        verdicts = ctx.validate('Trace_PickleRT', 'Trace_PickleRT', cases, timeout=900,
                                shards=max(1, min(3 if quick else 12, len(cases) // 60)))
        failing = [i for i in range(len(cases)) if not verdicts[i][0]]
        for i in failing:
            if verdicts[i][1].startswith('Fixture'):
                raise MachineryError(f'{verdicts[i][1]}\n{fxs[i]["main"]}')
        # normal form of a violation: the violated clause + the smallest set of generator switches with which the
        # same clause is violated for the same unit kind (looked up among the bounded-exhaustive grid cases, which
        # were judged by TLC in the same batch -- no oracle in python)
        grid = {}
        for i, c in enumerate(cases):
            on = frozenset(f for f in L.FEATURES if c['feat'][f])
            grid.setdefault(c['kind'], {}).setdefault(on, set()).update(codes(verdicts[i]))
        essential = {}
        for i in failing:
            on = frozenset(f for f in L.FEATURES if cases[i]['feat'][f])
            for code in codes(verdicts[i]):
                cands = [g for g, cs in grid[cases[i]['kind']].items() if g <= on and code in cs]
                best = min(cands, key=lambda g: (len(g), sorted(g)))
                # switches that only select which units exist do not belong to the cause unless they are needed
                essential[(i, code)] = best
    finally:
        if pool is not None:
            pool.shutdown(wait=True, cancel_futures=True)
    for i in failing:
        c = cases[i]
        for code in codes(verdicts[i]):
            clause = expand(code)
            key = f"{clause}:{'+'.join(sorted(essential[(i, code)])) or 'plain'}"
            ctx.violation(key, f"kind={c['kind']} features={c['feat']}: clause {clause} violated "
                               f"(raised={c['raised']} {c.get('raised_msg', '')} equal={c['equal']} hash_equal={c['hasheq']}; "
                               f"type differences={[(a, b) for a, b in zip(c['types_o'], c['types_u']) if a != b][:4]}; "
                               f"unpickled tags owners={c['u']['owners']} memparent={c['u']['memparent']} memtab={c['u']['memtab']} "
                               f"calls={c['u']['calls']} tdef={c['u']['tdef']})", {'fx': fxs[i]})
    ctx.cover['round_trips'] = len(cases)
    ctx.cover['kinds_x_feature_combinations'] = len({(c['kind'], tuple(sorted(c['feat'].items()))) for c in cases})
    ctx.cover['symbol_occurrences_compared'] = sum(len(c['types_o']) for c in cases)
    ctx.sample({'kind': cases[0]['kind'], 'feat': cases[0]['feat'], 'source': fxs[0]['main'], 'types': cases[0]['types_o'][:6]})
    ctx.sample({'kind': cases[-1]['kind'], 'feat': cases[-1]['feat'], 'unpickled_view': {k: cases[-1]['u'][k] for k in ('name', 'tab', 'members', 'owners', 'memtab', 'calls', 'tdef')}})
    ctx.assumptions += [
        'units: top-level subroutine (with internal procedures), function, module (derived type, procedures), Sourcefile; '
        'imports of a parameter / derived type / procedure from another module, parsed with and without definitions= (enrichment)',
        'a contained procedure pickled on its own loses its host scope by construction (parent is a weak reference): not tested',
        'the TLA+ side of C18 is thin: Unpickle is one step of the CloneAlias heap model; TLC compares the observed views/tags/type '
        'strings with it (see notes/C18.md)',
    ]


def selftest(ctx):
    """Binding check of the trace validation: an honest case is accepted, corrupted recordings are rejected."""
    import copy
    fx = L.gen_fixture('mod', random.Random(3), {'typedef': True, 'cast': False})
    good = roundtrip(fx)
    bad1 = copy.deepcopy(good)
    bad1['u']['memparent'] = ['none-wrong']
    bad2 = copy.deepcopy(good)
    bad2['types_u'][0] = bad2['types_u'][0].replace('int', 'real')
    bad3 = copy.deepcopy(good)
    bad3['u']['body'] = bad3['u']['body'][1:]
    bad4 = copy.deepcopy(good)
    bad4['equal'] = False
    v = ctx.validate('Trace_PickleRT', 'Trace_PickleRT', [good, bad1, bad2, bad3, bad4])
    want = [(True, 'ok'), (False, 'S:mp;'), (False, 'ST;'), (False, 'E:body;'), (False, 'EQ;')]
    got = [(v[i][0], v[i][1]) for i in range(5)]
    print('selftest C18', 'PASS' if got == want else f'FAIL {got}')
    return 0 if got == want else 2
