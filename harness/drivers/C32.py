"""C32 Constant propagation and code removal preserve behaviour.

spec: FMachine (MiniFortran reference machine) + Trace_FMachine: the stdout of the gfortran build of the
      module Loki transformed and wrote back must equal Run(original program, input).out predicted by TLC.
code: do_constant_propagation (with / without unroll_loops), do_remove_dead_code (with / without simplify),
      do_remove_unused_vars (arrays only / all), find_unused_dummy_args_and_vars + do_remove_unused_call_args +
      do_remove_unused_dummy_args (manually over the call tree, callees first) and RemoveCodeTransformation
      through the Scheduler (kernel = driver role, helper procedures = kernel role).
Programs: constants next to input-dependent values, IFs with decidable (`.true.`, `1 > 2`, constants after
      propagation) and undecidable conditions, SELECT CASE on literals, loops with literal bounds (zero-trip,
      negative step), constant array elements, unused locals (scalar / array / real), helper procedures and a
      function with unused dummies (first / middle / last, array, passed on to another unused dummy).
"""
import os

from .. import lib_fm as F
from .. import lib_fm_loops as L

# family -> (quick, thorough) number of programs
PLAN = {
    'cp/base': (14, 145), 'cp/straight': (16, 160), 'cp-dce/straight': (8, 80), 'cp/intdiv': (4, 30), 'cp/call': (6, 50), 'cp/while': (5, 35), 'cp/select': (6, 50),
    'cp/exitcycle': (5, 40), 'cp/section': (5, 40), 'cp/assoc': (5, 40), 'cp-unroll/base': (10, 100),
    'cp-dce/base': (8, 75), 'dce/base': (12, 110), 'dce/intdiv': (4, 30),
    'vars-arrays/base': (6, 55), 'vars-all/base': (5, 40),
    'args-manual/call': (9, 80), 'args-sched/call': (9, 80), 'all-sched-arrays/call': (6, 50), 'all-sched-all/call': (4, 35),
}


def run(ctx):
    if ctx.replay:
        c = ctx.replay['case']
        cases = [(c['prog'], c['inputs'])]
    else:
        cases = []
        only = [f for f in os.environ.get('VERIF_FAMILIES', '').split(',') if f]    # development aid
        for fam, (q, t) in PLAN.items():
            if only and fam not in only:
                continue
            for _ in range(q if ctx.quick else t):
                cases.append(L.gen_c32(ctx.rng, fam))
    with L.checked_builds():
        results, fails, legal = F.behaviour_check(ctx, 'cprm', cases, L.transform_c32)
        L.report_by_family(ctx, cases, results, fails, L.transform_c32)
    L.family_cover(ctx, cases, results, legal)
    ctx.cover['programs_with_legal_inputs'] = len(legal)
    for fam in ('cp/base', 'cp-dce/base', 'args-sched/call'):
        r = next((r for r in results if L.family_of(cases[r['idx']][0]) == fam and 'newtext' in r), None)
        if r:
            ctx.sample({'family': fam, 'program': r['text'], 'transformed': r['newtext'][:3000]})
    ctx.assumptions += [
        'MiniFortran subset (see C01); the PROGRAM driver is harness-owned and calls `kernel` with its full argument list, so the entry procedure keeps its dummies (driver role); unused dummies are removed from the helper procedures and their call sites inside the module',
        'helper procedures that the kernel cannot reach are dropped from the program (a call-tree driven signature change leaves procedures outside the tree alone)',
        'integer division occurs only in the */intdiv families: simplify() treats it as exact (known finding of C08) and ConstantPropagationMapper / RemoveDeadCodeTransformer(use_simplify) inherit that',
        'declaration initialisers (implied SAVE) and PARAMETER constants are not generated',
        'unused dummies have intent(in) or intent(inout) (an unused intent(out) dummy makes the actual undefined)',
    ]
