"""C25 Renaming, duplicating and removing items keeps the graph consistent.

spec: SchedOps.tla       state of a scheduler under item-changing transformations; Apply(S, op) for dep / wrap / dup / rm on
                         abstract projects; invariants NoDanglingRef, UniqueUnits, SeedsResolve, NoOutputClash, Consistent
      MC_SchedOps        every history of <= MaxOps operations on every small project of SchedUniverse keeps the invariants
                         (under the preconditions Pre, each of which is a design-level finding; MC_SchedOps_unguarded is the
                         negative control that finds them)
      Gen_SchedOps       TLC-side sampling of (project, configuration, history) + the graph nodes the model predicts
      Trace_SchedOps     validation of the states recorded from the real scheduler after every step (invariants + documented
                         effect of each operation + C22 walk of a later probe + gfortran link of the written sources)
      Trace_SchedIgnore  kernels referring to an IGNORED module function (inline) / subroutine (CALL) under dep: the item's
                         ignore / block lists follow the rename, no external or dead graph nodes, later processing works
Real objects: loki.batch.Scheduler.process(DependencyTransformation | ModuleWrapTransformation | DuplicateKernel |
RemoveKernel) in sequence on rendered projects, state projected from the IR (harness/lib_sched.observe_ops_state).
"""
import json
import os
import random
import shutil
import time

from .. import core
from .. import lib_sched as L
from ..core import MachineryError
from . import C22, C23

PROBE = {'filter': ['proc', 'mod'], 'reverse': False, 'filegraph': False, 'procign': False, 'plan': False}


def replay(project, config, hist, root, iface, layout_seed=None, keep=False, defer=False, mvi=False):
    """Render, build the scheduler, apply the history; returns the trace case fields steps / final.
    defer: final['link'] holds the compiler job (lib_sched.link_job runs it later, in a thread)."""
    shutil.rmtree(root, ignore_errors=True)
    os.makedirs(os.path.join(root, 'src'))
    lay = L.Layout(random.Random(layout_seed), False) if layout_seed is not None else L.ClassLayout({})
    paths = L.render_project(project, os.path.join(root, 'src'), layout=lay, iface=iface)
    cfg_dict, seeds = L.render_config(config, L.Layout(plain=True), enable_imports=True)
    steps = []
    final = {'visits': [], 'raised': '', 'link': 'ok'}
    # pre-flight: the rendered project itself must compile and link (else the case is a generator artefact, e.g. a module
    # used before its definition in the same file)
    calls0 = []
    for sd in config['seeds']:
        pr = next((p for p in project['procs'] if p['name'] == sd['local'] and (not sd['q'] or p['mod'] == sd['scope'])), None)
        calls0.append((pr['mod'] if pr else '', sd['local']))
    nunits = len(project['mods']) + sum(1 for p in project['procs'] if not p['mod'])
    if nunits == len(paths):
        final['preflight'] = 'ok'       # one unit per file: no ordering inside files to get wrong
    else:
        final['preflight'] = L.make_link_job(list(paths.values()), [], calls0, root, tag='0')
        if not defer:
            final['preflight'] = L.link_job(final['preflight'])
    try:
        sched = L.build_scheduler(os.path.join(root, 'src'), cfg_dict, seeds, True)
        steps.append(L.observe_ops_state(sched, paths, mvi))
    except Exception as e:  # pylint: disable=broad-except
        steps.append(dict(L.EMPTY_OBS, raised=f'{type(e.__cause__ or e).__name__}: {str(e)[:200]}'))
        return steps, final
    for op in hist:
        try:
            sched.process(L.make_transformation(op))
            steps.append(L.observe_ops_state(sched, paths, mvi))
        except Exception as e:  # pylint: disable=broad-except
            steps.append(dict(L.EMPTY_OBS, raised=f'{type(e.__cause__ or e).__name__}: {str(e)[:200]}'))
            return steps, final
    # later processing: the probe of C22 on the final graph
    last = steps[-1]
    graph = {'items': [{'name': n['name'], 'kind': n['kind'], 'ignored': n['ignored'], 'file': n['file']} for n in last['nodes']],
             'edges': last['edges']}
    live = {}
    for it in sched.items:
        try:
            live[it.name.lower()] = it.ir is not None
        except Exception:  # pylint: disable=broad-except
            live[it.name.lower()] = False
    visits, raised = C22.process_case(sched, graph, {}, PROBE)
    final['visits'] = [{'unit': v['item'].lower(), 'live': bool(live.get(v['item'].lower(), False))} for v in visits]
    final['raised'] = raised.split(':')[0] if raised else ''
    if not raised:
        job = L.write_sources(sched, paths, last['untouched'], root, mvi)
        if defer:
            final['link'] = job
            return steps, final
        final['link'] = L.link_job(job)
    if not keep:
        shutil.rmtree(root, ignore_errors=True)
    return steps, final


# --------------------------------------------------------------------------------------------
# histories for seeded (larger) projects

# --------------------------------------------------------------------------------------------
# ignored dependencies under dep: an inline-referenced module FUNCTION / a CALLed subroutine on the kernel's ignore list
# (functions are outside the abstract project format: these small projects are written directly)

def ignore_cases(rng, n):
    out = []
    for i in range(n):
        out.append({'kind': 'ignore', 'ign': 'fn' if i % 2 == 0 else 'sub', 'rii': i % 4 < 3 if i % 8 < 6 else False,
                    'sfx': rng.choice(['_test', '_x']), 'msfx': rng.choice(['', '_mod']), 'f': rng.choice(['f', 'helper', 'g1']),
                    'where': rng.choice(['routine', 'routine', 'default']), 'twice': rng.random() < 0.4,
                    'other': rng.random() < 0.5})      # the kernel also calls a subroutine that is NOT ignored
    return out


def run_ignore_case(case, root):
    """Render, build the scheduler, process DependencyTransformation, then a probe; returns the trace case."""
    from loki import FindNodes, FindInlineCalls, ir
    from loki.batch import FileItem
    from loki.transformations.build_system import DependencyTransformation
    shutil.rmtree(root, ignore_errors=True)
    os.makedirs(root)
    f, fn = case['f'], case['ign'] == 'fn'

    def w(name, text):
        with open(os.path.join(root, name), 'w') as fh:
            fh.write(text)
    if fn:
        w(f'{f}_mod.f90', f"module {f}_mod\ncontains\n  function {f}(x) result(y)\n    integer, intent(in) :: x\n    integer :: y\n    y = x + 1\n"
                          f"  end function {f}\nend module {f}_mod\n")
        ref = f"    a = {f}(a)\n" + (f"    a = a + {f}(a)\n" if case['twice'] else '')
    else:
        w(f'{f}_mod.f90', f"module {f}_mod\ncontains\n  subroutine {f}(x)\n    integer, intent(inout) :: x\n    x = x + 1\n  end subroutine {f}\nend module {f}_mod\n")
        ref = f"    call {f}(a)\n" * (2 if case['twice'] else 1)
    other_use = "    use o_mod, only: other\n" if case['other'] else ''
    if case['other']:
        w('o_mod.f90', "module o_mod\ncontains\n  subroutine other(x)\n    integer, intent(inout) :: x\n    x = x + 2\n  end subroutine other\nend module o_mod\n")
        ref += "    call other(a)\n"
    w('k_mod.f90', f"module k_mod\ncontains\n  subroutine kernel(a)\n    use {f}_mod, only: {f}\n{other_use}    integer, intent(inout) :: a\n{ref}"
                   "  end subroutine kernel\nend module k_mod\n")
    w('driver.f90', "subroutine driver(a)\n  use k_mod, only: kernel\n  integer, intent(inout) :: a\n  call kernel(a)\nend subroutine driver\n")
    default = {'mode': 'idem', 'role': 'kernel', 'expand': True, 'strict': True, 'enable_imports': True}
    routines = {'driver': {'role': 'driver'}}
    if case['where'] == 'default':
        default['ignore'] = [f]
    else:
        routines['kernel'] = {'ignore': [f]}
    t = {'sfx': case['sfx'], 'before': {'ignore': [], 'block': []}, 'after': {'ignore': [], 'block': [], 'refs': [], 'nodes': []},
         'raised1': '', 'raised2': ''}
    L._quiet()   # pylint: disable=protected-access
    try:
        from loki.batch import Scheduler, SchedulerConfig
        sched = Scheduler(paths=[root], config=SchedulerConfig.from_dict({'default': default, 'routines': routines}), seed_routines=['driver'])
        k = sched['k_mod#kernel']
        t['before'] = {'ignore': [str(x).lower() for x in k.ignore], 'block': [str(x).lower() for x in k.block]}
        sched.process(DependencyTransformation(suffix=case['sfx'], module_suffix=case['msfx'] or None, replace_ignore_items=case['rii']))
        k = next(i for i in sched.items if i.local_name.startswith('kernel'))
        r = k.ir
        refs = [str(c.name).lower() for c in FindNodes(ir.CallStatement).visit(r.body)] + [str(c.name).lower() for c in FindInlineCalls().visit(r.body)]
        nodes = []
        for it in sched.items:
            try:
                live = it.ir is not None
            except Exception:  # pylint: disable=broad-except
                live = False
            nodes.append({'name': it.name.lower(), 'kind': L.KINDS.get(type(it).__name__, type(it).__name__), 'live': bool(live)})
        t['after'] = {'ignore': [str(x).lower() for x in k.ignore], 'block': [str(x).lower() for x in k.block],
                      'refs': sorted(set(refs)), 'nodes': nodes}
    except Exception as e:  # pylint: disable=broad-except
        t['raised1'] = f'{type(e.__cause__ or e).__name__}: {str(e)[:160]}'
        return t
    try:
        sched.process(C22.make_probe(PROBE))
    except Exception as e:  # pylint: disable=broad-except
        t['raised2'] = f'{type(e.__cause__ or e).__name__}: {str(e)[:160]}'
    shutil.rmtree(root, ignore_errors=True)
    return t


def ignore_key(case, clause):
    return f"{clause}:op=dep:ign={case['ign']}:rii={int(case['rii'])}:where={case['where']}:msfx={int(bool(case['msfx']))}"


def with_seed_entries(rng, C):
    """Seeds that are kernels (no routine entry yet) get an own `routines` entry without overrides in most cases: renaming
    such a seed has to move its entry AND the seed name (Scheduler.rekey_item_cache)."""
    if C['routines'] or rng.random() < 0.3:
        return C
    C = dict(C, routines=[L.routine_entry(s['scope'] + '#' + s['local'] if s['q'] else s['local']) for s in C['seeds']])
    return C


def random_history(rng, project, n):
    ks = C23.callees(project)
    hist, used = [], set()
    for _ in range(n):
        kinds = ['dep', 'wrap', 'dup', 'dup', 'rm']
        if 'dep' in used:
            kinds = [k for k in kinds if k not in ('dep', 'wrap')]
        if 'wrap' in used:
            kinds = [k for k in kinds if k != 'wrap']
        if not ks:
            kinds = [k for k in kinds if k in ('dep', 'wrap')]
        if not kinds:
            break
        kind = rng.choice(kinds)
        if kind == 'dep':
            hist.append(L.op_record('dep', '', '_x', rng.choice(['', '_mod'])))
        elif kind == 'wrap':
            hist.append(L.op_record('wrap', '', '', '_mod'))
        elif kind == 'dup':
            k = rng.choice(ks)
            if ('dup', k) in used:
                continue
            used.add(('dup', k))
            hist.append(L.op_record('dup', k, '_d', rng.choice(['', '', '_dm']), rng.random() < 0.35))
        else:
            hist.append(L.op_record('rm', rng.choice(ks)))
        used.add(kind)
    return hist


def hist_sig(hist):
    return '+'.join(o['op'] + ('s' if o['sub'] else '') for o in hist) or 'none'


def project_sig(P, hist):
    """Structural features that matter for the operations (normal form of a case)."""
    multi = len({p['file'] for p in P['procs']} | {m['file'] for m in P['mods']}) < len(P['mods']) + sum(1 for p in P['procs'] if not p['mod'])
    modlevel = any(m['imports'] for m in P['mods'])
    unq = any(not im['only'] for h in P['procs'] + P['mods'] for im in h['imports'])
    ks = {o['k'] for o in hist if o['k']}
    subs = {o['k'] for o in hist if o['k'] and o['sub']}
    sib = any(p['mod'] and q['mod'] == p['mod'] and q['name'] != p['name'] and
              ((p['name'] in ks and p['name'] in q['calls']) or (p['name'] in subs and q['name'] in p['calls']))
              for p in P['procs'] for q in P['procs'])
    kmod = any(p['name'] in ks and p['mod'] for p in P['procs'])
    mvars = {v for m in P['mods'] for v in m['vars']}
    vimp = any(set(im['only']) & mvars for h in P['procs'] + P['mods'] for im in h['imports'])
    selfrec = any(p['name'] in p['calls'] for p in P['procs'])
    return f"multi={int(multi)}:modimp={int(modlevel)}:vimp={int(vimp)}:unq={int(unq)}:ksib={int(sib)}:kmod={int(kmod)}:self={int(selfrec)}"


def gen_tlc_cases(ctx, n, maxops):
    cfg = os.path.join(ctx.work, 'Gen_SchedOps_run.cfg')
    with open(os.path.join(core.SPEC, 'Gen_SchedOps.cfg')) as fh:
        text = fh.read().replace('MaxOps = 3', f'MaxOps = {maxops}')
    with open(cfg, 'w') as fh:
        fh.write(text)
    r = ctx.tlc('Gen_SchedOps', cfg, simulate=f'num={int(n * 1.6) + 5}', depth=maxops + 4, seed=ctx.seed + 77, timeout=900)
    seen, out = set(), []
    for v in r.prints('CASE'):
        if v[1] not in seen:
            seen.add(v[1])
            out.append(json.loads(v[1]))
    if len(out) < 0.5 * n:
        raise MachineryError(f'Gen_SchedOps produced only {len(out)} distinct cases of {n}\n{r.tail()}')
    return out[:n]


def mc_cfg(ctx, name, maxops, styles, guarded=True):
    path = os.path.join(ctx.work, f'{name}.cfg')
    with open(os.path.join(core.SPEC, 'MC_SchedOps.cfg')) as fh:
        text = fh.read()
    text = text.replace('MaxOps = 2', f'MaxOps = {maxops}').replace('Styles = {"only_r", "only_m"}', 'Styles = {' + ', '.join(f'"{s}"' for s in styles) + '}')
    text = text.replace('Guarded = TRUE', f'Guarded = {"TRUE" if guarded else "FALSE"}')
    with open(path, 'w') as fh:
        fh.write(text)
    return path


def run(ctx):
    quick = ctx.quick
    phases = {}
    ctx.cover['phase_wall_s'] = phases
    # ---- 1. design level
    if not (os.environ.get('VERIF_SKIP_MC') or ctx.replay):
        ctx.mc('MC_SchedOps', mc_cfg(ctx, 'mcq', 2 if quick else 3, ('only_r', 'only_m')), timeout=2400, workers=8)
        r = ctx.tlc('MC_SchedOps', 'MC_SchedOps_unguarded', workers=8, timeout=900)
        if r.ok or not r.invariant_violated:
            raise MachineryError(f'negative control (no preconditions) not rejected by MC_SchedOps:\n{r.tail()}')
        ctx.cover['negative_control_rejected'] = r.invariant_violated
    phases['model_checking'] = round(ctx.elapsed(), 1)

    runs = []     # (replay payload, trace case)
    budget = time.time() + (60 if quick else 300)

    def add(P, C, hist, iface, origin, modelled, layout=None, mvi=None):
        root = os.path.join(ctx.work, f'h{len(runs)}')
        mvi = len(runs) % 3 == 0 if mvi is None else mvi
        steps, final = replay(P, C, hist, root, iface, layout, keep=bool(os.environ.get('VERIF_KEEP')), defer=True, mvi=mvi)
        runs.append(({'P': P, 'C': C, 'hist': hist, 'iface': iface, 'origin': origin, 'modelled': modelled, 'layout': layout, 'mvi': mvi},
                     {'P0': L.tla_project(P), 'C0': C, 'hist': hist, 'steps': steps, 'final': final, 'modelled': modelled}))

    if ctx.replay and ctx.replay['case'].get('kind') == 'ignore':
        pass
    elif ctx.replay:
        c = ctx.replay['case']
        add(L.normalize_project(c['P']), L.normalize_config(c['C']), c['hist'], c['iface'], 'replay', c.get('modelled', False), c.get('layout'), c.get('mvi', False))
    else:
        # ---- 2. TLC-sampled members of the modelled universe (preconditions hold): histories <= 3
        for c in gen_tlc_cases(ctx, 32 if quick else 220, 3):
            if time.time() > budget and len(runs) >= 20:
                break
            P, C = L.normalize_project(c['P']), with_seed_entries(ctx.rng, L.normalize_config(c['C']))
            add(P, C, c['hist'], True, 'tlc', True)
        ntlc = len(runs)
        # ---- 3. seeded larger projects (several units per file, module-level imports, siblings): no preconditions
        budget += 40 if quick else 240
        legal, yield_ = L.seeded_pairs(ctx, 24 if quick else 150)
        ctx.cover['seeded_candidates_legal'] = yield_
        for i, (P, _) in enumerate(legal):
            if time.time() > budget and len(runs) - ntlc >= 15:
                break
            if any(not im['only'] for h in P['procs'] + P['mods'] for im in h['imports']):
                continue     # USE without ONLY: DependencyTransformation documents that it does not re-point them (TODO in rename_imports)
            C = C23.simple_config(ctx.rng, P, False)
            if C is None:
                continue
            C = with_seed_entries(ctx.rng, C)
            hist = random_history(ctx.rng, P, ctx.rng.choice([1, 2, 2, 3]))
            if hist:
                add(P, C, hist, True, 'seeded', False, layout=ctx.seed * 31 + i if i % 2 else None)
        ctx.cover['cases'] = {'tlc_modelled': ntlc, 'seeded': len(runs) - ntlc}
    # ---- 3b. ignored dependencies (inline FUNCTION references / CALLed subroutines) under dep, then further processing
    if ctx.replay and ctx.replay['case'].get('kind') == 'ignore':
        icases = [ctx.replay['case']]
    else:
        icases = [] if ctx.replay else ignore_cases(ctx.rng, 24 if quick else 96)
    iruns = [(c, run_ignore_case(c, os.path.join(ctx.work, f'ig{n}'))) for n, c in enumerate(icases)]
    phases['generate_and_run_loki'] = round(ctx.elapsed() - sum(phases.values()), 1)
    # gfortran jobs in threads (Loki itself is driven serially)
    import concurrent.futures as cf
    jobs = [(i, k, t['final'][k]) for i, (_, t) in enumerate(runs) for k in ('preflight', 'link') if not isinstance(t['final'][k], str)]
    with cf.ThreadPoolExecutor(max_workers=8) as ex:
        for (i, k, job), res in zip(jobs, ex.map(lambda j: L.link_job(j[2]), jobs)):
            runs[i][1]['final'][k] = res
    if not os.environ.get('VERIF_KEEP'):
        for _, _, job in jobs:
            shutil.rmtree(job['workdir'], ignore_errors=True)
    ctx.cover['gfortran_links'] = len(jobs)
    dropped = [i for i, (_, t) in enumerate(runs) if t['final']['preflight'] != 'ok']
    ctx.cover['dropped_by_preflight(original does not compile)'] = len(dropped)
    if len(dropped) > 0.5 * len(runs) and len(runs) > 4:
        raise MachineryError(f'pre-flight: {len(dropped)} of {len(runs)} rendered projects do not compile: {runs[dropped[0]][1]["final"]["preflight"]}')
    runs[:] = [r for i, r in enumerate(runs) if i not in set(dropped)]
    phases['compile_and_link'] = round(ctx.elapsed() - sum(phases.values()), 1)

    verdicts = ctx.validate('Trace_SchedOps', 'Trace_SchedOps', [t for _, t in runs], per_shard_min=20,
                            shards=4 if quick else None, extra_env={'JAVA_TOOL_OPTIONS': '-Xss256m'})
    phases['trace_validation'] = round(ctx.elapsed() - sum(phases.values()), 1)
    clauses, hists, ops_seen = {}, {}, {}
    agree = [0, 0]
    steps_ok = 0
    for i, (case, t) in enumerate(runs):
        ok, clause, pos = verdicts[i]
        clauses[clause] = clauses.get(clause, 0) + 1
        hists[hist_sig(case['hist'])] = hists.get(hist_sig(case['hist']), 0) + 1
        for o in case['hist']:
            ops_seen[o['op']] = ops_seen.get(o['op'], 0) + 1
        if f'{i}#a' in verdicts:
            agree[0] += verdicts[f'{i}#a'][2]
            agree[1] += len(case['hist'])
        if clause == 'illegal-input':
            raise MachineryError(f'illegal input reached validation: {json.dumps(case)[:500]}')
        if ok:
            steps_ok += len(t['steps'])
            continue
        if pos == 0:
            # the initial state already breaks an invariant: not an effect of the operations (graph construction is C21's business)
            clauses[clause] -= 1
            clauses['initial-state:' + clause] = clauses.get('initial-state:' + clause, 0) + 1
            continue
        at_final = pos >= len(t['steps'])
        op = case['hist'][min(pos, len(case['hist'])) - 1]
        opname = op['op'] + ('s' if op['sub'] else '')
        detail = ''
        if clause == 'raised':
            txt = t['steps'][pos]['raised']
            detail = '[' + txt.split(':')[0] + ']'
        if clause == 'link':
            lk = t['final']['link']
            detail = '[' + ('undefined' if 'undefined reference' in lk else 'multiple' if 'multiple definition' in lk else
                            'nomodule' if 'Cannot open module' in lk else 'notinmodule' if 'not found in module' in lk else
                            'write-raised' if lk.startswith('write-raised') else 'other') + ']'
        before = sorted({o['op'] + ('s' if o['sub'] else '') for o in case['hist'][:min(pos, len(case['hist'])) - (0 if at_final else 1)]})
        key = (f"{clause}{detail}:{'final' if at_final else 'step'}:op={'-' if at_final else opname}:after={'+'.join(before) or 'none'}:"
               f"mvi={int(case['mvi'])}:{project_sig(case['P'], case['hist'])}")
        what = (f'history {json.dumps(case["hist"])[:400]} on the real scheduler rejected by Trace_SchedOps clause `{clause}` '
                f'{"after the history (later processing / write / link)" if at_final else f"after step {pos} ({opname})"}; origin {case["origin"]}; '
                f'{t["steps"][min(pos, len(t["steps"]) - 1)]["raised"]} {t["final"]["link"] if clause == "link" else ""}')
        ctx.violation(key, what, {k: v for k, v in case.items() if k != 'origin'})
    if iruns:
        iv = ctx.validate('Trace_SchedIgnore', 'Trace_SchedIgnore', [t for _, t in iruns], shards=1)
        nren = {'fn': 0, 'sub': 0}
        for i, (case, t) in enumerate(iruns):
            ok, clause, renamed = iv[i]
            clauses[clause if clause != 'ok' else 'ign-ok'] = clauses.get(clause if clause != 'ok' else 'ign-ok', 0) + 1
            nren[case['ign']] += renamed > 0
            if not ok:
                ctx.violation(ignore_key(case, clause),
                              f'kernel referring to the ignored {"function (inline)" if case["ign"] == "fn" else "subroutine (CALL)"} `{case["f"]}` under '
                              f'DependencyTransformation(suffix={case["sfx"]!r}, replace_ignore_items={case["rii"]}): clause `{clause}` of '
                              f'Trace_SchedIgnore; before {t["before"]}, after ignore {t["after"]["ignore"]} block {t["after"]["block"]} refs '
                              f'{t["after"]["refs"]} nodes {[(n["name"], n["kind"]) for n in t["after"]["nodes"]]}; {t["raised1"]} {t["raised2"]}', case)
        ctx.cover['ignored_dependency_cases_with_renamed_reference'] = nren
        if not ctx.replay and min(nren.values()) < (6 if quick else 24):
            raise MachineryError(f'vacuity: only {nren} ignored-dependency cases in which the reference was renamed')
    ctx.cover['clauses'] = clauses
    ctx.cover['histories'] = hists
    ctx.cover['operations_replayed'] = ops_seen
    ctx.cover['states_accepted'] = steps_ok
    ctx.cover['model_agreement_steps(modelled universe)'] = f'{agree[0]}/{agree[1]}'
    for idx in ((0, len(runs) // 2, len(runs) - 1) if runs else ()):
        case, t = runs[idx]
        ctx.sample({'origin': case['origin'], 'hist': hist_sig(case['hist']), 'nodes_after': [[n['name'] for n in s['nodes']] for s in t['steps']][-1][:8],
                    'link': t['final']['link'][:60]})
    ctx.assumptions += [
        'projects: modules, free subroutines, USE ... ONLY at routine or module level, CALL, self recursion; USE without ONLY is not '
        'generated (documented TODO of DependencyTransformation.rename_imports); called free procedures are declared in interface '
        'blocks (the documented way for ModuleWrapTransformation to divert callers); configurations without pruning lists; seeds are '
        'the roots of the call graph, usually with role driver',
        'operations: dep(suffix _x, module suffix none|_mod), wrap(_mod), dup(k, _d, module suffix none|_dm, with/without subgraph), '
        'rm(k); dep and wrap at most once per history, a kernel is duplicated at most once; histories <= 3',
        'every state: cache entries find their IR and carry their current name, graph nodes are cache entries, the graph equals the '
        'closure (SchedProject.PrunedClosure) of the current seeds over the units of the cache, the units that a file write would emit '
        'plus the untouched project files have unique names and no unresolved CALL / USE, no two sources share an output path; '
        'documented effect of each operation on the node names; initial states that already fail are not attributed to the operations',
        'final: probe (C22 walk: every selected item once, callers first, IR alive), FileWriteTransformation, gfortran compile + link of the '
        'written files + untouched project files + a harness-owned main program calling the current seeds (not executed)',
        'model agreement (graph node names predicted by SchedOps!Apply) is reported for the modelled universe, not judged',
        'TLC and the TLA+ modules are trusted; python renders, runs Loki, projects the IR and runs gfortran',
    ]


def selftest(ctx):
    P = L.normalize_project({'mods': [{'name': 'm1', 'file': 'm1', 'vars': ['v_m1']}],
                             'procs': [{'name': 'p1', 'mod': '', 'file': 'p1', 'imports': [{'mod': 'm1', 'only': ['p2']}], 'calls': ['p2', 'p3']},
                                       {'name': 'p2', 'mod': 'm1', 'calls': []}, {'name': 'p3', 'mod': '', 'file': 'p3', 'calls': []}]})
    C = L.make_config(['p1'], routines=[L.routine_entry('p1', role='driver')])
    hist = [L.op_record('dup', 'p3', '_d'), L.op_record('dep', '', '_x', '_mod')]
    steps, final = replay(P, C, hist, os.path.join(ctx.work, 'st'), True, mvi=True)
    base = {'P0': L.tla_project(P), 'C0': C, 'hist': hist, 'steps': steps, 'final': final, 'modelled': True}
    cases, expect = [base], ['ok']
    for what in ('drop-node', 'stale-key', 'dead-item', 'drop-call-target', 'link', 'visit-twice', 'undo-suffix'):
        c = json.loads(json.dumps(base))
        s = c['steps'][-1]
        if what == 'drop-node':
            victim = s['nodes'].pop()['name']
            s['edges'] = [e for e in s['edges'] if victim not in e]
        elif what == 'stale-key':
            s['cache'][0]['key'] += 'z'
        elif what == 'dead-item':
            s['cache'][1]['live'] = False
        elif what == 'drop-call-target':
            s['PG']['procs'] = s['PG']['procs'][:-1]
        elif what == 'link':
            c['final']['link'] = 'gfortran: undefined reference'
        elif what == 'visit-twice':
            c['final']['visits'].append(c['final']['visits'][0])
        elif what == 'undo-suffix':
            c['steps'][2] = json.loads(json.dumps(c['steps'][1]))
        cases.append(c)
        expect.append('reject')
    verdicts = ctx.validate('Trace_SchedOps', 'Trace_SchedOps', cases, extra_env={'JAVA_TOOL_OPTIONS': '-Xss256m'})
    bad = [(i, verdicts[i]) for i in range(len(cases)) if verdicts[i][0] != (expect[i] == 'ok')]
    if bad:
        print(f'SELFTEST-FAILED C25: {bad[:6]}')
        return 2
    print(f'SELFTEST-OK C25: {expect.count("ok")} accepted, {expect.count("reject")} corrupted copies rejected '
          f'({sorted({verdicts[i][1] for i in range(len(cases)) if expect[i] == "reject"})}); model agreement {verdicts["0#a"][2]}/2')
    return 0
