"""C07 The standalone expression parser follows Fortran semantics.

spec: FParse (token-level reference parser with Fortran precedence/associativity), FExpr (values),
      Trace_ExprEquiv (the tree returned by parse_expr must have the value the reference parser gives
      the same token string, on every sampled valuation and both typings).
code: loki.expression.parser.parse_expr on generated strings (exhaustive operator chains + seeded
      grammar derivations with literals incl. kinds, intrinsic calls, subscripts, components).
Pre-flight: gfortran evaluates a sample of the strings; FParse+FExpr must agree (else machinery error).
"""
import itertools

from .. import lib_expr as X
from ..core import MachineryError
from .C06 import preflight_gfortran

ARITH = ['+', '-', '*', '/', '**']


def chains():
    """Every chain  [-] x op y op z [op w]  over the arithmetic operators, with optional unary minus
    at the front, plus bracketed variants."""
    out = []
    for opnds in (['a', 'b', 'c', '2'], ['2', 'a', '3', 'b'], ['1.5', '2', 'b', 'a']):
      for n in (1, 2, 3):
        if opnds[0] != 'a' and n == 3:
            continue
        for ops in itertools.product(ARITH, repeat=n):
            body = opnds[0]
            for i, o in enumerate(ops):
                body += f' {o} {opnds[i + 1]}'
            out.append(body)
            out.append('-' + body)
            if n >= 2:
                # bracket the tail / the head
                parts = body.split(' ')
                out.append(' '.join(parts[:2]) + ' (' + ' '.join(parts[2:]) + ')')
                out.append('(' + ' '.join(parts[:3]) + ') ' + ' '.join(parts[3:]))
    rel = ['==', '/=', '<', '<=', '>', '>=', '.eq.', '.ne.', '.lt.', '.le.', '.gt.', '.ge.']
    for r in rel:
        out.append(f'a + 1 {r} b * 2')
        out.append(f'.not. a {r} b .and. b {r} c .or. a {r} c')
        out.append(f'a {r} b .or. b {r} c .and. .not. c {r} a')
    return out


def random_string(rng, depth):
    def operand(d):
        r = rng.random()
        if d <= 0 or r < 0.35:
            return rng.choice(['a', 'b', 'c', '2', '3', '1.5', '2_jpim', '0.5_jprb', 'A', 'B', 'x%y', 'x%y%z'])
        if r < 0.55:
            return '(' + expr(d - 1) + ')'
        if r < 0.65:
            return rng.choice(['abs', 'ABS']) + '(' + expr(d - 1) + ')'
        if r < 0.75:
            return rng.choice(['max', 'min', 'mod']) + '(' + expr(d - 1) + ', ' + expr(d - 1) + ')'
        if r < 0.88:
            return rng.choice(['arr', 'f']) + '(' + ', '.join(expr(d - 1) for _ in range(rng.choice([1, 1, 2]))) + ')'
        return '-' + operand(d - 1) if rng.random() < 0.5 else operand(d - 1)

    def expr(d):
        n = rng.choice([1, 2, 2, 3, 4])
        s = ('-' if rng.random() < 0.15 else '') + operand(d)
        for _ in range(n - 1):
            op = rng.choice(ARITH + ['*', '/', '-'])
            sp = rng.choice([' ', ''])
            s += f'{sp}{op}{sp}' + operand(d)
        return s

    def logical(d):
        r = rng.random()
        if d <= 0 or r < 0.4:
            return expr(1) + ' ' + rng.choice(['==', '/=', '<', '<=', '>', '>=', '.lt.', '.GE.', '.eq.']) + ' ' + expr(1)
        if r < 0.55:
            inner = logical(d - 1)
            return '.not. ' + (inner if not inner.startswith('.not.') else '(' + inner + ')')
        if r < 0.7:
            return '(' + logical(d - 1) + ')'
        return logical(d - 1) + ' ' + rng.choice(['.and.', '.or.', '.AND.']) + ' ' + logical(d - 1)
    return logical(depth) if rng.random() < 0.25 else expr(depth)


def run(ctx):
    from loki.expression.parser import parse_expr
    rng = ctx.rng
    if ctx.replay:
        strings = [ctx.replay['case']['text']]
    else:
        strings = chains()
        strings += [random_string(rng, 2) for _ in range(1200 if ctx.quick else 14000)]
        strings = list(dict.fromkeys(strings))
    cases, meta, skipped, raised = [], [], 0, {}
    for s in strings:
        try:
            toks = X.lex(s)
        except X.Unsupported:
            skipped += 1
            continue
        try:
            tree = X.export(parse_expr(s))
        except X.Unsupported:
            skipped += 1
            continue
        except MachineryError:
            raise
        except Exception as ex:  # pylint: disable=broad-except
            raised.setdefault(type(ex).__name__, (s, str(ex)[:200]))
            continue
        cases.append({'typings': ['int', 'real'], 'ref': {'form': 'toks', 'toks': toks, 'tree': X.N(0)},
                      'obs': {'form': 'tree', 'tree': tree, 'toks': []}})
        meta.append((s, tree))
    if not ctx.replay:
        plain = [(None, s) for s, _ in meta if all(ch in 'abc23+-*/() ' for ch in s) and '/' not in s and '**' not in s]
        rng.shuffle(plain)
        preflight_gfortran(ctx, plain[:60])
    verdicts = ctx.validate('Trace_ExprEquiv', 'Trace_ExprEquiv', cases, timeout=2400)
    fails = {}
    nontriv = 0
    for i, (s, tree) in enumerate(meta):
        ok, clause, n = verdicts[i]
        if ok and clause != 'vacuous':
            nontriv += 1
        if not ok:
            if clause == 'ref-unparsable':
                raise MachineryError(f'generated string not accepted by the reference parser: {s!r}')
            # normal form: the operator skeleton of the string (operands abstracted)
            import re
            skel = re.sub(r'[A-Za-z_][\w%]*', 'x', s)
            skel = re.sub(r'\d+(\.\d+)?(_x)?', 'n', skel).replace(' ', '')
            fails.setdefault(skel, (s, tree, clause))
    # shrink the shortest representatives on the token level (batched re-validation), then key by skeleton
    reps = sorted(fails.items(), key=lambda kv: len(kv[0]))[:30]

    def skeleton(text):
        import re
        sk = re.sub(r'[A-Za-z_][\w%]*', 'x', text)
        return re.sub(r'\d+(\.\d+)?(_x)?', 'n', sk).replace(' ', '')

    def judge(texts):
        cs, idx = [], []
        for i, t in enumerate(texts):
            try:
                cs.append({'typings': ['int', 'real'], 'ref': {'form': 'toks', 'toks': X.lex(t), 'tree': X.N(0)},
                           'obs': {'form': 'tree', 'tree': X.export(parse_expr(t)), 'toks': []}})
                idx.append(i)
            except Exception:  # pylint: disable=broad-except
                pass
        out = [False] * len(texts)
        if cs:
            v = ctx.validate('Trace_ExprEquiv', 'Trace_ExprEquiv', cs)
            ctx.val_stats.pop()
            for j, i in enumerate(idx):
                out[i] = (not v[j][0]) and v[j][1].startswith('value-differs')
        return out

    def cands(text):
        toks = [t['s'] for t in X.lex(text)]
        out = []
        for i, t in enumerate(toks):
            if t in ('+', '-', '*', '/', '**') and i + 1 < len(toks) and toks[i + 1] not in ('(', ')', '+', '-', '*', '/', '**', ','):
                if i + 2 >= len(toks) or toks[i + 2] != '(':
                    out.append(' '.join(toks[:i] + toks[i + 2:]))
            if i == 0 and t == '-':
                out.append(' '.join(toks[1:]))
            if t == '(' and i + 2 < len(toks) and toks[i + 2] == ')' and (i == 0 or toks[i - 1] in ('+', '-', '*', '/', '**', '(')):
                out.append(' '.join(toks[:i] + [toks[i + 1]] + toks[i + 3:]))
            if i >= 1 and toks[i] not in ('(', ')', ',') and toks[i - 1] not in ('(', ')', ',') and \
                    toks[i - 1] not in ('+', '-', '*', '/', '**') and False:
                pass
        return [c for c in dict.fromkeys(out) if c.strip()]
    cur = [s for _, (s, _, _) in reps]
    for _ in range(8):
        cl = [cands(t)[:30] for t in cur]
        flat = [c for cs in cl for c in cs]
        if not flat:
            break
        res = judge(flat)
        i = 0
        prog = False
        for j, cs in enumerate(cl):
            done = False
            for c in cs:
                if res[i] and not done:
                    cur[j] = c
                    prog = done = True
                i += 1
        if not prog:
            break
    # classification: does the failure disappear once the left-to-right association of * and / is spelled out?
    explicit = []
    for small in cur:
        try:
            explicit.append(X.explicit_muldiv(small))
        except Exception:  # pylint: disable=broad-except
            explicit.append(small)
    still = judge(explicit)
    for (skel, (s, tree, clause)), small, ex_text, st in zip(reps, cur, explicit, still):
        if not st and ex_text != small:
            ctx.violation('parse_expr:muldiv-chain-associativity',
                          f'parse_expr({s!r}) = {X.show(tree)}: {clause} (shrunk text {small!r}; parses correctly as {ex_text!r})', {'text': s})
            continue
        ctx.violation('parse_expr:' + skeleton(small), f'parse_expr({s!r}) = {X.show(tree)}: {clause} (shrunk text: {small!r})', {'text': s})
    for name, (s, msg) in raised.items():
        ctx.violation(f'parse_expr:raises:{name}', f'parse_expr({s!r}) raised {name}: {msg}', {'text': s})
    ctx.cover.update(strings=len(strings), parsed=len(meta), nonvacuous_accepted=nontriv, skipped_outside_model=skipped,
                     failing_skeletons=len(fails), exhaustive_chain_strings=len(chains()))
    for s, tree in meta[:3] + meta[-3:]:
        ctx.sample({'text': s, 'parse_expr': X.show(tree)})
    ctx.assumptions += ['array elements, unknown functions and component references are uninterpreted (a fixed arithmetic function of name and evaluated arguments)',
                        'strings with character literals, array constructors, ranges and keyword arguments are not generated']
