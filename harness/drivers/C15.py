"""C15 Node and expression finders return exactly the matching nodes.

spec: Finders.tla (FindNodes type/scope + greedy, FindScopes, expression occurrences, the unique and
      with_ir_node quotients), MC_Finders (the definitions against declarative characterisations on a
      small universe, incl. rejection of corrupted results), Trace_Finders (recorded results of the
      real finders judged against the spec evaluated on the independently exported IR).
Inputs: (a) generated Fortran routines/modules parsed with the fparser frontend (programmatically
      varied declarations, derived types, control flow, calls, literals ...), (b) IR trees built
      directly from the node classes (the C14 tree generator + TypeDef).
The python side parses/builds, runs the real finders, exports (harness/lib_irexport.py: own recursion
over dataclass fields and expression constructor arguments) and projects results to ids. No oracle.
"""
import random

from ..core import MachineryError
from .. import lib_irtree as T
from ..lib_irexport import FullExporter

# deep (but finite) recursion over the sibling / occurrence lists of parsed routines needs a larger JVM thread stack
JVM = {'JAVA_TOOL_OPTIONS': '-Xss512m'}

NODE_CLASSES = [('Node',), ('LeafNode',), ('InternalNode',), ('Section',), ('Assignment',), ('Loop',), ('Conditional',),
                ('Comment',), ('CallStatement',), ('VariableDeclaration',), ('TypeDef',), ('Associate',), ('ScopedNode',),
                ('Loop', 'Conditional'), ('MultiConditional',), ('Pragma',), ('GenericStmt',), ('PrintStmt',), ('Allocation',),
                ('MaskedStatement',), ('WhileLoop',), ('Import',), ('Interface',), ('ProcedureDeclaration',),
                ('Enumeration',), ('Assignment', 'CallStatement', 'Comment')]
EXPR_FINDERS = {
    'FindVariables': ('Scalar', 'Array', 'DeferredTypeSymbol'),
    'FindInlineCalls': ('InlineCall',),
    'FindLiterals': ('FloatLiteral', 'IntLiteral', 'LogicLiteral', 'StringLiteral', 'IntrinsicLiteral'),
    'FindRealLiterals': ('FloatLiteral',),
    'FindLiteralLists': ('LiteralList',),
}


# --------------------------------------------------------------------------------------------
# generated Fortran

class Gen:
    """Programmatically varied routines over a fixed set of declared names."""

    def __init__(self, rng: random.Random):
        self.r = rng
        self.features = set()

    def lit(self):
        return self.r.choice(['1', '2', '3', '1.0', '2.5', '1.0_jprb', '0.5_jprb', '.true.', '2_jpim'])

    def scalar(self):
        return self.r.choice(['s', 't', 'u', 'p%x', 'p%tag', 'q(i)%x', 'n', 'i', 'j'])

    def idx(self):
        return self.r.choice(['i', 'j', '1', 'n', 'i + 1', 'n - j', 'k(1)', 'min(i, n)'])

    def ref(self):
        c = self.r.random()
        if c < 0.25:
            return self.scalar()
        if c < 0.55:
            return f"{self.r.choice(['a', 'c'])}({self.idx()})"
        if c < 0.75:
            return f'b({self.idx()}, {self.idx()})'
        if c < 0.85:
            return f'q({self.idx()})%y({self.idx()})'
        if c < 0.93:
            return self.r.choice(['a(1:n)', 'a(:)', 'b(:, j)', 'a(1:n:2)', 'b(i, 1:3)'])
        return 'p%y(j)'

    def expr(self, d=0):
        c = self.r.random()
        if d >= 3 or c < 0.3:
            return self.ref() if self.r.random() < 0.65 else self.lit()
        if c < 0.6:
            op = self.r.choice(['+', '-', '*', '/', '**'])
            return f'{self.expr(d + 1)} {op} {self.expr(d + 1)}'
        if c < 0.7:
            return f'({self.expr(d + 1)})'
        if c < 0.9:
            f = self.r.choice(['max', 'min', 'sqrt', 'abs', 'real', 'size', 'sum', 'myfunc', 'exp'])
            self.features.add('inline_call')
            if f == 'real':
                return f'real({self.expr(d + 1)}, kind=jprb)'
            if f == 'size':
                return f"size({self.r.choice(['a', 'b', 'c'])}, 1)"
            if f in ('max', 'min', 'myfunc'):
                return f'{f}({self.expr(d + 1)}, {self.expr(d + 1)})'
            if f == 'sum':
                return 'sum(a(1:n))'
            return f'{f}({self.expr(d + 1)})'
        return f'(-{self.ref()})'

    def cond(self):
        c = self.r.random()
        if c < 0.6:
            return f"{self.expr(2)} {self.r.choice(['>', '<', '==', '/=', '>=', '<='])} {self.expr(2)}"
        if c < 0.8:
            return f"flag .and. {self.scalar()} > {self.lit().replace('.true.', '1')}"
        return self.r.choice(['flag', '.not. flag', 'present(opt)'])

    def lhs(self):
        return self.r.choice(['s', 't', 'a(i)', 'a(j)', 'b(i, j)', 'c(i)', 'p%x', 'q(i)%x', 'q(i)%y(j)', 'p%y(1)', 'a(1:n)', 'k(2)'])

    def stmt(self, d, ind):
        sp = '  ' * ind
        c = self.r.random()
        if d >= 3 or c < 0.35:
            self.features.add('assignment')
            return [f'{sp}{self.lhs()} = {self.expr()}']
        if c < 0.45:
            self.features.add('loop')
            v = self.r.choice(['i', 'j'])
            step = self.r.choice(['', '', ', 2'])
            return [f'{sp}do {v} = 1, {self.r.choice(["n", "n - 1", "size(a, 1)"])}{step}'] + self.block(d + 1, ind + 1) + [f'{sp}end do']
        if c < 0.57:
            self.features.add('conditional')
            out = [f'{sp}if ({self.cond()}) then'] + self.block(d + 1, ind + 1)
            if self.r.random() < 0.4:
                out += [f'{sp}else if ({self.cond()}) then'] + self.block(d + 1, ind + 1)
            if self.r.random() < 0.5:
                out += [f'{sp}else'] + self.block(d + 1, ind + 1)
            return out + [f'{sp}end if']
        if c < 0.62:
            self.features.add('select')
            out = [f'{sp}select case ({self.r.choice(["n", "i", "k(1)"])})']
            for v in self.r.sample(['1', '2', '3:5', '7'], self.r.randint(1, 3)):
                out += [f'{sp}case ({v})'] + self.block(d + 1, ind + 1, lo=1)
            if self.r.random() < 0.6:
                out += [f'{sp}case default'] + self.block(d + 1, ind + 1, lo=1)
            return out + [f'{sp}end select']
        if c < 0.67:
            self.features.add('where')
            out = [f'{sp}where (a(1:n) > {self.lit().replace(".true.", "1")})', f'{sp}  a(1:n) = {self.expr(2)}']
            if self.r.random() < 0.5:
                out += [f'{sp}elsewhere', f'{sp}  a(1:n) = {self.lit().replace(".true.", "0")}']
            return out + [f'{sp}end where']
        if c < 0.74:
            self.features.add('associate')
            return [f'{sp}associate (z => p%x, w => a({self.idx()}))', f'{sp}  z = w + {self.expr(2)}'] + self.block(d + 1, ind + 1) + [f'{sp}end associate']
        if c < 0.82:
            self.features.add('call')
            args = ', '.join(self.expr(2) for _ in range(self.r.randint(0, 3)))
            kw = self.r.choice(['', '', f', key={self.expr(2)}'])
            if not args:
                kw = kw.lstrip(', ')
            return [f'{sp}call {self.r.choice(["sub1", "sub2"])}({args}{kw})']
        if c < 0.86:
            self.features.add('allocate')
            return [f'{sp}allocate(d({self.idx()}), stat=ist)', f'{sp}d(1) = {self.expr(2)}', f'{sp}deallocate(d)']
        if c < 0.9:
            self.features.add('comment')
            return [f'{sp}! a comment about {self.ref()}', f'{sp}!$loki some-pragma arg({self.scalar()})']
        if c < 0.94:
            self.features.add('while')
            return [f'{sp}do while ({self.cond()})'] + self.block(d + 1, ind + 1) + [f'{sp}end do']
        if c < 0.97:
            self.features.add('inline_if')
            return [f'{sp}if ({self.cond()}) {self.lhs()} = {self.expr(2)}']
        self.features.add('intrinsic_stmt')
        return [f"{sp}print *, 'value', {self.expr(2)}"]

    def block(self, d, ind, lo=1):
        out = []
        for _ in range(self.r.randint(lo, 3)):
            out += self.stmt(d, ind)
        return out

    def typedef(self):
        return ['  type :: t_pt', '    real(kind=jprb) :: x = 0.0_jprb', '    real(kind=jprb) :: y(3)',
                '    integer :: tag = 7', '  end type t_pt']

    def routine(self, name='kernel', with_type=True, extras=True):
        r = self.r
        spec = ['  implicit none', '  integer, parameter :: jprb = selected_real_kind(13, 300)',
                '  integer, parameter :: jpim = selected_int_kind(9)']
        if with_type:
            spec += self.typedef()
            self.features.add('typedef')
        spec += ['  integer, intent(in) :: n', '  real(kind=jprb), intent(inout) :: a(n), b(n, n)',
                 '  real(kind=jprb), intent(out) :: c(n)', '  logical, intent(in) :: flag', '  integer, intent(in), optional :: opt',
                 '  type(t_pt) :: p', '  type(t_pt) :: q(n)' if r.random() < 0.8 else '  type(t_pt) :: q(10)',
                 '  integer :: i, j, ist, k(3) = (/ 1, 2, 3 /)',
                 f'  real(kind=jprb) :: s = {r.choice(["1.0_jprb", "2.0", "real(1, kind=jprb)"])}, t, u',
                 '  real(kind=jprb), allocatable :: d(:)', '  real(kind=jprb), external :: myfunc']
        if extras and r.random() < 0.3:
            spec.insert(1, '  ! leading comment')
        if extras and r.random() < 0.25:
            self.features.add('interface')
            spec += ['  interface', '    subroutine sub2(x, y, key)', '      real, intent(in) :: x', '      real, intent(in), optional :: y, key',
                     '    end subroutine sub2', '  end interface']
        if extras and r.random() < 0.2:
            self.features.add('enum')
            spec += ['  enum, bind(c)', '    enumerator :: red = 1, blue = 2', '  end enum']
        body = self.block(0, 1, lo=2)
        args = 'n, a, b, c, flag, opt'
        return '\n'.join([f'subroutine {name}({args})'] + spec + body + [f'end subroutine {name}']) + '\n'

    def module(self):
        self.features.add('module')
        body = self.routine('kernel', with_type=False).replace('  type(t_pt) :: p', '  type(t_pt) :: p')
        body = '\n'.join('  ' + l for l in body.splitlines())
        return '\n'.join(['module gen_mod', '  implicit none', '  integer, parameter :: jpk = selected_real_kind(13, 300)'] +
                         self.typedef() + ['  real(kind=jpk) :: mod_var(3) = (/ 1.0, 2.0, 3.0 /)', 'contains', body, 'end module gen_mod']) + '\n'


# --------------------------------------------------------------------------------------------
# running the real finders and projecting the results

def collect_queries(forest_objs, rng, nsample=6):
    """forest_objs: tuple of IR nodes handed to every finder. Returns (exported forest, query families)."""
    import loki.ir as lir
    ex = FullExporter()
    forest = ex.forest(forest_objs)
    nid = lambda n: ex.node_id.get(id(n), 0)      # noqa: E731
    xid = lambda x: ex.expr_id.get(id(x), 0)      # noqa: E731
    fam = {}

    def q(family, **kw):
        rec = {'f': '', 'label': '', 'classes': [], 'greedy': False, 'unique': False, 'pairs': False, 'target': 0,
               'ids': [], 'lists': [], 'prs': [], 'exc': ''}
        rec.update(kw)
        fam.setdefault(family, []).append(rec)
    def attempt(fn):
        """Run a finder; a finder that raises on a legal tree is an observation, not a harness error."""
        try:
            return fn(), ''
        except Exception as e:  # pylint: disable=broad-except
            return [], type(e).__name__

    for names in NODE_CLASSES:
        match = tuple(getattr(lir, n) for n in names)
        match = match[0] if len(match) == 1 else match
        for greedy in (False, True):
            res, exc = attempt(lambda: lir.FindNodes(match, greedy=greedy).visit(forest_objs))  # pylint: disable=cell-var-from-loop
            q('FindNodes', f='FindNodes', label=f"FindNodes:type:{'+'.join(names)}:greedy={greedy}",
              classes=list(names), greedy=greedy, ids=[nid(n) for n in res], exc=exc)
    # sampled nodes for mode='scope' and FindScopes (TypeDef objects themselves are exempt as FindScopes targets)
    cand = list(ex.nodes[1:])
    sample = rng.sample(cand, min(nsample, len(cand)))
    recs = {}
    _index(forest, recs)
    for n in sample:
        for greedy in (False, True):
            res, exc = attempt(lambda: lir.FindNodes(n, mode='scope', greedy=greedy).visit(forest_objs))  # pylint: disable=cell-var-from-loop
            q('FindNodesScope', f='FindNodesScope', label=f'FindNodes:scope:greedy={greedy}',
              target=recs[nid(n)]['eq'], greedy=greedy, ids=[nid(x) for x in res], exc=exc)
            if type(n).__name__ != 'TypeDef':
                res, exc = attempt(lambda: lir.FindScopes(n, greedy=greedy).visit(forest_objs))  # pylint: disable=cell-var-from-loop
                q('FindScopes', f='FindScopes', label=f'FindScopes:greedy={greedy}', target=nid(n),
                  greedy=greedy, lists=[[nid(x) for x in path] for path in res], exc=exc)
    for fname, classes in EXPR_FINDERS.items():
        cls = getattr(lir, fname)
        for unique in (False, True):
            res, exc = attempt(lambda: list(cls(unique=unique).visit(forest_objs)))  # pylint: disable=cell-var-from-loop
            q(fname, f='Expr', label=f'{fname}:unique={unique}', classes=list(classes), unique=unique,
              ids=[xid(x) for x in res], exc=exc)
            res, exc = attempt(lambda: list(cls(unique=unique, with_ir_node=True).visit(forest_objs)))  # pylint: disable=cell-var-from-loop
            prs = []
            for pair in res:
                node, xs = pair
                prs.append({'n': nid(node) if not isinstance(node, tuple) else -1, 'xs': [xid(x) for x in xs]})
            q(fname, f='Expr', label=f'{fname}:unique={unique}:with_ir_node', classes=list(classes),
              unique=unique, pairs=True, prs=prs, exc=exc)
    return forest, fam, ex


def _index(forest, out):
    for n in forest:
        out[n['id']] = n
        _index(n['b'], out)


def _kinds(forest, out):
    for n in forest:
        out.add(n['mro'][0])
        _kinds(n['b'], out)
    return out


def _exprkinds(forest, out):
    def ek(x):
        out.add(x['mro'][0])
        for c in x['ch']:
            ek(c)
    for n in forest:
        for e in n['e']:
            ek(e)
        _exprkinds(n['b'], out)
    return out


def parsed_case(rng, i):
    from loki import Subroutine, Module
    from loki.frontend import FP
    g = Gen(rng)
    if i % 6 == 5:
        src = g.module()
        mod = Module.from_source(src, frontend=FP)
        r = mod.subroutines[0]
        objs = (mod.spec, r.spec, r.body)
        owner = (mod, r)
    else:
        src = g.routine(with_type=True)
        if i % 2 == 0:
            # make sure both substituted symbols meet inside single expressions
            src = src.replace('end subroutine kernel', '  t = s * u + s\n  a(i) = b(i, j) * s + c(j) * u + s\nend subroutine kernel')
        r = Subroutine.from_source(src, frontend=FP)
        if i % 2 == 0:
            # expression DAGs: two symbols mapped to the SAME replacement object (SubstituteExpressions takes it as-is
            # from the map), so one python object sits at several positions of one expression
            from loki.ir import SubstituteExpressions
            from loki.expression import parse_expr
            shared = parse_expr(rng.choice(['(b(j, 1) + n)', 'max(c(j), 1.0_jprb)', 'p%x', 'a(k(1))']), scope=r)
            vmap = r.variable_map
            r.body = SubstituteExpressions({vmap['s']: shared, vmap['u']: shared}).visit(r.body)
            g.features.add('shared_substituted_object')
        objs = (r.spec, r.body) if i % 3 else (r.body,)
        owner = (r,)
    # (symbols reference their scope weakly: the program units must stay alive while the finders run)
    return src, objs, sorted(g.features), owner


def built_case(rng, i):
    """IR built directly from the node classes (C14 generator) with TypeDefs and a few real expressions."""
    cnt = [0]

    def tag():
        cnt[0] += 1
        return f'n{cnt[0]}'
    pool = []
    body = T.random_forest(rng, rng.randint(2, 9), 4, ('leaf', 'asg', 'loop', 'sec', 'assoc', 'cond', 'multi', 'tdef'), tag, pool, dup_p=0.0)
    bld = T.Builder()
    root = bld.build(T.node('sec', 'root', [body]))
    if i % 3 != 2:
        root = root._rebuild(body=root.body + _shared_object_statements(rng))  # pylint: disable=protected-access
    return root, (root,) if i % 2 else tuple(root.body)


def _shared_object_statements(rng):
    """Statements whose expressions contain the same python expression object at several positions
    (programmatically built IR re-using symbol objects)."""
    from loki import ir
    from loki.expression import symbols as sym
    i = sym.Variable(name='i')
    j = sym.Variable(name='j')
    a = sym.Array(name='a', dimensions=(i, i))                     # i twice inside a(i, i)
    call = sym.InlineCall(sym.ProcedureSymbol('f', scope=None), parameters=(i, sym.IntLiteral(2)))
    lit = sym.FloatLiteral('1.5')
    x = sym.Variable(name='x')
    stmts = [
        ir.Assignment(lhs=x, rhs=sym.Sum((a, sym.Product((a, i))))),                         # a(i,i) + a(i,i)*i
        ir.Assignment(lhs=x, rhs=sym.Sum((call, call))),                                     # f(i,2) + f(i,2)
        ir.Assignment(lhs=sym.Array(name='b', dimensions=(j,)), rhs=sym.Product((lit, sym.Sum((lit, j, j))))),
        ir.Conditional(condition=sym.Comparison(call, '>', call), body=(ir.Assignment(lhs=x, rhs=sym.Sum((x, x))),), else_body=()),
        ir.CallStatement(name=sym.ProcedureSymbol('sub', scope=None), arguments=(a, a, sym.Sum((i, i))), kwarguments=(('k', call),)),
    ]
    return tuple(rng.sample(stmts, rng.randint(2, len(stmts))))


# --------------------------------------------------------------------------------------------

DIAG = {'R': 'raised', 'N': 'wrong-node-list', 'M': 'missing-in', 'P': 'pair-of', 'X': 'not-an-occurrence', 'P?': 'pair-for-unexpected-node'}


def norm_key(label, diag):
    """Normal form of a rejected query: finder + mode flags + the spec's diagnosis (node class that was mis-searched)."""
    code, _, arg = diag.partition(':')
    return f"{label}:{DIAG.get(code, code)}" + (f':{arg}' if arg else '')


def run(ctx):
    quick = ctx.quick
    if ctx.replay:
        c = ctx.replay['case']
        rng = random.Random(c['seed'])
        cases, meta = _make_cases(ctx, rng, c['kind'], c['index'], 1)
        verdicts = ctx.validate('Trace_Finders', 'Trace_Finders', cases, extra_env=JVM)
        for j, cs in enumerate(cases):
            ok, clause, _ = verdicts[j]
            if not ok:
                for part in clause.split(';'):
                    qi, diag = part.split('=', 1)
                    key = norm_key(cs['queries'][int(qi) - 1]['label'], diag)
                    ctx.violation(key, f'replayed: finder result rejected: {key}', c)
        return
    cfg = _cfg(ctx, 3 if quick else 5)
    ctx.mc('MC_Finders', cfg, timeout=2400, coverage=False)
    cases, meta = [], []
    nparsed = 18 if quick else 150
    nbuilt = 30 if quick else 400
    feats, nodekinds, exprkinds = set(), set(), set()
    failures = 0
    for kind, n in (('parsed', nparsed), ('built', nbuilt)):
        for i in range(n):
            seed = ctx.rng.getrandbits(48)
            try:
                cs, ms = _make_cases(ctx, random.Random(seed), kind, i, None, feats, nodekinds, exprkinds)
            except _ParseFailure:
                failures += 1
                continue
            for c, m in zip(cs, ms):
                m['seed'] = seed
            cases += cs
            meta += ms
    verdicts = ctx.validate('Trace_Finders', 'Trace_Finders', cases, timeout=3000, per_shard_min=8, extra_env=JVM)
    nq = 0
    for j, (c, m) in enumerate(zip(cases, meta)):
        ok, clause, _ = verdicts[j]
        nq += len(c['queries'])
        if not ok:
            for part in clause.split(';'):
                qi, diag = part.split('=', 1)
                key = norm_key(c['queries'][int(qi) - 1]['label'], diag)
                ctx.violation(key, f"{key}: finder result rejected on a {m['kind']} input (features {m.get('features')})",
                              {'kind': m['kind'], 'index': m['index'], 'seed': m['seed']})
    # many unusable inputs = lost coverage: a machinery failure, unless the check already found violations to report
    if failures > 0.3 * (nparsed + nbuilt) and not ctx.violations:
        raise MachineryError(f'{failures} generated inputs could not be parsed/built')
    ctx.cover['inputs_parsed'] = nparsed - failures
    ctx.cover['inputs_built'] = nbuilt
    ctx.cover['unparseable_generated_inputs'] = failures
    ctx.cover['queries_judged'] = nq
    ctx.cover['fortran_features'] = sorted(feats)
    ctx.cover['node_classes_seen'] = sorted(nodekinds)
    ctx.cover['expression_classes_seen'] = sorted(exprkinds)
    ctx.sample({'kind': meta[0]['kind'], 'first_query': {k: v for k, v in cases[0]['queries'][0].items() if k in ('label', 'ids')}})
    ctx.sample({'source_head': meta[0].get('src', '')[:400]})
    ctx.assumptions += [
        'the searchable tree is what an independent recursion over node dataclass fields sees, minus documented exemptions: '
        'source/label metadata, symbol tables, attached pragmas (pragma, pragma_post), members of a CommentBlock',
        'occurrences inside an expression = expression-valued constructor arguments (__getinitargs__), recursively; declaration '
        'initialisers count as expressions of the declaration',
        'expression finder results are compared as bags of object identities (order inside an expression is undocumented)',
        'unique mode: one representative per documented key (name, parent name, dimensions | printed form), names folded',
        'FindScopes on a TypeDef object itself is exempt (inherits the FindNodes handler); FindTypedSymbols/FindExpressions are '
        'not judged (they expose internal wrapper symbols)',
        'generated sources are lower-case; node objects occur once per tree; expression OBJECTS may occur at several positions '
        '(substituted DAGs, programmatically re-used symbols): occurrences are counted by position',
    ]


class _ParseFailure(Exception):
    pass


def _cfg(ctx, n):
    import os
    path = os.path.join(ctx.work, 'MC_Finders_run.cfg')
    invs = ['InvComplete', 'InvGreedy', 'InvTypeDefOpaque', 'InvExprComplete', 'InvPairsFlatten', 'InvAccepts', 'InvRejects', 'InvScopes']
    with open(path, 'w') as fh:
        fh.write('SPECIFICATION Spec\nCHECK_DEADLOCK FALSE\n' + f'CONSTANT MaxNodes = {n}\nCONSTANT MaxDepth = 3\n' +
                 ''.join(f'INVARIANT {i}\n' for i in invs))
    return path


def _make_cases(ctx, rng, kind, index, only=None, feats=None, nodekinds=None, exprkinds=None):
    src, features = '', []
    if kind == 'parsed':
        try:
            src, objs, features, owner = parsed_case(rng, index)
        except Exception as ex:  # pylint: disable=broad-except
            raise _ParseFailure(str(ex)) from ex
    else:
        try:
            owner, objs = built_case(rng, index)
        except Exception as ex:  # pylint: disable=broad-except
            raise _ParseFailure(str(ex)) from ex
    forest, fam, _ = collect_queries(objs, rng)
    del owner
    if feats is not None:
        feats.update(features)
        _kinds(forest, nodekinds)
        _exprkinds(forest, exprkinds)
    cases, meta = [], []
    for family, qs in fam.items():
        # few queries per case: the verdict names the first two rejected queries (expression finders: 2 per case)
        step = 2 if qs[0]['f'] == 'Expr' else 8
        for k in range(0, len(qs), step):
            cases.append({'T': forest, 'queries': qs[k:k + step]})
            meta.append({'kind': kind, 'index': index, 'family': family, 'features': features, 'src': src})
    return cases, meta
