"""C24 Planning mode predicts exactly the files a conversion writes.

spec: PlanWrite.tla        declarative: OriginOf(written file), Replicated(original) from the abstract project, configuration
                           (roles, replicate, lib, mode) and pipeline (SchedOps!Apply for dup / rm); design model of the planner
      MC_PlanWrite         all assignments of 3 file items x visiting orders: the planner's lists satisfy the property
                           (MC_PlanWrite_neg: the two excluded input shapes are found by TLC)
      Trace_PlanWrite      recorded plan lists (parsed from the CMake plan file) vs the files the conversion really wrote:
                           Append = Written, Transform = OriginalsOf(Written), Remove = {o in Transform : not replicated}
Real objects: `loki_transform plan` and `loki_transform convert` (click entry points, in-process) on two copies of one
rendered project with one TOML configuration (pipelines of DuplicateKernel / RemoveKernel / ModuleWrapTransformation /
DependencyTransformation, FileWriteTransformation options, build directory, root, mode).
"""
import json
import os
import shutil
import time

from .. import core
from .. import lib_sched as L
from ..core import MachineryError
from . import C21, C23

MODES = ['idem', 'foo-bar', 'x1']


def extended_config(rng, project, rich=True):
    """Configuration with roles, replicate, lib and mode entries (every routine entry carries every field)."""
    C = C23.simple_config(rng, project, False)
    if C is None:
        return None
    C['replicate'] = rich and rng.random() < 0.3
    C['lib'] = rng.choice(['', '', 'phys']) if rich else ''        # [default] lib ('' = none): every item belongs to it
    names = [p['name'] for p in project['procs']]
    keyed = {r['key'] for r in C['routines']}
    if rich:
        for p in rng.sample(project['procs'], min(len(project['procs']), rng.choice([0, 1, 1, 2]))):
            if names.count(p['name']) > 1 or p['name'] in keyed:
                continue
            keyed.add(p['name'])
            C['routines'].append(L.routine_entry(p['name']))
    for r in C['routines']:
        r['hasReplicate'] = rich and rng.random() < 0.6
        r['replicate'] = rng.random() < 0.5
        r['hasLib'] = rich and rng.random() < 0.3
        r['lib'] = rng.choice(['liba', 'libb'])
        if rich and not r['hasMode'] and rng.random() < 0.15:
            r['hasMode'], r['mode'] = True, 'other'
    return C


def mixed_replicate_config(rng, project, first_replicated):
    """Configuration aimed at the file-level replicate rule: two procedures of ONE file that are both in the graph (the first
    calls the second) get different `replicate` flags -- `first_replicated` selects which one -- while a library is
    configured (in [default] or on the routine entries), so that the per-library plan lists are exercised as well."""
    C = C23.simple_config(rng, project, False)
    if C is None:
        return None
    names = [p['name'] for p in project['procs']]
    pairs = [(a, b) for a in project['procs'] for b in project['procs']
             if a is not b and a['file'] == b['file'] and b['name'] in a['calls'] and names.count(a['name']) == 1 and names.count(b['name']) == 1]
    if not pairs:
        return None
    a, b = rng.choice(pairs)
    C['replicate'] = False
    C['lib'] = rng.choice(['phys', 'phys', ''])
    for r in C['routines']:
        r.update({'hasReplicate': False, 'replicate': False, 'hasLib': False, 'lib': 'liba'})
    for pr, flag in ((a, first_replicated), (b, not first_replicated)):
        e = next((r for r in C['routines'] if r['key'] == pr['name']), None)
        if e is None:
            e = L.routine_entry(pr['name'])
            e.update({'hasLib': False, 'lib': 'liba'})
            C['routines'].append(e)
        e['hasReplicate'], e['replicate'] = True, flag
        if not C['lib']:
            e['hasLib'], e['lib'] = True, 'liba'
    return C


def extras(C):
    default = {'replicate': C['replicate']}
    if C.get('lib'):
        default['lib'] = C['lib']
    routines = {}
    for r in C['routines']:
        e = {}
        if r['hasReplicate']:
            e['replicate'] = r['replicate']
        if r['hasLib']:
            e['lib'] = r['lib']
        routines[r['key']] = e
    return default, routines


def pipelines(rng, project, n):
    ks = C23.callees(project)
    out = [[]]
    cands = [[L.op_record('dep', '', '_x', rng.choice(['', '_mod']))],
             [L.op_record('wrap', '', '', '_mod'), L.op_record('dep', '', '_x', '_mod')]]
    if ks:
        k, k2 = rng.choice(ks), rng.choice(ks)
        cands += [[L.op_record('dup', k, '_d', rng.choice(['', '_dm']))], [L.op_record('rm', k2)],
                  [L.op_record('dup', k, '_d', '', True)],
                  [L.op_record('dup', k, '_d'), L.op_record('dep', '', '_x', '_mod')],
                  [L.op_record('rm', k2), L.op_record('dep', '', '_x', '')],
                  [L.op_record('dup', k, '_d'), L.op_record('rm', k2)] if k != k2 else [L.op_record('rm', k2)],
                  [L.op_record('dep', '', '_x', ''), L.op_record('rm', k2)]]     # (renaming before a name-valued removal)
    rng.shuffle(cands)
    return (out if rng.random() < 0.45 else []) + cands[:max(1, n - 1)]


def path_record(path, src_root, out, inv, base):
    """Projection of a path string of the plan file / a written file (see PlanWrite.tla)."""
    p = path if os.path.isabs(path) else os.path.join(base, path)
    p = os.path.normpath(p)
    if p in inv:
        return {'kind': 'orig', 'fid': inv[p], 'dir': '', 'stem': '', 'mode': [], 'ext': ''}
    d, name = os.path.split(p)
    parts = name.split('.')
    stem = parts[0]
    ext = '.' + parts[-1] if len(parts) > 1 else ''
    mode = '.'.join(parts[1:-1])
    if out and os.path.normpath(d) == os.path.normpath(out):
        dd = 'out'
    else:
        dd = os.path.relpath(d, src_root)
        dd = '' if dd == '.' else dd
    return {'kind': 'new', 'fid': '', 'dir': dd, 'stem': stem, 'mode': L.codes(mode), 'ext': ext}


def run_case(case, root):
    """plan and convert on two copies; returns the trace case."""
    P, C = case['P'], case['C']
    shutil.rmtree(root, ignore_errors=True)
    sufs, dirs = case['sufs'], case['dirs']
    default, routines = extras(C)
    fw = None if (not case['fw']['suffix'] and not case['fw']['mvi']) else \
        {'suffix': case['fw']['suffix'], 'include_module_var_imports': case['fw']['mvi']}
    cfg = L.cli_config(C, case['pipe'], case['mode'], fw=fw, enable_imports=True, extra_default=default, extra_routines=routines)
    res = {}
    for cmd in ('plan', 'convert'):
        base = os.path.join(root, cmd)
        src = os.path.join(base, 'src')
        out = os.path.join(base, 'out') if case['outdir'] else None
        os.makedirs(src)
        if out:
            os.makedirs(out)
        paths = L.render_project(P, src, plain=True, suffixes=sufs, subdirs={f: d for f, d in dirs.items() if d})
        inv = {os.path.normpath(p): f for f, p in paths.items()}
        before = L.tree_files(base)
        plan_file = os.path.join(root, f'{cmd}.cmake') if cmd == 'plan' else None
        cwd = os.getcwd()
        rc, exc, text = L.cli_run(cmd, cfg, case['mode'], src, root, build=out, root=src if case['rootrel'] else None, plan_file=plan_file)
        os.chdir(cwd)
        new = sorted(L.tree_files(base) - before)
        rec = lambda p, s=src, o=out, i=inv: path_record(p, s, o, i, s)   # noqa: E731
        if cmd == 'plan':
            lists = L.parse_plan(text)
            libs = sorted({k.split('LOKI_SOURCES_TO_TRANSFORM_', 1)[1] for k in lists if k.startswith('LOKI_SOURCES_TO_TRANSFORM_')})
            res['plan'] = {'transform': [rec(p) for p in lists.get('LOKI_SOURCES_TO_TRANSFORM', [])],
                           'append': [rec(p) for p in lists.get('LOKI_SOURCES_TO_APPEND', [])],
                           'remove': [rec(p) for p in lists.get('LOKI_SOURCES_TO_REMOVE', [])],
                           'libs': [{'lib': lb, 'transform': [rec(p) for p in lists.get(f'LOKI_SOURCES_TO_TRANSFORM_{lb}', [])],
                                     'append': [rec(p) for p in lists.get(f'LOKI_SOURCES_TO_APPEND_{lb}', [])],
                                     'remove': [rec(p) for p in lists.get(f'LOKI_SOURCES_TO_REMOVE_{lb}', [])]} for lb in libs],
                           'raised': exc.split(':')[0] if exc else ('no-plan-file' if not text else ''), 'detail': exc[:300],
                           'wrote': len(new)}
        else:
            res['conv'] = {'written': [rec(p) for p in new], 'raised': exc.split(':')[0] if exc else '', 'detail': exc[:300]}
    files = [{'fid': f, 'dir': dirs.get(f, ''), 'ext': sufs[f]} for f in sufs]
    return {'P': L.tla_project(P), 'C': C, 'pipe': case['pipe'], 'fw': case['fw'], 'outdir': case['outdir'], 'mode': L.codes(case['mode']),
            'files': files, 'plan': res['plan'], 'conv': res['conv']}


def make_case(rng, P, C, pipe):
    fids = list(dict.fromkeys([m['file'] for m in P['mods']] + [p['file'] for p in P['procs']]))
    return {'P': P, 'C': C, 'pipe': pipe,
            'fw': {'suffix': rng.choice(['', '', '.F90', '.f90']), 'mvi': rng.random() < 0.35},
            'outdir': rng.random() < 0.7, 'rootrel': rng.random() < 0.5, 'mode': rng.choice(MODES),
            'sufs': {f: rng.choice(['.f90', '.F90']) for f in fids}, 'dirs': {f: rng.choice(['', '', 'sub', 'src/deep']) for f in fids}}


def case_sig(case):
    from . import C25
    C = case['C']
    repl = 'mixed' if any(r['hasReplicate'] for r in C['routines']) else ('all' if C['replicate'] else 'none')
    return (f"pipe={C23.pipe_sig(case['pipe'])}:mvi={int(case['fw']['mvi'])}:sfx={case['fw']['suffix'] or 'none'}:out={int(case['outdir'])}:"
            f"root={int(case['rootrel'])}:repl={repl}:lib={int(any(r['hasLib'] for r in C['routines']) or bool(C.get('lib')))}:{C25.project_sig(case['P'], case['pipe'])}")


# validation corpus: the plan expectations of the repository tests, fed to TLC as if observed ---------------------------------
def corpus_cases():
    """loki/transformations/tests/test_dependency.py (duplicate / remove plans) and build_system/tests/test_file_write.py
    (replicate): hand-written expected lists as observations; the specification must accept them."""
    def orig(f):
        return {'kind': 'orig', 'fid': f, 'dir': '', 'stem': '', 'mode': [], 'ext': ''}

    def new(stem, mode='idem', ext='.F90', d=''):
        return {'kind': 'new', 'fid': '', 'dir': d, 'stem': stem, 'mode': L.codes(mode), 'ext': ext}

    def entry(k, **kw):
        e = L.routine_entry(k, **{a: b for a, b in kw.items() if a in ('role',)})
        e.update({'hasReplicate': 'replicate' in kw, 'replicate': kw.get('replicate', False), 'hasLib': False, 'lib': 'liba'})
        return e
    out = []
    # fcode_as_module: driver -> kernel_mod#kernel
    Pm = L.normalize_project({'mods': [{'name': 'kernel_mod', 'file': 'kernel_mod', 'vars': []}],
                              'procs': [{'name': 'driver', 'mod': '', 'file': 'driver', 'imports': [{'mod': 'kernel_mod', 'only': ['kernel']}], 'calls': ['kernel']},
                                        {'name': 'kernel', 'mod': 'kernel_mod', 'calls': []}]})
    Pn = L.normalize_project({'mods': [], 'procs': [{'name': 'driver', 'mod': '', 'file': 'driver', 'calls': ['kernel']},
                                                    {'name': 'kernel', 'mod': '', 'file': 'kernel', 'calls': []}]})
    Cd = dict(L.make_config(['driver'], routines=[entry('driver', role='driver')]), replicate=False)
    for P, kfile, dupstem in ((Pm, 'kernel_mod', 'kernel_mod_new'), (Pn, 'kernel', 'kernel_new')):
        for dupk, rmk in (('kernel', 'kernel'), ('kernel', 'kernel_new'), ('kernel', None), (None, 'kernel')):
            pipe = ([L.op_record('dup', dupk, '_new')] if dupk else []) + ([L.op_record('rm', rmk)] if rmk else [])
            keep_kernel = rmk != 'kernel'
            keep_dup = bool(dupk) and rmk != 'kernel_new'
            tr = ['driver'] + ([kfile] if keep_kernel else [])
            ap = [new('driver')] + ([new(kfile)] if keep_kernel else []) + ([new(dupstem)] if keep_dup else [])
            out.append((f'duplicate_remove_plan[{dupk},{rmk},{kfile}]',
                        {'P': L.tla_project(P), 'C': Cd, 'pipe': pipe, 'fw': {'suffix': '', 'mvi': False}, 'outdir': False, 'mode': L.codes('idem'),
                         'files': [{'fid': f, 'dir': '', 'ext': '.F90'} for f in ('driver', kfile)],
                         'plan': {'transform': [orig(f) for f in tr], 'append': ap, 'remove': [orig(f) for f in tr], 'libs': [], 'raised': '', 'detail': '', 'wrote': 0},
                         'conv': {'written': ap, 'raised': '', 'detail': ''}}))
    # test_file_write_replicate (without the conflict routine): a_mod, b_mod (module variables), c_mod#c, #d
    Pr = L.normalize_project({'mods': [{'name': 'a_mod', 'file': 'a', 'vars': ['a']}, {'name': 'b_mod', 'file': 'b', 'vars': ['b']},
                                       {'name': 'c_mod', 'file': 'c', 'vars': []}],
                              'procs': [{'name': 'c', 'mod': 'c_mod', 'imports': [{'mod': 'a_mod', 'only': ['a']}, {'mod': 'b_mod', 'only': ['b']}], 'calls': []},
                                        {'name': 'd', 'mod': '', 'file': 'd', 'imports': [{'mod': 'c_mod', 'only': ['c']}], 'calls': ['c']}]})
    Cr = dict(L.make_config(['d'], routines=[entry('b_mod', replicate=False), entry('d', role='driver', replicate=False)]), replicate=True)
    ap = [new(f, 'foobar', '.F90', 'out') for f in 'abcd']
    out.append(('file_write_replicate',
                {'P': L.tla_project(Pr), 'C': Cr, 'pipe': [], 'fw': {'suffix': '', 'mvi': True}, 'outdir': True, 'mode': L.codes('foobar'),
                 'files': [{'fid': f, 'dir': '', 'ext': '.F90'} for f in 'abcd'],
                 'plan': {'transform': [orig(f) for f in 'abcd'], 'append': ap, 'remove': [orig('b'), orig('d')], 'libs': [], 'raised': '', 'detail': '', 'wrote': 0},
                 'conv': {'written': ap, 'raised': '', 'detail': ''}}))
    return out


def run(ctx):
    quick = ctx.quick
    phases = {}
    ctx.cover['phase_wall_s'] = phases
    if not (os.environ.get('VERIF_SKIP_MC') or ctx.replay):
        ctx.mc('MC_PlanWrite', 'MC_PlanWrite', timeout=900, workers=4)
        r = ctx.tlc('MC_PlanWrite', 'MC_PlanWrite_neg', workers=2, timeout=600)
        if r.ok or not r.invariant_violated:
            raise MachineryError(f'negative control of MC_PlanWrite not rejected:\n{r.tail()}')
        ctx.cover['negative_control_rejected'] = r.invariant_violated
    phases['model_checking'] = round(ctx.elapsed(), 1)

    runs = []
    budget = time.time() + (80 if quick else 600)
    if ctx.replay:
        c = ctx.replay['case']
        c = dict(c, P=L.normalize_project(c['P']))
        runs.append((dict(c, origin='replay'), run_case(c, os.path.join(ctx.work, 'rp'))))
    else:
        for name, t in corpus_cases():
            runs.append(({'origin': f'corpus-expectation:{name}', 'pipe': t['pipe']}, t))
        ncorpus = len(runs)
        small = L.gen_small(ctx, 20 if quick else 150, 4)
        pool = [(L.normalize_project(c['P']), 'tlc') for c in small]
        legal, yield_ = L.seeded_pairs(ctx, 16 if quick else 150)
        pool += [(P, 'seeded') for P, _ in legal]
        ctx.cover['seeded_candidates_legal'] = yield_
        ctx.rng.shuffle(pool)
        for i, (P, origin) in enumerate(pool):
            if time.time() > budget and len(runs) - ncorpus >= 30:
                ctx.cover['stopped_by_budget_after_projects'] = i
                break
            if 'dup=file' in C21.signature(P, L.make_config([])):
                continue        # known C21 finding (same procedure name in two modules of one file)
            C = extended_config(ctx.rng, P, rich=i % 4 != 0)
            if C is None:
                continue
            unq = any(not im['only'] for h in P['procs'] + P['mods'] for im in h['imports'])
            # two items of one file with different replicate flags (both orders), a library configured
            for first in ((i % 2 == 0,) if quick else (True, False)):
                Cm = mixed_replicate_config(ctx.rng, P, first)
                if Cm is not None:
                    ks = C23.callees(P)
                    pipe = ctx.rng.choice([[], [], [L.op_record('rm', ctx.rng.choice(ks))], [L.op_record('dup', ctx.rng.choice(ks), '_d')]])
                    case = make_case(ctx.rng, P, Cm, pipe)
                    case['origin'] = origin + ':mixed-replicate'
                    runs.append((case, run_case(case, os.path.join(ctx.work, f'c{len(runs)}'))))
                    if not os.environ.get('VERIF_KEEP'):
                        shutil.rmtree(os.path.join(ctx.work, f'c{len(runs) - 1}'), ignore_errors=True)
            for pipe in pipelines(ctx.rng, P, 2 if quick else 3):
                if unq and any(o['op'] in ('dep', 'wrap') for o in pipe):
                    continue    # USE without ONLY is not re-pointed by DependencyTransformation (documented TODO in rename_imports)
                case = make_case(ctx.rng, P, C, pipe)
                case['origin'] = origin
                runs.append((case, run_case(case, os.path.join(ctx.work, f'c{len(runs)}'))))
                if not os.environ.get('VERIF_KEEP'):
                    shutil.rmtree(os.path.join(ctx.work, f'c{len(runs) - 1}'), ignore_errors=True)
        ctx.cover['cases'] = {'corpus_expectations': ncorpus, 'generated': len(runs) - ncorpus}
    phases['generate_and_run_loki'] = round(ctx.elapsed() - sum(phases.values()), 1)

    strip = lambda t: dict(t, plan={k: v for k, v in t['plan'].items() if k != 'detail'}, conv={k: v for k, v in t['conv'].items() if k != 'detail'})   # noqa: E731
    verdicts = ctx.validate('Trace_PlanWrite', 'Trace_PlanWrite', [strip(t) for _, t in runs], per_shard_min=30,
                            shards=4 if quick else None, extra_env={'JAVA_TOOL_OPTIONS': '-Xss256m'})
    phases['trace_validation'] = round(ctx.elapsed() - sum(phases.values()), 1)
    clauses, pipes, feats = {}, {}, {'mixed_replicate_in_one_file': 0, 'default_lib': 0, 'outdir': 0, 'no_outdir': 0, 'root': 0, 'mvi': 0, 'suffix': 0, 'replicate': 0, 'lib': 0, 'files_written': 0, 'per_lib_lists': 0}
    for i, (case, t) in enumerate(runs):
        ok, clause, nwritten = verdicts[i]
        clauses[clause] = clauses.get(clause, 0) + 1
        if case['origin'].startswith('corpus-expectation'):
            if not ok:
                raise MachineryError(f'validation corpus: the specification rejects the expectation of the repository test {case["origin"]}: clause {clause}')
            continue
        if clause == 'illegal-input':
            raise MachineryError(f'illegal input reached validation: {json.dumps(case)[:500]}')
        pipes[C23.pipe_sig(case['pipe'])] = pipes.get(C23.pipe_sig(case['pipe']), 0) + 1
        if ok and clause == 'ok':
            feats['outdir' if case['outdir'] else 'no_outdir'] += 1
            feats['root'] += case['rootrel']
            feats['mvi'] += case['fw']['mvi']
            feats['suffix'] += bool(case['fw']['suffix'])
            feats['replicate'] += case['C']['replicate'] or any(r['hasReplicate'] for r in case['C']['routines'])
            feats['lib'] += any(r['hasLib'] for r in case['C']['routines'])
            feats['default_lib'] += bool(case['C'].get('lib'))
            feats['mixed_replicate_in_one_file'] += case['origin'].endswith(':mixed-replicate')
            feats['per_lib_lists'] += bool(t['plan']['libs'])
            feats['files_written'] += nwritten
        if ok:
            continue
        detail = ''
        if clause in ('raised-plan', 'raised-convert'):
            detail = '[' + (t['plan']['raised'] or t['conv']['raised']) + ']'
        key = f'{clause}{detail}:{case_sig(case)}'
        what = (f'`loki_transform plan` vs `loki_transform convert` on the same input rejected by Trace_PlanWrite clause `{clause}`: '
                f'plan append {[(p["dir"], p["stem"]) for p in t["plan"]["append"]]} transform {[p["fid"] for p in t["plan"]["transform"]]} '
                f'remove {[p["fid"] for p in t["plan"]["remove"]]}; written {[(p["dir"], p["stem"]) for p in t["conv"]["written"]]}; '
                f'{t["plan"]["detail"][:200]} {t["conv"]["detail"][:200]}')
        ctx.violation(key, what, {k: v for k, v in case.items() if k != 'origin'})
    ctx.cover['clauses'] = clauses
    ctx.cover['pipelines'] = pipes
    ctx.cover['accepted_cases_by_feature'] = feats
    for idx in (len(runs) // 3, len(runs) // 2, len(runs) - 1):
        case, t = runs[idx]
        ctx.sample({'origin': case['origin'], 'pipe': C23.pipe_sig(case['pipe']), 'append': [(p['dir'], p['stem'], p['ext']) for p in t['plan']['append']][:6],
                    'remove': [p['fid'] for p in t['plan']['remove']][:6]})
    ctx.assumptions += [
        'projects: the modelled fragment of C21 without its known finding (one procedure name in two modules of one file); '
        'configurations: seeds = roots of the call graph marked seed_routine (the CLI has no seed option), roles, default and '
        'per-routine replicate, lib, mode; no pruning lists',
        'pipelines: none, dup, dup with subgraph, rm, dep, wrap+dep, dup+dep, dup+rm, rm+dep, dep+rm, always followed by the CLI\'s '
        'FileWriteTransformation (default or configured with suffix / include_module_var_imports); build directory given or not, '
        '--root given or not, modes idem / foo-bar / x1',
        'a written file derives from the project file whose stem, directory (or the build directory), mode and suffix it carries; a '
        'file created by duplication derives from the file of the duplicated unit and does not make that original a source to '
        'transform (expectation of test_dependency_duplicate_remove_plan, part of the validation corpus)',
        'an original is replicated iff a selected item (procedure; with include_module_var_imports also module; not ignored) in it '
        'has replicate (test_file_write_replicate, validation corpus); clones get the default configuration',
        'cases where both entry points raise are not cases of this property; plan runs without a full parse, convert with (as the CLI does)',
        'TLC and the TLA+ modules are trusted; python renders, runs the CLI, parses the plan file, lists the new files and splits paths',
    ]


def selftest(ctx):
    name, base = corpus_cases()[2]
    cases, expect = [base], ['ok']
    for what in ('drop-append', 'extra-written', 'drop-remove', 'extra-transform', 'dup-append'):
        c = json.loads(json.dumps(base))
        if what == 'drop-append':
            c['plan']['append'].pop()
        elif what == 'extra-written':
            c['conv']['written'].append(dict(c['conv']['written'][0], stem='ghost'))
            c['plan']['append'].append(dict(c['conv']['written'][0], stem='ghost'))
        elif what == 'drop-remove':
            c['plan']['remove'].pop()
        elif what == 'extra-transform':
            c['plan']['transform'].append({'kind': 'orig', 'fid': 'nowhere', 'dir': '', 'stem': '', 'mode': [], 'ext': ''})
        elif what == 'dup-append':
            c['plan']['append'].append(c['plan']['append'][0])
        cases.append(c)
        expect.append('reject')
    verdicts = ctx.validate('Trace_PlanWrite', 'Trace_PlanWrite', cases, extra_env={'JAVA_TOOL_OPTIONS': '-Xss256m'})
    bad = [(i, verdicts[i]) for i in range(len(cases)) if verdicts[i][0] != (expect[i] == 'ok')]
    if bad:
        print(f'SELFTEST-FAILED C24: {bad[:6]}')
        return 2
    print(f'SELFTEST-OK C24 ({name}): {expect.count("ok")} accepted, {expect.count("reject")} corrupted copies rejected '
          f'({sorted({verdicts[i][1] for i in range(len(cases)) if expect[i] == "reject"})})')
    return 0
