"""C30 Array-notation resolution and index normalisation preserve behaviour.

spec: FMachine (array assignment: the right-hand side is evaluated for every element from the OLD state before
      any element is stored - FMachine.Assign) + Trace_FMachine: stdout of the gfortran build of the TRANSFORMED
      kernel module must equal Run(original program, input).out as evaluated by TLC.
impl: loki.transformations.array_indexing - resolve_vector_notation (option sets), add/remove_explicit_array_
      dimensions, normalize_range_indexing, normalize_array_shape_and_access, flatten_arrays(order='F') after
      the two steps that precede it in the transpilation pipeline.
      NOT executed here: shift_to_zero_indexing, invert_array_indices and flatten_arrays(order='C',
      start_index=0): they produce indices that are only meaningful in the C / Python backends (zero based, row
      major, declarations left untouched) - their output is not a Fortran program with the same meaning by
      design, so it cannot be observed through gfortran; they are observed through the C backend in C35.
Every program belongs to one population (family of section forms + code class, lib_fm_sanitise.SecGen) and one
option set; violation keys are  sec:<option>:<population>:<form descriptor>:<failure signature>.
"""
import os
import time

from .. import lib_fm as F
from .. import lib_fm_sanitise as S

OPT_DOC = {
    'vec': 'resolve_vector_notation(r)',
    'vecF': 'resolve_vector_notation(r, resolve_implicit_rhs_ranges=False)',
    'vecC': 'resolve_vector_notation(r, insert_comments=True)',
    'add': 'add_explicit_array_dimensions(r)',
    'rem': 'remove_explicit_array_dimensions(r)',
    'remc': 'remove_explicit_array_dimensions(r, calls_only=True)',
    'addrem': 'add_explicit_array_dimensions(r); remove_explicit_array_dimensions(r)',
    'nri': 'normalize_range_indexing(r)',
    'nasa': 'normalize_array_shape_and_access(r)',
    'vecnasa': 'resolve_vector_notation(r); normalize_array_shape_and_access(r)',
    'flat': "resolve_vector_notation(r); normalize_array_shape_and_access(r); flatten_arrays(r, order='F', start_index=1)",
}
WEIGHT = {'vec': 3, 'nasa': 2, 'flat': 2}
POPS = {fam: dict(family=fam) for fam in S.SecGen.FAMILIES}
POPS.update({
    'print': dict(family='disjoint', print_elems=True),       # PRINT mentions array elements
    'nested': dict(family='disjoint', nested_subs=True),      # subscripts mention array elements
    'loopmatch': dict(family='disjoint', loopmatch=True),     # section inside a DO loop with the same bounds
})
FEATURES = ('call', 'select', 'exitcycle', 'while')

FRONTEND_RAISED = {}     # signature -> first source text


def apply_opt(r, opt):
    from loki.transformations import array_indexing as A
    if opt == 'vec':
        A.resolve_vector_notation(r)
    elif opt == 'vecF':
        A.resolve_vector_notation(r, resolve_implicit_rhs_ranges=False)
    elif opt == 'vecC':
        A.resolve_vector_notation(r, insert_comments=True)
    elif opt == 'add':
        A.add_explicit_array_dimensions(r)
    elif opt == 'rem':
        A.remove_explicit_array_dimensions(r)
    elif opt == 'remc':
        A.remove_explicit_array_dimensions(r, calls_only=True)
    elif opt == 'addrem':
        A.add_explicit_array_dimensions(r)
        A.remove_explicit_array_dimensions(r)
    elif opt == 'nri':
        A.normalize_range_indexing(r)
    elif opt == 'nasa':
        A.normalize_array_shape_and_access(r)
    elif opt == 'vecnasa':
        A.resolve_vector_notation(r)
        A.normalize_array_shape_and_access(r)
    elif opt == 'flat':
        A.resolve_vector_notation(r)
        A.normalize_array_shape_and_access(r)
        A.flatten_arrays(r, order='F', start_index=1)
    else:
        raise F.MachineryError(f'unknown option set {opt}')


def transform(text, prog, workdir):
    from loki import Sourcefile
    try:
        src = Sourcefile.from_source(text)
    except Exception as ex:  # pylint: disable=broad-except
        # a frontend failure is not a statement about the transformation (C01/C02 territory): counted, not judged
        sig = F.failure_signature('frontend-raised', f'{type(ex).__name__}: {ex}')
        FRONTEND_RAISED.setdefault(sig, text)
        raise F.NotApplicable(sig) from ex
    for r in src.all_subroutines:
        apply_opt(r, prog['opt'])
    return [('kmod.f90', src.to_fortran())]


def gen_cases(ctx, n):
    cells = [(o, p) for o in OPT_DOC for p in POPS for _ in range(WEIGHT.get(o, 1))]
    if os.environ.get('VERIF_POPS'):      # development only: restrict the populations / options
        cells = [c for c in cells if c[1] in os.environ['VERIF_POPS'].split(',')]
    if os.environ.get('VERIF_OPTS'):
        cells = [c for c in cells if c[0] in os.environ['VERIF_OPTS'].split(',')]
    ctx.rng.shuffle(cells)
    cases = []
    for i in range(n):
        opt, pop = cells[i % len(cells)]
        for _ in range(50):
            g = S.SecGen(ctx.rng, FEATURES, form=ctx.rng.randrange(64), **POPS[pop])
            prog = g.program(nstmts=ctx.rng.randint(3, 6), depth=2)
            if pop == 'loopmatch' or not S.nested_loop_match(prog):
                break
        prog['opt'], prog['pop'] = opt, pop
        cases.append((prog, g.inputs(prog, 3)))
    return cases


def run(ctx):
    dev = int(os.environ.get('VERIF_CASES', '0') or 0)     # development only: fewer cases
    if ctx.replay:
        c = ctx.replay['case']
        cases = [(c['prog'], c['inputs'])]
    else:
        ctx.mc('MC_SecLoop', 'MC_SecLoop', workers=4, timeout=900, coverage=False)    # design level, see the module header
        ncell = sum(WEIGHT.get(o, 1) for o in OPT_DOC) * len(POPS)
        cases = gen_cases(ctx, dev or (ncell if ctx.quick else 12 * ncell))
    results, fails, legal = F.behaviour_check(ctx, 'sec', cases, transform)
    cells = {}
    for f in fails:
        prog = cases[f[0]][0]
        cells.setdefault((prog['opt'], prog['pop'], prog['form']), []).append(f)
    recheck = None if ctx.quick and not ctx.replay else F.make_recheck(ctx, transform)
    deadline = time.time() + 420
    for (opt, pop, form), fl in sorted(cells.items()):
        S.report(ctx, f'sec:{opt}:{pop}:{form}', cases, results, fl, recheck, deadline)
    per_cell = {}
    for r in results:
        prog = cases[r['idx']][0]
        if r['idx'] in legal:
            key = f"{prog['opt']}/{prog['pop']}"
            per_cell[key] = per_cell.get(key, 0) + 1
    ctx.cover['programs_with_legal_inputs'] = len(legal)
    ctx.cover['programs_per_option_and_population'] = per_cell
    ctx.cover['forms_exercised'] = sorted({cases[i][0]['pop'] + ':' + cases[i][0]['form'] for i in legal})
    ctx.cover['options'] = OPT_DOC
    ctx.cover['frontend_raised_not_judged'] = {k: v[:1500] for k, v in FRONTEND_RAISED.items()}
    if results:
        ctx.sample({'program': results[0]['text'], 'option': cases[0][0].get('opt'), 'inputs': cases[0][1][:1]})
    ctx.assumptions += [
        'MiniFortran subset (see C01) with arrays ia(0:4), ic(2:6) local, ib(1:3,-1:1), ra(1:4): section assignments that are '
        'disjoint / overlapping (shifts both ways, reversal, scalar element of the target, 2-d, row<-column) / with differing or '
        'negative strides / whole-array and `:` / one-sided bounds / zero-size and variable bounds / arguments of elemental intrinsics',
        'WHERE (masked assignment) is not generated: FMachine has no WHERE statement yet',
        'shift_to_zero_indexing, invert_array_indices, flatten_arrays(order=C): not executable as Fortran (C/Python backend '
        'conventions); left to C35. flatten_arrays(order=F) is run after resolve_vector_notation and '
        'normalize_array_shape_and_access, as in the transpilation pipeline',
        'normalize_array_shape_and_access / flatten_arrays change the declared bounds / rank of the dummies: the harness-owned '
        'driver keeps passing the original arrays (same size, sequence association)',
    ]
