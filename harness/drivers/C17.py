"""C17 Cloning a program unit yields an independent, correctly scoped copy.

spec: CloneAlias.tla (heap model of a unit and its clone; View = what is projected from the real objects;
      invariants CloneFaithful / SymbolsResolveInOwnChain / ParentScopeOfOriginalUnchanged, action
      properties OtherCopyUnchanged / EffectOnTarget), MC_CloneAlias (all histories up to the depth
      bound + 7 design mutants that must be rejected), Gen_CloneAlias (TLC enumerates / samples
      histories), Trace_CloneAlias (histories replayed on REAL units validated step by step).
Real objects: Subroutine (with internal procedures), internal procedure (parent = routine), function,
      Module (derived type, procedures, imports), module procedure (parent = module), Sourcefile.
"""
import concurrent.futures as cf
import json
import os
import random

from ..core import MachineryError, NCPU
from .. import lib_units as L

MUTS = ['MutShareBody', 'MutShareSpec', 'MutShareTab', 'MutShareMembers', 'MutNoRescope', 'MutStaleProcs',
        'MutRegisterInParent', 'MutShareNest']
# design mutant -> the property that must reject it
MUT_EXPECT = {
    'MutShareBody': ('PROPERTY', 'OtherCopyUnchanged'),
    'MutShareSpec': ('PROPERTY', 'OtherCopyUnchanged'),
    'MutShareTab': ('PROPERTY', 'OtherCopyUnchanged'),
    'MutShareMembers': ('PROPERTY', 'OtherCopyUnchanged'),
    'MutNoRescope': ('INVARIANT', 'SymbolsResolveInOwnChain'),
    'MutStaleProcs': ('INVARIANT', 'SymbolsResolveInOwnChain'),
    'MutRegisterInParent': ('INVARIANT', 'ParentScopeOfOriginalUnchanged'),
    'MutShareNest': ('PROPERTY', 'OtherCopyUnchanged'),
}


def _consts(mut=None, **kw):
    lines = [f'CONSTANT {m} = {"TRUE" if m == mut else "FALSE"}' for m in MUTS]
    lines += [f'CONSTANT {k} = {v}' for k, v in kw.items()]
    return '\n'.join(lines) + '\n'


def _write(path, text):
    with open(path, 'w') as fh:
        fh.write(text)
    return path


def replay(fx, events):
    """Replay one history on fresh real objects; returns the case for Trace_CloneAlias."""
    o, parent = L.build(fx)
    tok = L.Tokens(o)
    oname = o.focus.name
    case = {'kind': fx['kind'], 'parented': parent is not None,
            'init': {'o': L.project(o, None, parent, tok), 'par': L.project_parent(parent, o, None, tok, oname)}}
    c = None
    out = []
    for e in events:
        e = {k: e[k] for k in ('op', 'k', 'a1', 'a2', 'how')}
        if e['op'] == 'clone':
            c = L.do_clone(o, e['a1'])
        else:
            L.apply_op(o if e['k'] == 'o' else c, e)
        vo = L.project(o, c, parent, tok)
        vc = L.project(c, o, parent, tok) if c is not None else vo
        e['after'] = {'o': vo, 'c': vc, 'par': L.project_parent(parent, o, c, tok, oname)}
        out.append(e)
    case['events'] = out
    return case


def _replay_chunk(chunk):
    os.chdir(os.environ.get('VERIF_CWD', os.getcwd()))
    res = []
    for fx, events in chunk:
        try:
            res.append(replay(fx, events))
        except Exception as ex:  # pylint: disable=broad-except
            import traceback
            res.append({'error': f'{type(ex).__name__}: {ex}', 'tb': traceback.format_exc(), 'fx': fx, 'events': events})
    return res


def _noop(_):
    return os.getpid()


def make_pool(workers):
    """Worker processes are forked (with loki already imported) BEFORE any TLC thread is started."""
    import loki  # noqa: F401  pylint: disable=unused-import,import-outside-toplevel
    L.other_module()
    pool = cf.ProcessPoolExecutor(max_workers=workers)
    list(pool.map(_noop, range(workers * 2)))
    return pool


def replay_all(tasks, pool, workers):
    if len(tasks) < 40 or pool is None:
        return _replay_chunk(tasks)
    n = workers * 4
    chunks = [tasks[i::n] for i in range(n)]
    out = [None] * len(tasks)
    for ci, res in enumerate(pool.map(_replay_chunk, chunks)):
        for j, r in enumerate(res):
            out[ci + j * n] = r
    return out


def gen_histories(ctx, depth, preops, sampled, num=None, seed=0):
    cfg = _write(os.path.join(ctx.work, f'Gen_CloneAlias_{depth}_{preops}_{int(sampled)}.cfg'),
                 'SPECIFICATION GSpec\n' + _consts(MaxDepth=99, GenDepth=depth, PreOps=preops,
                                                   Sampled='TRUE' if sampled else 'FALSE') + 'CHECK_DEADLOCK FALSE\n')
    if sampled:
        r = ctx.tlc('Gen_CloneAlias', cfg, simulate=f'num={num}', depth=depth + 1, seed=seed, timeout=600)
    else:
        r = ctx.tlc('Gen_CloneAlias', cfg, timeout=900)
    hs = [json.loads(v[1]) for v in r.prints('HISTORY')]
    if not hs or (sampled and len(hs) < 0.9 * num):
        raise MachineryError(f'Gen_CloneAlias produced {len(hs)} histories\n{r.tail()}')
    return hs


CLASS = {'O': 'OriginalUnchangedByClone', 'C': 'CloneFaithful', 'E': 'Effect', 'U': 'OtherCopyUnchanged',
         'S': 'SymbolsResolveInOwnChain', 'P': 'ParentScopeOfOriginalUnchanged'}
DETAIL = {'na': 'name', 'de': 'decl', 'ta': 'tab', 'oc': 'occ', 'mo': 'mocc', 'bo': 'body', 'sp': 'spec', 'me': 'members',
          'tx': 'text', 'id': 'identities', 'ow': 'owners', 'mp': 'memparent', 'mt': 'memtab', 'ca': 'calls', 'td': 'tdef',
          'nt': 'ntab', 'nc': 'nocc', 'np': 'nparent', 'no': 'nown'}


def expand(clause):
    """Trace_CloneAlias abbreviates clause names (TLC wraps long tuples); the long names are used in keys/reports."""
    parts = clause.split(':')
    return ':'.join([CLASS.get(parts[0], parts[0])] + [DETAIL.get(p, p) for p in parts[1:]])


def key_of(clause, op):
    return f'{clause}@{op}'


def run(ctx):
    quick = ctx.quick
    import sys
    import time
    t0 = time.time()

    def _t(tag):
        if os.environ.get('VERIF_DEBUG'):
            print(f'[C17] {tag} {time.time() - t0:.1f}s', file=sys.stderr)
    os.environ['VERIF_CWD'] = ctx.work

    # 1. design-level model checking (the specification; every design mutant must be rejected) and
    # 2. history generation by TLC -- independent TLC runs, started together
    def main_mc():
        cfg = _write(os.path.join(ctx.work, 'MC_CloneAlias_run.cfg'),
                     'SPECIFICATION Spec\n' + _consts(MaxDepth=4 if quick else 6) +
                     'INVARIANT TypeOK\nINVARIANT CloneFaithful\nINVARIANT SymbolsResolveInOwnChain\n'
                     'INVARIANT ParentScopeOfOriginalUnchanged\nPROPERTY OtherCopyUnchanged\nPROPERTY EffectOnTarget\n'
                     'CHECK_DEADLOCK FALSE\n')
        return ctx.mc('MC_CloneAlias', cfg, timeout=1500, workers=4 if quick else NCPU)

    def mutant(m):
        kind, prop = MUT_EXPECT[m]
        mcfg = _write(os.path.join(ctx.work, f'MC_CloneAlias_{m}.cfg'),
                      'SPECIFICATION Spec\n' + _consts(mut=m, MaxDepth=4) + f'{kind} {prop}\nCHECK_DEADLOCK FALSE\n')
        r = ctx.tlc('MC_CloneAlias', mcfg, timeout=600, workers=1)
        if r.invariant_violated != prop:
            raise MachineryError(f'design mutant {m} was not rejected by {prop} (got {r.invariant_violated})\n{r.tail(20)}')
        return m

    muts = ['MutShareNest', 'MutNoRescope', 'MutRegisterInParent'] if quick else MUTS
    workers = min(NCPU, 8 if quick else 14)
    pool = None if ctx.replay else make_pool(workers)
    try:
        with cf.ThreadPoolExecutor(max_workers=12) as ex:
            f_exh = f_smp = None
            if ctx.replay:
                c = ctx.replay['case']
                tasks = [(c['fx'], c['events'])]
            else:
                # every history of <= 3 events with the clone first or second (one modification of the original before it)
                f_exh = ex.submit(gen_histories, ctx, 3, 1, False)
                f_smp = None if quick else ex.submit(gen_histories, ctx, 5, 1, True, 4000, ctx.seed + 5)
            futs = [ex.submit(main_mc)] + [ex.submit(mutant, m) for m in muts]
            if not ctx.replay:
                exh = f_exh.result()
                smp = f_smp.result() if f_smp else []
                rng = random.Random(ctx.seed * 7919 + 17)
                short = [h for h in exh if len(h) <= 2 and h[0]['op'] == 'clone']     # clone + at most one modification
                rest = [h for h in exh if not (len(h) <= 2 and h[0]['op'] == 'clone')]
                rng.shuffle(rest)
                tasks = []
                for kind in L.KINDS:
                    fx = L.gen_fixture(kind, rng)
                    tasks += [(fx, h) for h in short]
                # longer histories: quick = a seeded subset on fresh random fixtures; thorough = all, kinds rotating
                pick = rest[:150] if quick else rest
                for i, h in enumerate(pick + smp):
                    for kind in ([L.KINDS[i % 6]] if quick or i >= len(pick) else [L.KINDS[i % 6], L.KINDS[(i + 3) % 6]]):
                        tasks.append((L.gen_fixture(kind, rng), h))
                # Sourcefile.clone has no name override
                tasks = [(fx, h) for fx, h in tasks
                         if not (fx['kind'] == 'file' and any(e['op'] == 'clone' and e['a1'] for e in h))]
                ctx.cover['histories_from_tlc_exhaustive_len<=3'] = len(exh)
                ctx.cover['histories_from_tlc_sampled_len5'] = len(smp)
            _t('generated')
            # 3. replay on the real objects (parallel processes; each history parses its own fresh units),
            #    while the model-checking runs are still going
            cases = replay_all(tasks, pool, workers)
            for f in futs:
                f.result()
            ctx.cover['design_mutants_rejected'] = len(muts)
    finally:
        if pool is not None:
            pool.shutdown(wait=True, cancel_futures=True)
    for c in cases:
        if 'error' in c:
            raise MachineryError(f"replay failed: {c['error']}\n{c['tb']}\nevents={c['events']}\n{c['fx']['main']}")
    _t('replayed')
    # 4. TLC validates every step of every history
    seen_ops = set()
    nsteps = 0
    for c in cases:
        for e in c['events']:
            seen_ops.add((c['kind'], e['op'], e['k'], e['how']))
            nsteps += 1
    verdicts = ctx.validate('Trace_CloneAlias', 'Trace_CloneAlias', cases, timeout=1500,
                            shards=max(1, min(4 if quick else 14, len(cases) // 100)))
    nviol = 0
    for i, c in enumerate(cases):
        ok, clauses, pos = verdicts[i]
        if ok:
            continue
        if clauses.startswith('Fixture:') or clauses.startswith('Machinery:'):
            raise MachineryError(f'{clauses} at step {pos}: events={tasks[i][1]}\n{tasks[i][0]["main"]}')
        for item in [x for x in clauses.split(';') if x]:
            clause, _, step = item.rpartition('@')
            clause = expand(clause)
            step = int(step)
            ev = c['events'][step - 1]
            nviol += 1
            ctx.violation(key_of(clause, ev['op']),
                          f"kind={c['kind']} step {step} {ev['op']}({ev['k']},{ev['a1']},{ev['a2']},{ev['how']}): clause {clause} "
                          f"violated; observed o={_brief(ev['after']['o'])} c={_brief(ev['after']['c'])} parent={ev['after']['par']}",
                          {'fx': tasks[i][0], 'events': [{k: e[k] for k in ('op', 'k', 'a1', 'a2', 'how')} for e in c['events'][:step]]})
    _t('validated')
    ctx.cover['histories_replayed'] = len(cases)
    ctx.cover['steps_validated'] = nsteps
    ctx.cover['distinct_kind_op_target_how'] = len(seen_ops)
    ctx.cover['clause_violations'] = nviol
    ctx.sample({'kind': cases[0]['kind'], 'events': [{k: e[k] for k in ('op', 'k', 'a1', 'a2', 'how')} for e in cases[0]['events']],
                'after_last': cases[0]['events'][-1]['after']})
    ctx.sample({'kind': cases[-1]['kind'], 'events': [{k: e[k] for k in ('op', 'k', 'a1', 'a2', 'how')} for e in cases[-1]['events']]})
    ctx.assumptions += [
        'units: generated subroutine with internal procedures, internal procedure, function (result clause), module with '
        'derived type/procedures/imports, module procedure, Sourcefile (module + subroutine); tracked variables v1, v2',
        'modifications: rename (name attribute), re-type (symbol table / variables setter), body edits (append, prepend, '
        'Transformer replace, in-place node update), spec edits (new declaration, new node), symbol-table entry, new member',
        'Sourcefile.clone has no name override: histories with a renaming clone are not replayed on the file kind',
        'quick: every history clone+<=1 modification on all 6 unit kinds, 150 seeded longer TLC histories; thorough: all '
        'TLC histories of <= 3 events (clone first or second) on 2 kinds each + 4000 sampled histories of 5 events',
        'violated identity clauses are recorded and the history is validated further; a violated content clause ends it',
        'TLC and CloneAlias.tla are trusted; python only drives Loki and projects identities/types/text hashes',
    ]


def _brief(v):
    return {k: v[k] for k in ('name', 'tab', 'body', 'members', 'owners', 'memparent', 'memtab', 'calls', 'tdef', 'ntab', 'nparent', 'nown')}


def selftest(ctx):
    """Binding check of the trace validation: an honest case is accepted, corrupted recordings are rejected."""
    import copy
    rng = random.Random(1)
    fx = L.gen_fixture('func', rng, nested=False)
    ev = [{'op': 'clone', 'k': 'c', 'a1': '', 'a2': '', 'how': ''},
          {'op': 'editbody', 'k': 'c', 'a1': 'e1', 'a2': '', 'how': 'append'},
          {'op': 'retype', 'k': 'o', 'a1': 'v1', 'a2': 'real', 'how': 'symtab'}]
    good = replay(fx, ev)
    bad1 = copy.deepcopy(good)
    bad1['events'][1]['after']['o']['body'].append('e1')        # the edit of the clone leaks into the original
    bad2 = copy.deepcopy(good)
    bad2['events'][2]['after']['c']['occ']['v1'] = ['real']     # the clone's symbols resolve through the original
    bad3 = copy.deepcopy(good)
    bad3['events'][0]['after']['c']['owners'] = ['other', 'self']
    bad4 = copy.deepcopy(good)
    bad4['events'][0]['after']['c']['text'] = 'deadbeef0000'
    # nested scopes: the re-typing of a component in the clone shows up in the original's nested table
    nfx = L.gen_fixture('sub', rng)
    nev = [ev[0], {'op': 'nretype', 'k': 'c', 'a1': 'n1', 'a2': 'real', 'how': 'as'}]
    bad5 = replay(nfx, nev)
    bad5['events'][1]['after']['o']['ntab']['as']['n1'] = 'real'
    bad6 = replay(nfx, nev)
    bad6['events'][0]['after']['o']['nparent'] = ['other', 'self']
    v = ctx.validate('Trace_CloneAlias', 'Trace_CloneAlias', [good, bad1, bad2, bad3, bad4, bad5, bad6])
    want = [(True, 'ok'), (False, 'U:bo@2;'), (False, 'U:oc@3;'), (False, 'S:c:ow@1;'), (False, 'C:tx@1;'),
            (False, 'S:c:td@1;U:nt@2;'), (False, 'O:id@1;')]
    got = [(v[i][0], v[i][1]) for i in range(7)]
    print('selftest C17', 'PASS' if got == want else f'FAIL {got}')
    return 0 if got == want else 2
