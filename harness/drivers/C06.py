"""C06 Printed expressions denote the expression tree they were printed from.

spec: ExprUniverse (TLC enumerates every tree of operator depth <= 2 over the alphabet, incl. the
      programmatic shapes parsing never produces), FExpr (Fortran value semantics), FParse (reference
      parser of the emitted tokens), Trace_ExprEquiv (acceptance: printed text, re-read by the reference
      parser, has the tree's value on every sampled valuation, integer and real typing).
code: fgen(expr) of real Loki expression nodes built from each tree; also trees produced by
      SubstituteExpressions.  Pre-flight: gfortran evaluates a sample of the printed texts and must agree
      with FParse+FExpr (otherwise machinery error).
"""
import json
import os
import subprocess

from .. import lib_expr as X
from ..core import MachineryError


def universe(ctx):
    out = os.path.join(ctx.work, 'universe.json')
    r = ctx.tlc('ExprUniverse', 'ExprUniverse', env={'OUT': out}, timeout=600)
    if not r.ok or not os.path.exists(out):
        raise MachineryError('ExprUniverse enumeration failed\n' + r.tail())
    with open(out) as fh:
        trees = json.load(fh)
    ctx.mc_runs.append(dict(module='ExprUniverse', cfg='ExprUniverse', states=len(trees), transitions=len(trees),
                            depth=2, action_counts={}, wall_s=round(r.wall, 2), note='set enumeration of the tree universe'))
    return trees


def fortran_text(tree, typing='int'):
    from loki.backend import fgen
    return fgen(X.build(tree, typing))


def make_case(tree, text):
    return {'typings': ['int', 'real'], 'ref': {'form': 'tree', 'tree': tree, 'toks': []},
            'obs': {'form': 'toks', 'toks': X.lex(text), 'tree': {'k': 'int', 'v': 0}}}


def preflight_gfortran(ctx, pairs):
    """Reality check of FParse+FExpr: gfortran evaluates printed texts on a few integer valuations; TLC
    must predict the same numbers from the *tokens*. Disagreement => machinery error, never a violation."""
    envs = [(-3, 2, 5), (5, -3, 2), (2, 5, -1), (-1, -3, 2)]
    lines = ['program p', 'implicit none', 'integer :: a, b, c']
    for (a, b, c) in envs:
        lines.append(f'a = {a}; b = {b}; c = {c}')
        for _, text in pairs:
            lines.append(f'print *, {text}')
    lines.append('end program p')
    src = os.path.join(ctx.work, 'pre.f90')
    with open(src, 'w') as fh:
        fh.write('\n'.join(lines) + '\n')
    exe = os.path.join(ctx.work, 'pre.x')
    p = subprocess.run(['gfortran', '-O0', '-w', '-ffree-line-length-none', '-o', exe, src], capture_output=True, text=True, timeout=300)
    if p.returncode != 0:
        raise MachineryError('pre-flight program does not compile:\n' + p.stderr[:2000])
    q = subprocess.run([exe], capture_output=True, text=True, timeout=60)
    if q.returncode != 0:
        raise MachineryError('pre-flight program failed at run time: ' + q.stderr[:500])
    vals = [int(x) for x in q.stdout.split()]
    if len(vals) != len(envs) * len(pairs):
        raise MachineryError('pre-flight output size mismatch')
    cases = []
    i = 0
    for (a, b, c) in envs:
        for _, text in pairs:
            cases.append({'toks': X.lex(text), 'a': a, 'b': b, 'c': c, 'expect': vals[i]})
            i += 1
    verdicts = ctx.validate('Trace_ExprPreflight', 'Trace_ExprEquiv', cases)
    bad = [(cases[i], v) for i, v in verdicts.items() if not v[0]]
    if bad:
        raise MachineryError(f'oracle disagreement: FParse/FExpr vs gfortran on {len(bad)} of {len(cases)} '
                             f'evaluations, e.g. {bad[0][1]} for tokens {[t["s"] for t in bad[0][0]["toks"]]} env {bad[0][0]["a"], bad[0][0]["b"], bad[0][0]["c"]}')
    ctx.cover['preflight_gfortran_evaluations'] = len(cases)


def key_of(tree, text, still_fails):
    small = X.shrink(tree, still_fails)
    return 'fgen:' + X.shape(small), small


def run(ctx):
    from loki.backend import fgen  # noqa: F401  (import check)
    trees = universe(ctx)
    rng = ctx.rng
    if ctx.replay:
        trees = [ctx.replay['case']['tree']]
        deep = []
    else:
        if ctx.quick:
            # quick: every depth<=1 tree, every depth-2 tree containing quot/pow/neg at the root or directly below
            # (the shapes where precedence matters), sampled to a budget
            rng.shuffle(trees)
            small = [t for t in trees if X.size(t) <= 4 or (t['k'] == 'prod' and t['c'][0].get('raw'))]
            ids = {id(t) for t in small}
            trees = small + [t for t in trees if id(t) not in ids][:3000 - min(len(small), 1500)]
        deep = [X.random_tree(rng, 4, [X.V('a'), X.V('b'), X.V('c'), X.N(2), X.N(3)]) for _ in range(400 if ctx.quick else 20000)]
        deep += [X.random_logical(rng, 2, [X.V('a'), X.V('b'), X.N(2)]) for _ in range(150 if ctx.quick else 5000)]
    cases, meta = [], []
    skipped = 0
    for t in trees + deep:
        try:
            text = fortran_text(t)
            cases.append(make_case(t, text))
            meta.append((t, text))
        except X.Unsupported:
            skipped += 1
    # C backend: the same trees printed by cgen and read back under C semantics (token mapping in lib_expr.clex)
    from loki.backend import cgen

    def has_var(t):
        return t['k'] == 'var' or any(has_var(c) for c in t.get('c', []))

    def c_typings(t):
        """pow(x, y) is double in C: integer-typed powers are a documented difference of the target language,
        so trees with powers are compared under the real typing only, and literal-only powers not at all."""
        pows = [sub for _, sub in X.subtrees(t) if sub['k'] == 'pow']
        if any(not has_var(pw['c'][0]) and not has_var(pw['c'][1]) for pw in pows):
            return []
        return ['real'] if pows else ['int', 'real']
    nc = 0
    if not ctx.replay or ctx.replay['case'].get('backend') == 'c':
        ctrees = (trees[::6] + deep[::4]) if not ctx.replay else trees
        for t in ctrees:
            tys = c_typings(t)
            if not tys:
                continue
            try:
                text = cgen(X.build(t, tys[0]))
                cases.append({'typings': tys, 'ref': {'form': 'tree', 'tree': t, 'toks': []},
                              'obs': {'form': 'toks', 'toks': X.clex(text), 'tree': X.N(0)}})
                meta.append((t, 'C:' + text))
                nc += 1
            except X.Unsupported:
                skipped += 1
    ctx.cover['c_backend_cases'] = nc
    # trees produced by substitution: x -> subtree inside a host expression
    if not ctx.replay:
        from loki.ir import SubstituteExpressions
        from loki.ir import nodes as ir
        nsub = 150 if ctx.quick else 5000
        for _ in range(nsub):
            host = X.random_tree(rng, 2, [X.V('a'), X.V('b'), X.N(2)])
            repl = X.random_tree(rng, 2, [X.V('b'), X.V('c'), X.N(3)], ops=('sum', 'prod', 'quot', 'pow', 'neg'))
            hv = X.build(host)
            a = X.build(X.V('a'))
            assign = ir.Assignment(lhs=X.build(X.V('c')), rhs=hv)
            new = SubstituteExpressions({a: X.build(repl)}).visit(assign)
            try:
                tree = X.export(new.rhs)
                text = fgen(new.rhs)
                # reference = host with a replaced by repl, as a tree (what substitution means)
                def subst(t):
                    if t['k'] == 'var' and t['name'] == 'a':
                        return repl
                    if 'c' in t:
                        return dict(t, c=[subst(c) for c in t['c']])
                    return t
                ref = subst(host)
                cases.append({'typings': ['int', 'real'], 'ref': {'form': 'tree', 'tree': ref, 'toks': []},
                              'obs': {'form': 'toks', 'toks': X.lex(text), 'tree': X.N(0)}})
                meta.append((tree, text))
            except X.Unsupported:
                skipped += 1
    # pre-flight on a sample of integer-valued, division-free-of-zero texts
    sample = [(t, s) for t, s in meta[:4000] if not s.startswith('C:') and X.size(t) <= 7 and 'cmp' not in X.shape(t) and 'pow' not in X.shape(t)
              and 'quot' not in X.shape(t)]
    rng.shuffle(sample)
    if not ctx.replay:
        preflight_gfortran(ctx, sample[:60])
    verdicts = ctx.validate('Trace_ExprEquiv', 'Trace_ExprEquiv', cases, timeout=1800)
    nontrivial = set()
    vac = ext = 0
    fails = []
    for i, (t, text) in enumerate(meta):
        ok, clause, n = verdicts[i]
        if clause == 'vacuous':
            vac += 1
        elif ok:
            nontrivial.add(text)
            if clause == 'ok-gnu-ext':
                ext += 1
        if not ok:
            fails.append((t, text, clause))
    # normal forms: shrink each failing tree with a re-validation oracle (batched per round would be faster;
    # failing cases are few distinct shapes so we group by abstract shape first)
    by_shape = {}
    for t, text, clause in fails:
        if text.startswith('C:'):
            ctx.violation('cgen:' + X.shape1(t), f'cgen({X.show(t)}) = {text[2:]!r} does not denote the tree under C semantics: {clause}',
                          {'tree': t, 'backend': 'c'})
            continue
        by_shape.setdefault(X.shape(t), (t, text, clause))
    todo = sorted(by_shape.items(), key=lambda kv: len(kv[0]))
    head, rest = todo[:30], todo[30:]

    def fails_batch(ts):
        cs, idx = [], []
        for i, t2 in enumerate(ts):
            try:
                cs.append(make_case(t2, fortran_text(t2)))
                idx.append(i)
            except (X.Unsupported, MachineryError):
                pass
        out = [False] * len(ts)
        if cs:
            v = ctx.validate('Trace_ExprEquiv', 'Trace_ExprEquiv', cs)
            ctx.val_stats.pop()
            for j, i in enumerate(idx):
                out[i] = not v[j][0]
        return out
    smalls = X.batch_shrink([t for _, (t, _, _) in head], fails_batch) if head else []
    for (shp, (t, text, clause)), small in zip(head, smalls):
        ctx.violation('fgen:' + X.shape1(small),
                      f'fgen({X.show(t)}) = {text!r} does not denote the tree: {clause} (shrunk: {X.show(small)} -> {fortran_text(small)!r})',
                      {'tree': t})
    for shp, (t, text, clause) in rest:
        ctx.violation('fgen:' + shp, f'fgen({X.show(t)}) = {text!r}: {clause}', {'tree': t})
    ctx.cover.update(trees=len(meta), distinct_texts_nonvacuous=len(nontrivial), vacuous=vac, gnu_extension_texts=ext,
                     skipped_unsupported=skipped, failing_cases=len(fails), failing_shapes=len(by_shape))
    for t, text in meta[:3] + meta[-2:]:
        ctx.sample({'tree': X.show(t), 'fgen': text})
    ctx.assumptions += [
        'values compared on 125 integer and 125 real valuations of (a,b,c); real arithmetic exact (rounding out of model)',
        'valuations where the tree itself is undefined (division by zero, magnitude > 30000, non-integral real exponent) are not judged',
        'GNU extension "sign after operator" (a*-b) is read with gfortran\'s meaning and never the reason for a violation',
        'C backend: operator subset without %, casts; integer-typed powers (pow() is double in C) are compared under the real typing only',
    ]


def selftest(ctx):
    from .. import selftests
    return selftests.c06(ctx)
