"""C40 Normalising transformations are idempotent.

spec: Idempotent.tla - a case records text0 = fgen(source), text1 = fgen(T(source)), text2 = fgen(T(T(source)))
      as line sequences; Judge accepts iff text1 = text2 (and the second application did not raise) and names
      the first differing line; text0 only tells TLC whether T changed anything (ok:identity / ok:changed-once).
      MC_Idempotent checks the clause on a small token language (accepts one-pass normalisers, rejects a
      level-by-level pruner exactly on nested input, FirstDiff is a correct witness).
impl: the eight normalisers named by the property, applied twice to the same parsed IR:
      do_resolve_associates, resolve_vector_notation, normalize_range_indexing, convert_to_lower_case,
      sanitise_imports, do_resolve_sequence_association, do_remove_dead_code, single_variable_declaration.
Violation keys:  idem:<normaliser>:<corpus>:<clause>:<keyword of the first differing line>.
"""
import concurrent.futures as cf
import os
import re
import subprocess

from .. import lib_fm as F
from .. import lib_fm_sanitise as S
from ..core import MachineryError

NORMALISERS = ('assoc', 'vec', 'nri', 'lower', 'imports', 'seqassoc', 'deadcode', 'deadcodeT', 'singledecl')
DEADSEL_MIN = 4      # judged, really pruned `deadsel` sources per dead-code normaliser in every run (vacuity guard)
DOC = {
    'assoc': 'do_resolve_associates(routine)', 'vec': 'resolve_vector_notation(routine)', 'nri': 'normalize_range_indexing(routine)',
    'lower': 'convert_to_lower_case(routine)', 'imports': 'sanitise_imports(module) / sanitise_imports(routine)',
    'seqassoc': 'do_resolve_sequence_association(routine)', 'deadcode': 'do_remove_dead_code(routine)',
    'singledecl': 'single_variable_declaration(routine)',
    'deadcodeT': 'RemoveCodeTransformation(remove_dead_code=True).apply(routine)',
}


def routines_of(src):
    out = []

    def rec(r):
        out.append(r)
        for m in r.members:
            rec(m)
    for r in src.all_subroutines:
        rec(r)
    return out


def apply(src, norm):
    from loki.transformations.sanitise.associates import do_resolve_associates
    from loki.transformations.sanitise.sequence_associations import do_resolve_sequence_association
    from loki.transformations.array_indexing import resolve_vector_notation, normalize_range_indexing
    from loki.transformations.utilities import convert_to_lower_case, sanitise_imports, single_variable_declaration
    from loki.transformations.remove_code import do_remove_dead_code
    if norm == 'imports':
        for m in src.modules:
            sanitise_imports(m)
        for r in src.routines:
            sanitise_imports(r)
        return
    if norm == 'deadcodeT':
        from loki.transformations.remove_code import RemoveCodeTransformation
        for r in src.all_subroutines:
            RemoveCodeTransformation(remove_dead_code=True).apply(r)
        return
    fn = {'assoc': do_resolve_associates, 'vec': resolve_vector_notation, 'nri': normalize_range_indexing,
          'lower': convert_to_lower_case, 'seqassoc': do_resolve_sequence_association, 'deadcode': do_remove_dead_code,
          'singledecl': single_variable_declaration}[norm]
    for r in routines_of(src):
        fn(r)


def record(text, norm, defs):
    """-> dict(text0, text1, text2, status2) or None if the FIRST application raises (not a C40 matter)."""
    from loki import Sourcefile
    try:
        src = Sourcefile.from_source(text, definitions=defs)
        text0 = src.to_fortran()
    except Exception as ex:  # pylint: disable=broad-except
        return {'first_raised': f'frontend {type(ex).__name__}: {ex}'[:200]}     # C01/C02 territory
    try:
        apply(src, norm)
        text1 = src.to_fortran()
    except Exception as ex:  # pylint: disable=broad-except
        return {'first_raised': f'{type(ex).__name__}: {ex}'[:200]}
    status2, text2, err = 'ok', text1, ''
    try:
        apply(src, norm)
        text2 = src.to_fortran()
    except Exception as ex:  # pylint: disable=broad-except
        status2, err = 'raised', f'{type(ex).__name__}: {ex}'[:300]
    return {'text0': S.split_lines(text0), 'text1': S.split_lines(text1), 'text2': S.split_lines(text2), 'status2': status2, 'err': err}


def gen_sources(ctx, scale):
    """-> list of (corpus, text, needs_cmod)"""
    rng = ctx.rng
    from . import C29, C30
    out = []
    for i in range(3 * scale):
        pop = list(C29.POPS)[i % len(C29.POPS)]
        g = S.AssocGen(rng, C29.FEATURES, **C29.POPS[pop])
        out.append(('assoc', F.render(g.program(rng.randint(3, 6), 2))))
    for i in range(4 * scale):
        pop = list(C30.POPS)[i % len(C30.POPS)]
        g = S.SecGen(rng, C30.FEATURES, form=rng.randrange(64), **C30.POPS[pop])
        out.append(('sec', F.render(g.program(rng.randint(3, 6), 2))))
    for i in range(3 * scale):
        g = F.Gen(rng, ('select', 'while', 'call', 'exitcycle', 'section', 'fcall', 'twod', 'assoc'))
        out.append(('gen', F.render(S.add_constant_conditionals(g.program(rng.randint(3, 6), 2), rng, 0.25))))
    for i in range(3 * scale):
        out.append(('imports', S.import_snippet(rng)))
    for i in range(2 * scale):
        out.append(('seqassoc', S.seqassoc_snippet(rng)))
    for i in range(scale):
        out.append(('deep', S.deep_snippet(rng)))
    # dead code nested inside statically selected SELECT CASE branches / IF (.true.) bodies (depth 2..3)
    for i in range(max(DEADSEL_MIN + 2, 2 * scale)):
        g = F.Gen(rng, ('select', 'call', 'exitcycle') if i % 2 else ('call',))
        prog, nested = S.add_decidable_selects(g.program(rng.randint(2, 4), 1), rng, depth=2 + i % 2)
        if i % 3 == 2:
            prog = S.add_constant_conditionals(prog, rng, 0.15)
        out.append(('deadsel', F.render(prog)))
    for i in range(scale):
        out.append(('nestvec', S.nested_vector_snippet(rng)))
    styled = []
    for corpus, text in out:
        r = rng.random()
        if r < 0.3:
            styled.append((corpus + '+case', S.mixed_case(text, rng)))
        elif r < 0.55:
            styled.append((corpus + '+grouped', S.group_declarations(text)))
        elif r < 0.7:
            styled.append((corpus + '+case+grouped', S.group_declarations(S.mixed_case(text, rng))))
        else:
            styled.append((corpus, text))
    return styled


def syntax_ok(work, i, text):
    d = os.path.join(work, f'syn{i}')
    os.makedirs(d, exist_ok=True)
    with open(os.path.join(d, 'k.f90'), 'w') as fh:
        fh.write(text)
    try:
        p = subprocess.run(['gfortran', '-fsyntax-only', '-w', '-ffree-line-length-none', '-I', work, 'k.f90'], cwd=d,
                           capture_output=True, text=True, timeout=120)
    except subprocess.TimeoutExpired:
        return False, 'timeout'
    return p.returncode == 0, p.stderr[-800:]


def keyword(line):
    line = line.strip()
    if not line:
        return 'blank'
    if line.startswith('&'):
        return 'continuation'
    if re.match(r'^[A-Za-z_]\w*(\([^=]*\))?(%\w+(\([^=]*\))?)*\s*=[^=]', line):
        return 'assignment'
    m = re.match(r'[A-Za-z]+', line)
    return m.group(0).upper() if m else 'other'


def run(ctx):
    ctx.mc('MC_Idempotent', 'MC_Idempotent', timeout=900, coverage=False)
    from loki import Sourcefile
    with open(os.path.join(ctx.work, 'cmod.f90'), 'w') as fh:
        fh.write(S.CMOD)
    p = subprocess.run(['gfortran', '-c', 'cmod.f90'], cwd=ctx.work, capture_output=True, text=True, timeout=120)
    if p.returncode != 0:
        raise MachineryError('cmod does not compile: ' + p.stderr[-500:])
    cmod = Sourcefile.from_source(S.CMOD)
    if ctx.replay:
        c = ctx.replay['case']
        sources = [(c['corpus'], c['source'])]
        norms = [c['normaliser']]
    else:
        dev = int(os.environ.get('VERIF_CASES', '0') or 0)     # development only
        sources = gen_sources(ctx, dev or (4 if ctx.quick else 40))
        norms = NORMALISERS
    # the sources must be Fortran (hand-varied snippets and respelled texts are not covered by another pre-flight)
    with cf.ThreadPoolExecutor(max_workers=8) as ex:
        syn = list(ex.map(lambda it: syntax_ok(ctx.work, it[0], it[1][1]), enumerate(sources)))
    bad = [(sources[i][0], syn[i][1], sources[i][1]) for i in range(len(sources)) if not syn[i][0]]
    if len(bad) > 0.05 * len(sources):
        raise MachineryError(f'{len(bad)} of {len(sources)} generated sources are not valid Fortran, e.g. [{bad[0][0]}]\n{bad[0][1]}\n{bad[0][2]}')
    sources = [s for s, ok in zip(sources, syn) if ok[0]]
    cases, meta = [], []
    first_raised = {}
    for corpus, text in sources:
        for norm in norms:
            rec = record(text, norm, cmod.modules if corpus.startswith('imports') else None)
            if 'first_raised' in rec:
                k = ('frontend' if rec['first_raised'].startswith('frontend') else norm) + f'/{corpus.split("+")[0]}'
                first_raised[k] = first_raised.get(k, 0) + 1
                continue
            meta.append((corpus, norm, text, rec['err']))
            cases.append({k: rec[k] for k in ('text0', 'text1', 'text2', 'status2')})
    verdicts = ctx.validate('Trace_Idempotent', 'Trace_Idempotent', cases, timeout=1800, per_shard_min=40)
    tally = {}
    seen = {}
    for i, (corpus, norm, text, err) in enumerate(meta):
        ok, clause, pos = verdicts[i]
        tally.setdefault(norm, {}).setdefault(clause, 0)
        tally[norm][clause] += 1
        if ok:
            continue
        c = cases[i]
        l1 = c['text1'][pos - 1] if 0 < pos <= len(c['text1']) else '<end of text>'
        l2 = c['text2'][pos - 1] if 0 < pos <= len(c['text2']) else '<end of text>'
        kw = keyword(l1) if clause != 'second-application-raised' else re.sub(r'\W+', '-', err.split(':')[0])
        key = f'idem:{norm}:{corpus.split("+")[0]}:{clause}:{kw}'
        size = len(text)
        if key in seen and seen[key][0] <= size:
            seen[key][3] += 1
            continue
        n = seen[key][3] + 1 if key in seen else 1
        what = (f'{DOC[norm]} is not idempotent on a [{corpus}] source: {clause}' +
                (f' ({err})' if err else f' at line {pos}:\n  after one application : {l1}\n  after two applications: {l2}') +
                f'\n--- source ---\n{text}')
        seen[key] = [size, what, {'corpus': corpus, 'normaliser': norm, 'source': text}, n]
    for key, (size, what, case, n) in sorted(seen.items()):
        ctx.violation(key, f'[{n} case(s)] ' + what, case)
    ctx.cover['sources'] = len(sources)
    ctx.cover['sources_dropped_invalid_fortran'] = len(bad)
    ctx.cover['cases_per_normaliser_and_clause'] = tally
    ctx.cover['first_application_raised_not_judged'] = first_raised
    ctx.cover['normalisers'] = DOC
    if not ctx.replay:
        pruned = {n: sum(1 for i, (corpus, norm, _t, _e) in enumerate(meta)
                         if norm == n and corpus.startswith('deadsel') and verdicts[i][1] != 'ok:identity') for n in ('deadcode', 'deadcodeT')}
        ctx.cover['deadsel_sources_pruned_per_normaliser'] = pruned
        if any(v < DEADSEL_MIN for v in pruned.values()):
            raise MachineryError(f'vacuity: fewer than {DEADSEL_MIN} deadsel sources were judged and pruned: {pruned}')
    never_changed = [n for n in norms if tally.get(n, {}).get('ok:changed-once', 0) == 0 and not any(k.startswith(f'idem:{n}:') for k in seen)]
    if never_changed and not ctx.replay:
        raise MachineryError(f'vacuity: normalisers that never changed any source: {never_changed}')
    if cases:
        ctx.sample({'normaliser': meta[0][1], 'corpus': meta[0][0], 'source': meta[0][2][:1500]})
    ctx.assumptions += [
        'both applications act on the same parsed IR object; text is compared as printed by fgen (Sourcefile.to_fortran)',
        'sources: generated MiniFortran kernels (ASSOCIATE / array-section / control-flow populations of C29, C30, C01 with '
        'compile-time-decidable conditions added), hand-varied import snippets (module + routine level USE, renames, kinds, members) '
        'and sequence-association snippets, deeply nested mixed-case expressions, decidable SELECT CASE / IF (.true.) nests with '
        'prunable code in the selected branch (deadsel), sections nested in vector subscripts (nestvec); respelled in mixed case and with grouped declarations',
        'a first application that raises is not a C40 matter (counted, not judged)',
    ]


def selftest(ctx):
    """Binding / sensitivity: an accepted (text0, text1, text2) record of a real normaliser run is corrupted."""
    import copy
    import random
    from ..selftests import _expect
    g = F.Gen(random.Random(5), ('select', 'call', 'assoc'))
    text = S.mixed_case(F.render(S.add_constant_conditionals(g.program(4, 2), random.Random(6), 0.4)), random.Random(7))
    rec = record(text, 'deadcode', None)
    good = {k: rec[k] for k in ('text0', 'text1', 'text2', 'status2')}
    b1 = copy.deepcopy(good); b1['text2'][len(b1['text2']) // 2] += ' '
    b2 = copy.deepcopy(good); b2['text2'] = b2['text2'][:-2]
    b3 = copy.deepcopy(good); b3['text2'].insert(3, '! extra')
    b4 = copy.deepcopy(good); b4['status2'] = 'raised'
    return _expect(ctx, 'Trace_Idempotent', 'Trace_Idempotent', good, [b1, b2, b3, b4],
                   ['one line of the second text changed', 'second text truncated', 'line inserted into the second text', 'second application raised'])
