"""C19 Fast regex discovery finds what the full parser finds.

spec: RegexDiscovery.tla  (abstract files, Project(file, parsed), acceptance clauses, design model of the
                           incremental frontend)
      MC_RegexDiscovery   (all request orders for every file of a finite universe; negative control)
      Gen_RegexDiscovery  (TLC prints the universe of abstract files -> rendered + replayed into Loki)
      Trace_RegexDiscovery(every recorded step of every request history is decided by TLC)
Real code: Sourcefile.from_source(frontend=REGEX, parser_classes=..), Sourcefile.make_complete(frontend=REGEX,
           parser_classes=..), cross-check with Sourcefile.from_source(frontend=FP).
"""
import itertools
import json
import multiprocessing as mp
import os
import random
import subprocess

from ..core import MachineryError
from .. import lib_regexdisc as L

FLAGS = L.CLASS_NAMES
SAFE_KNOBS = [k for k in L.KNOBS if k != 'endbare']


# ----------------------------------------------------------------------------------------------
# request schedules (lists of histories; a history is a list of requests; a request a list of flags)

def schedule_full(rng, norders, ncombined):
    hists = []
    for r in range(0, 8):
        for sub in itertools.combinations(FLAGS, r):
            if sub:
                hists.append([list(sub)])
    hists += [[list(r) for r in h] for h in UNIT_START]
    hists += repeat_histories(rng, 12)
    for _ in range(norders):
        order = FLAGS[:]
        rng.shuffle(order)
        hists.append([[f] for f in order])
    for k in range(norders // 4):
        # single-flag orders that start with ProgramUnit (start=unit histories)
        order = FLAGS[1:]
        rng.shuffle(order)
        hists.append([['ProgramUnit']] + [[f] for f in order])
    for _ in range(ncombined):
        order = FLAGS[:]
        rng.shuffle(order)
        cuts = sorted(rng.sample(range(1, 7), rng.randint(1, 3)))
        parts = [order[a:b] for a, b in zip([0] + cuts, cuts + [7])]
        extra = rng.sample(FLAGS, rng.randint(1, 3))      # an overlapping / repeated request
        parts.insert(rng.randint(1, len(parts)), extra)
        hists.append(parts)
    return hists


# histories that start with ProgramUnit and request Call before / after / together with Import (and the other
# classes that write into the routines' symbol tables), so that state carried over between passes is exercised
UNIT_START = [
    [['ProgramUnit', 'Call'], FLAGS[:]],
    [['ProgramUnit', 'Call'], ['Import']],
    [['ProgramUnit'], ['Call'], ['Import']],
    [['ProgramUnit'], ['Import'], ['Call']],
    [['ProgramUnit', 'Import'], ['Call']],
    [['ProgramUnit', 'Declaration', 'Call'], ['Import', 'Interface', 'TypeDef']],
    [['ProgramUnit', 'Interface', 'TypeDef'], ['Call'], ['Declaration'], ['Import']],
]


# histories WITH REPETITION: classes requested before ProgramUnit (they match nothing then) and requested again
# once the units exist
REPEAT = [
    [['TypeDef'], ['ProgramUnit'], ['TypeDef'], ['Import']],
    [['Import', 'TypeDef'], ['ProgramUnit'], ['Import'], ['TypeDef']],
    [['Call'], ['ProgramUnit'], ['Call']],
    [['Interface'], ['ProgramUnit'], ['Interface'], ['Call']],
    [['Import'], ['ProgramUnit'], ['Import']],
    [['Declaration', 'Call', 'Import'], ['ProgramUnit'], ['Call', 'Import']],
    [['Interface', 'Import', 'TypeDef', 'Declaration', 'Call', 'Pragma'], ['ProgramUnit'],
     ['Interface', 'Import', 'TypeDef', 'Declaration', 'Call', 'Pragma']],
]


def repeat_histories(rng, n):
    out = [[list(r) for r in h] for h in REPEAT]
    for _ in range(n):
        x = rng.sample(FLAGS[1:], rng.randint(1, 4))
        h = [x[:], ['ProgramUnit']]
        again = x[:]
        rng.shuffle(again)
        cut = rng.randint(1, len(again))
        h.append(again[:cut])
        if again[cut:]:
            h.append(again[cut:])
        out.append(h)
    return out


def is_repeat(h):
    """A class requested before the first request containing ProgramUnit and again in a later request."""
    before = set()
    for i, req in enumerate(h):
        if 'ProgramUnit' in req:
            later = set().union(*[set(r) for r in h[i + 1:]]) if h[i + 1:] else set()
            return bool(before & later)
        before |= set(req)
    return False


def schedule_reduced(rng, norders=3):
    hists = [[FLAGS[:]]] + [[[f]] for f in FLAGS] + [[['ProgramUnit', f]] for f in FLAGS[1:]]
    hists += [[list(r) for r in h] for h in UNIT_START]
    hists += repeat_histories(rng, 2)
    for _ in range(norders):
        order = FLAGS[:]
        rng.shuffle(order)
        hists.append([[f] for f in order])
    return hists


def schedule_all_orders():
    return [[[f] for f in order] for order in itertools.permutations(FLAGS)]


# ----------------------------------------------------------------------------------------------
# driving the real frontend (runs in worker processes)

def _exc_obs(e):
    return [{'kind': '<exception>', 'name': type(e).__name__, 'imports': [], 'typedefs': [], 'interfaces': [],
             'calls': [], 'children': []}]


def drive(job):
    """job = dict(file, knobs, seed, hists).  Returns the case for Trace_RegexDiscovery + the text."""
    from loki import Sourcefile, config
    from loki.frontend import REGEX, FP
    config['regex-frontend-timeout'] = job.get('timeout', 30)
    text = L.render(job['file'], job['knobs'], job['seed'])
    try:
        fp = L.project_sourcefile(Sourcefile.from_source(text, frontend=FP))
    except Exception as e:  # pylint: disable=broad-except
        fp = _exc_obs(e)
    table = {}
    obs = []

    def intern(o):
        k = json.dumps(o, sort_keys=True)
        if k not in table:
            table[k] = len(obs) + 1
            obs.append(o)
        return table[k]

    hists = []
    for h in job['hists']:
        steps = []
        sf = None
        for i, req in enumerate(h):
            try:
                if i == 0:
                    sf = Sourcefile.from_source(text, frontend=REGEX, parser_classes=L.parser_classes(req))
                else:
                    sf.make_complete(frontend=REGEX, parser_classes=L.parser_classes(req))
                o = L.project_sourcefile(sf)
            except Exception as e:  # pylint: disable=broad-except
                o = _exc_obs(e)
                steps.append({'req': req, 'o': intern(o)})
                break
            steps.append({'req': req, 'o': intern(o)})
        hists.append(steps)
    return {'file': job['file'], 'fp': fp, 'obs': obs, 'hists': hists}, text


# ----------------------------------------------------------------------------------------------
# seeded abstract files beyond the TLC-enumerated universe (checked with ValidFile by TLC)

def seeded_file(rng):
    names = iter(['u%d' % i for i in range(1, 40)])
    mods = ['moda', 'modb', 'modp']
    syms = {'moda': ['sa', 'sc', 'rb', 'q1', 'q2'], 'modb': ['sx', 'q3'], 'modp': ['rp1', 'rp2']}   # modp: procedures

    def imports():
        out = []
        for m in rng.sample(mods, rng.randint(0, 3)):
            style = rng.choice(['all', 'only', 'rename'])
            if style == 'all':
                out.append({'module': m, 'only': False, 'syms': []})
            else:
                ss = rng.sample(syms[m], rng.randint(1, len(syms[m])))
                pairs = [[('l' + s) if rng.random() < 0.4 else s, s] for s in ss]
                if style == 'rename':
                    pairs = [[('l' + s), s] for s in ss]
                out.append({'module': m, 'only': style == 'only', 'syms': pairs})
        return out

    def calls(member_binds=(), imps=()):
        out = []
        # local names of imported procedures (module modp) are called in the importing scope
        procs = []
        for im in imps:
            if im['module'] == 'modp':
                procs += [loc for loc, _ in im['syms']] if im['only'] else \
                    [loc for loc, _ in im['syms']] + [p for p in syms['modp'] if p not in [r for _, r in im['syms']]]
        for _ in range(rng.randint(0, 4)):
            if procs and rng.random() < 0.5:
                out.append({'name': rng.choice(procs), 'inl': rng.random() < 0.3})
            elif member_binds and rng.random() < 0.3:
                out.append({'name': 'obj%' + rng.choice(list(member_binds)), 'inl': rng.random() < 0.3})
            else:
                out.append({'name': rng.choice(['ca', 'cb', 'cc', 'callee', 'used_sub']), 'inl': rng.random() < 0.3})
        return out

    def body_ifaces(tag):
        out = []
        if rng.random() < 0.4:
            out.append({'name': '', 'abstract': rng.random() < 0.3, 'procs': [],
                        'bodies': [f'ext{tag}', f'ext{tag}f'][:rng.randint(1, 2)]})
        return out

    def leaf():
        imps = imports()
        return {'kind': rng.choice(['subroutine', 'function']), 'name': next(names), 'imports': imps, 'typedefs': [],
                'interfaces': [], 'calls': calls(imps=imps), 'children': []}

    def routine(member_binds=(), name=None):
        n = name or next(names)
        imps = imports()
        return {'kind': rng.choice(['subroutine', 'function']), 'name': n, 'imports': imps,
                'typedefs': [{'name': 't' + n, 'binds': [], 'generics': []}] if rng.random() < 0.25 else [],
                'interfaces': body_ifaces(n), 'calls': calls(member_binds, imps),
                'children': [leaf() for _ in range(rng.choice([0, 0, 1, 2]))]}

    def module():
        n = next(names)
        nproc = rng.randint(0, 3)
        procs = [next(names) for _ in range(nproc)]
        typedefs = []
        binds = []
        if rng.random() < 0.5:
            typedefs.append({'name': 'p' + n, 'binds': [], 'generics': []})
        if procs and rng.random() < 0.7:
            bl = [[('b' + p) if rng.random() < 0.5 else p, p] for p in procs]
            gl = [{'name': 'g' + n, 'targets': [b[0] for b in bl]}] if len(bl) > 1 and rng.random() < 0.5 else []
            typedefs.append({'name': 'o' + n, 'binds': bl, 'generics': gl})
            binds = [b[0] for b in bl] + [g['name'] for g in gl]
        itfs = []
        if len(procs) > 1 and rng.random() < 0.5:
            itfs.append({'name': 'i' + n, 'abstract': False, 'procs': procs[:], 'bodies': []})
        if rng.random() < 0.3:
            itfs.append({'name': '', 'abstract': True, 'procs': [], 'bodies': ['abs' + n + 'f']})
        children = [routine(binds, name=p) for p in procs]
        for c in children:
            c['typedefs'] = []
            if binds:
                c['kind'] = 'subroutine'     # type-bound procedures invoked by CALL
        return {'kind': 'module', 'name': n, 'imports': imports(), 'typedefs': typedefs, 'interfaces': itfs,
                'calls': [], 'children': children}

    units = []
    for _ in range(rng.randint(1, 3)):
        units.append(module() if rng.random() < 0.5 else routine())
    return units


def _u(kind, name, children=(), calls=()):
    return {'kind': kind, 'name': name, 'imports': [], 'typedefs': [], 'interfaces': [],
            'calls': [{'name': c, 'inl': False} for c in calls], 'children': list(children)}


# shapes that found defects before (always part of the run so that their keys are stable)
FIXED_FILES = [
    # a module procedure with an internal procedure, followed by a second module
    [_u('module', 'fm1', [_u('subroutine', 'fs1', [_u('subroutine', 'finner')], calls=['ca'])]),
     _u('module', 'fm2', [_u('subroutine', 'fs2', calls=['cb'])])],
    # a routine that imports a procedure under a local name in its own spec and calls it (symbol-table state
    # written by the call discovery must not leak into a later import discovery)
    [{'kind': 'subroutine', 'name': 'fdrv', 'typedefs': [], 'interfaces': [], 'children': [],
      'imports': [{'module': 'modp', 'only': True, 'syms': [['lp', 'rp']]},
                  {'module': 'modp', 'only': False, 'syms': [['lq', 'rp1']]}],
      'calls': [{'name': 'lp', 'inl': False}, {'name': 'lq', 'inl': True}, {'name': 'ca', 'inl': False}]}],
    # the same with a stand-alone routine in front and a function with an internal function
    [_u('function', 'ff0', [_u('function', 'ffinner')]),
     _u('module', 'fm3', [_u('function', 'ff1', [_u('subroutine', 'finner2')])]),
     _u('subroutine', 'fs3', calls=['ca'])],
]


def file_size(f):
    return len(json.dumps(f))


# ----------------------------------------------------------------------------------------------

def _pool_map(jobs, nproc):
    if nproc <= 1 or len(jobs) < 4:
        return [drive(j) for j in jobs]
    ctxmp = mp.get_context('fork')
    with ctxmp.Pool(nproc) as pool:
        return pool.map(drive, jobs, chunksize=1)


def gfortran_accepts(ctx, text, tag):
    p = os.path.join(ctx.work, f'legal_{tag}.f90')
    with open(p, 'w') as fh:
        fh.write(L.STUBS + text)
    try:
        r = subprocess.run(['gfortran', '-fsyntax-only', '-c', p], capture_output=True, text=True, timeout=120,
                           cwd=ctx.work, check=False)
    except (OSError, subprocess.TimeoutExpired) as e:
        raise MachineryError(f'gfortran legality check failed to run: {e}') from e
    return r.returncode == 0, r.stderr


def run(ctx):
    quick = ctx.quick
    spec_dir = os.path.join(os.path.dirname(__file__), '..', '..', 'spec')

    def cfg(name, **repl):
        with open(os.path.join(spec_dir, name + '.cfg')) as fh:
            text = fh.read()
        for k, v in repl.items():
            import re
            text, n = re.subn(rf'CONSTANT {k} = \S+', f'CONSTANT {k} = {v}', text)
            if n != 1:
                raise MachineryError(f'cfg {name}: constant {k} not found')
        p = os.path.join(ctx.work, f'{name}_run.cfg')
        with open(p, 'w') as fh:
            fh.write(text)
        return p

    if not ctx.replay:
        # 1. design-level model checking: all 7! orders of the class flags for every file of the universe
        ctx.mc('MC_RegexDiscovery', cfg('MC_RegexDiscovery', AllFiles='FALSE' if quick else 'TRUE'), timeout=1500,
               workers=8, coverage=False)
        if not quick:
            ctx.mc('MC_RegexDiscovery', cfg('MC_RegexDiscovery_sub', MaxDepth=3), timeout=1500, workers=8, coverage=False)
        # negative control: a frontend that re-parses unsplit text with the requested classes only must be rejected
        r = ctx.tlc('MC_RegexDiscovery', cfg('MC_RegexDiscovery_neg'), workers=4, timeout=600)
        if r.invariant_violated != 'DiscoveredIsProjection':
            raise MachineryError(f'negative control of RegexDiscovery not rejected:\n{r.tail()}')
        ctx.cover['negative_control_rejected'] = True

    # 2. cases: TLC-enumerated abstract files + seeded larger ones
    jobs = []
    if ctx.replay:
        c = ctx.replay['case']
        jobs.append({'file': c['file'], 'knobs': c['knobs'], 'seed': c['seed'], 'hists': c['hists'], 'group': 0,
                     'layout': 'replay', 'timeout': c.get('timeout', 30)})
    else:
        r = ctx.tlc('Gen_RegexDiscovery', 'Gen_RegexDiscovery', timeout=600)
        universe = [json.loads(v[1]) for v in r.prints('FILE')]
        if len(universe) < 1000:
            raise MachineryError(f'Gen_RegexDiscovery printed {len(universe)} files\n{r.tail()}')
        ctx.cover['universe_files'] = len(universe)
        rng = ctx.rng
        nsmall, nseeded = (16, 6) if quick else (120, 50)
        files = FIXED_FILES + [seeded_file(rng) for _ in range(nseeded)] + rng.sample(universe, nsmall)
        norders = 60 if quick else 120
        nfull = 8 if quick else len(files)
        for g, f in enumerate(files):
            seed = rng.randrange(1 << 30)
            jobs.append({'file': f, 'knobs': [], 'seed': seed, 'group': g, 'layout': 'plain',
                         'hists': schedule_full(rng, norders, 12) if g < nfull else schedule_reduced(rng, 12)})
            for k in SAFE_KNOBS:
                jobs.append({'file': f, 'knobs': [k], 'seed': seed, 'hists': schedule_reduced(rng), 'group': g,
                             'layout': 'single'})
            if g < (2 if quick else 10):
                # a bare END makes the unit patterns backtrack until the frontend's timeout: tiny schedule, short timeout
                jobs.append({'file': f, 'knobs': ['endbare'], 'seed': seed, 'hists': [[FLAGS[:]], [['ProgramUnit']]],
                             'group': g, 'layout': 'single', 'timeout': 3})
            for j in range(2):
                ks = rng.sample(SAFE_KNOBS, rng.randint(2, 6))
                if 'upper' in ks and 'title' in ks:
                    ks.remove('title')
                jobs.append({'file': f, 'knobs': sorted(ks), 'seed': seed + j,
                             'hists': schedule_full(rng, norders // 3, 6) if (j == 0 and not quick) else schedule_reduced(rng, 10),
                             'group': g, 'layout': 'combo'})
        if not quick:
            # all 7! orders for a few small files, plain and one combined layout
            small = sorted(universe, key=file_size)
            for f in rng.sample(small[len(small) // 2:], 3):
                g = len(files)
                files.append(f)
                jobs.append({'file': f, 'knobs': [], 'seed': 1, 'hists': schedule_all_orders(), 'group': g, 'layout': 'plain'})
                jobs.append({'file': f, 'knobs': ['cont', 'semi', 'comments', 'strings'], 'seed': 2,
                             'hists': schedule_all_orders(), 'group': g, 'layout': 'combo'})
            ctx.cover['files_with_all_5040_orders'] = 3

    import time
    t0 = time.time()
    results = _pool_map(jobs, min(12, os.cpu_count() or 4))
    cases = [c for c, _ in results]
    ctx.cover['drive_wall_s'] = round(time.time() - t0, 1)
    verdicts = ctx.validate('Trace_RegexDiscovery', 'Trace_RegexDiscovery', cases, timeout=1500, per_shard_min=8)

    # 3. verdicts -> violations with normal-form keys
    nrepeat = sum(1 for j in jobs for h in j['hists'] if is_repeat(h))
    ctx.cover['histories_with_repeated_request_after_units'] = nrepeat
    if not ctx.replay and nrepeat < 20 * len({j['group'] for j in jobs}):
        raise MachineryError(f'vacuity: only {nrepeat} request histories repeat a class after ProgramUnit')
    nsteps = sum(len(h) for c in cases for h in c['hists'])
    ctx.cover['steps_validated'] = nsteps
    ctx.cover['histories'] = sum(len(c['hists']) for c in cases)
    ctx.cover['cases_by_layout'] = {}
    unrequested = 0
    failing = {}           # (group, clause, direct) -> {frozenset(knobs): case index}
    for i, job in enumerate(jobs):
        ctx.cover['cases_by_layout'][job['layout']] = ctx.cover['cases_by_layout'].get(job['layout'], 0) + 1
        ok, clause, ndet = verdicts[i][:3]
        if ok:
            continue
        details = []
        for k in range(1, ndet + 1):
            direct, cl, o = verdicts[f'{i}#{k}'][:3]
            details.append((cl, direct, verdicts[f'{i}#{k}#P'][1], o, verdicts[f'{i}#{k}#P'][2]))
        if clause.startswith('oracle:'):
            raise MachineryError(f'C19 oracle disagreement ({clause}) for knobs={job["knobs"]} seed={job["seed"]}:\n'
                                 f'{results[i][1]}\nfp={json.dumps(cases[i]["fp"])}\nfile={json.dumps(job["file"])}')
        for cl, direct, pstr, o, start in details:
            failing.setdefault((job['group'], cl, bool(direct), start), {})[frozenset(job['knobs'])] = (i, pstr, o)
    reported = set()
    for (g, cl, direct, start), by_knobs in sorted(failing.items(), key=lambda kv: (kv[0][1], kv[0][2], kv[0][3], kv[0][0])):
        for knobs, (i, pstr, o) in sorted(by_knobs.items(), key=lambda kv: (len(kv[0]), sorted(kv[0]))):
            # attribute the failure to the smallest sub-layout of the same file that fails the same clause
            # (a layout whose failure is explained by a sub-layout is not reported again)
            if frozenset() in by_knobs:
                if knobs:
                    continue
                attr = 'plain'
            else:
                singles = sorted(k for k in knobs if frozenset([k]) in by_knobs)
                if singles and len(knobs) > 1:
                    continue
                attr = '+'.join(sorted(knobs))
            obs = cases[i]['obs'][o - 1]
            exc = obs[0]['name'] if obs and obs[0]['kind'] == '<exception>' else None
            how = '' if cl == 'order-dependence' else (':direct' if direct else ':incremental-only')
            if start == 'repeat':
                # lost although requested (again) after the program units exist
                how, start_name = ':incremental-repeat', 'nounit'
            else:
                start_name = start
            key = f"{cl}{how}:start={start_name}:layout={attr}" + (f':exception={exc}' if exc else '')
            job = jobs[i]
            if key not in reported:
                legal, err = gfortran_accepts(ctx, results[i][1], len(reported))
                if not legal:
                    raise MachineryError(f'renderer produced Fortran that gfortran rejects (knobs={job["knobs"]}):\n'
                                         f'{results[i][1]}\n{err}')
                reported.add(key)
            def exhibits(h):
                seen, fresh = set(), set()
                for st in h:
                    seen |= set(st['req'])
                    if 'ProgramUnit' in seen:
                        fresh |= set(st['req'])
                    if start == 'repeat' and 'ProgramUnit' not in seen:
                        continue
                    cur = (fresh | {'ProgramUnit'}) if start == 'repeat' else seen
                    if st['o'] == o and ''.join(L.CLASS_LETTER[c] for c in FLAGS if c in cur) == pstr:
                        return True
                return False
            want_unit = {'unit': True, 'nounit': False, 'repeat': False}.get(start)
            cands = [h for h in cases[i]['hists'] if exhibits(h)
                     and (want_unit is None or ('ProgramUnit' in h[0]['req']) == want_unit)]
            hist = min(cands, key=len) if cands else cases[i]['hists'][0]
            ctx.violation(key, f'REGEX frontend observation rejected by clause {cl} with parsed={pstr} '
                               f'(layout knobs {sorted(knobs)}); observed {json.dumps(obs)[:400]}',
                          {'file': job['file'], 'knobs': job['knobs'], 'seed': job['seed'],
                           'hists': [[s['req'] for s in hist]] + ([[list(FLAGS)]] if not direct else []),
                           'timeout': job.get('timeout', 30), 'text': results[i][1]})
    # vacuity / coverage
    for c in cases:
        for h in c['hists']:
            seen = set()
            for s in h:
                seen |= set(s['req'])
                o = c['obs'][s['o'] - 1]
                if 'Import' not in seen and any(u['imports'] for u in o):
                    unrequested += 1
    ctx.cover['violation_keys'] = sorted({v.key for v in ctx.violations})
    ctx.cover['steps_revealing_unrequested_imports'] = unrequested
    ctx.cover['distinct_observations'] = sum(len(c['obs']) for c in cases)
    ctx.cover['distinct_files'] = len({json.dumps(j['file'], sort_keys=True) for j in jobs})
    ctx.cover['rendered_texts'] = len({t for _, t in results})
    ctx.sample({'knobs': jobs[0]['knobs'], 'text': results[0][1][:600]})
    if len(jobs) > 20:
        ctx.sample({'knobs': jobs[17]['knobs'], 'text': results[17][1][:900]})
    ctx.assumptions += [
        'abstract files: units (module/subroutine/function, nesting depth 3), imports (all/only/rename), derived types '
        'with procedure and generic bindings, interfaces (named generic, abstract, bodies), calls (plain, inline IF, obj%binding)',
        'layout knobs: ' + ', '.join(L.KNOBS) + ' (each alone, plain, and random combinations)',
        'the FP observation on the same text must equal Full(file), else machinery error (renderer cross-check)',
        'classes not requested may already be (partially) revealed, but only with items that exist (soundness clause)',
        'declared variables and pragmas are not part of the projection (C19 lists units, imports, types+bindings, '
        'interfaces, calls); FINAL bindings are not recorded',
    ]
