"""C29 Associate resolution and merging preserve program behaviour.

spec: FMachine (MiniFortran reference machine; ASSOCIATE = true association for variable / element /
      whole-array selectors, evaluation on entry for expression selectors) + Trace_FMachine: the stdout of
      the gfortran build of the TRANSFORMED kernel module must equal Run(original program, input).out as
      evaluated by TLC.  Pre-flight: gfortran on the ORIGINAL text agrees with the machine.
impl: loki.transformations.sanitise.associates - do_resolve_associates(start_depth), do_merge_associates(
      max_parents), AssociatesTransformation(merge + resolve), resolve-then-merge.
Every program belongs to one population (syntactic class, see lib_fm_sanitise.AssocGen) and one option set;
violation keys are  assoc:<option>:<population>:<failure signature>.
"""
import os
import time

from .. import lib_fm as F
from .. import lib_fm_sanitise as S

OPTS = ('R0', 'R1', 'R2', 'M', 'M1', 'MR0', 'MR1', 'R1M')
OPT_DOC = {
    'R0': 'do_resolve_associates(start_depth=0)', 'R1': 'do_resolve_associates(start_depth=1)',
    'R2': 'do_resolve_associates(start_depth=2)', 'M': 'do_merge_associates()', 'M1': 'do_merge_associates(max_parents=1)',
    'MR0': 'AssociatesTransformation(resolve_associates=True, merge_associates=True, start_depth=0)',
    'MR1': 'AssociatesTransformation(resolve_associates=True, merge_associates=True, start_depth=1, max_parents=2)',
    'R1M': 'do_resolve_associates(start_depth=1); do_merge_associates()',
}
# population -> AssocGen knobs
POPS = {
    'var':      dict(expr=False),                                   # variable / element / whole-array selectors only
    'expr':     dict(expr=True),                                    # + expression selectors (operands never defined inside)
    'sibling':  dict(expr=False, unique=False),                     # sibling blocks reuse associate names
    'indep':    dict(expr=False, dependent=False),                  # nested blocks need not depend on their parent
    'subdep':   dict(expr=False, subdep=True),                      # element selector whose subscript mentions an outer name
    'print':    dict(expr=False, print_names=True),                 # PRINT mentions associate names
    'nointr':   dict(expr=False, intrinsics=False),                 # like var, no intrinsic function references at all
    'section':  dict(expr=False, sections='lb1'),                   # + rank-1 section selectors for which name(e) is base(e)
    'secshift': dict(expr=False, sections='shift'),                 # + any rank-1 section selector (bounds / stride remapping)
    'shadow':   dict(expr=False, shadow=True),                      # a nested block rebinds a name of an enclosing block
    'volatile': dict(expr=True, volatile=True, dependent=False),    # selectors mention entities the blocks define
}
FEATURES = ('assoc', 'twod', 'section', 'call', 'select', 'exitcycle')

FRONTEND_RAISED = {}     # signature -> first source text


def apply_opt(routine, opt):
    from loki.transformations.sanitise.associates import (
        do_resolve_associates, do_merge_associates, AssociatesTransformation)
    if opt in ('R0', 'R1', 'R2'):
        do_resolve_associates(routine, start_depth=int(opt[1]))
    elif opt == 'M':
        do_merge_associates(routine)
    elif opt == 'M1':
        do_merge_associates(routine, max_parents=1)
    elif opt == 'MR0':
        AssociatesTransformation(resolve_associates=True, merge_associates=True, start_depth=0).transform_subroutine(routine)
    elif opt == 'MR1':
        AssociatesTransformation(resolve_associates=True, merge_associates=True, start_depth=1, max_parents=2).transform_subroutine(routine)
    elif opt == 'R1M':
        do_resolve_associates(routine, start_depth=1)
        do_merge_associates(routine)
    else:
        raise F.MachineryError(f'unknown option set {opt}')


def transform(text, prog, workdir):
    from loki import Sourcefile
    try:
        src = Sourcefile.from_source(text)
    except Exception as ex:  # pylint: disable=broad-except
        # a frontend failure is not a statement about the transformation (C01/C02 territory): counted, not judged
        sig = F.failure_signature('frontend-raised', f'{type(ex).__name__}: {ex}')
        FRONTEND_RAISED.setdefault(sig, text)
        raise F.NotApplicable(sig) from ex
    for r in src.all_subroutines:
        apply_opt(r, prog['opt'])
    return [('kmod.f90', src.to_fortran())]


def gen_cases(ctx, n):
    cases = []
    cells = [(o, p) for o in OPTS for p in POPS] + [(o, p) for o in ('R0', 'M', 'MR0') for p in POPS]
    if os.environ.get('VERIF_POPS'):      # development only: restrict the populations / options
        cells = [c for c in cells if c[1] in os.environ['VERIF_POPS'].split(',')]
    if os.environ.get('VERIF_OPTS'):
        cells = [c for c in cells if c[0] in os.environ['VERIF_OPTS'].split(',')]
    ctx.rng.shuffle(cells)
    for i in range(n):
        opt, pop = cells[i % len(cells)]
        for _ in range(50):
            g = S.AssocGen(ctx.rng, FEATURES, **POPS[pop])
            prog = g.program(nstmts=ctx.rng.randint(3, 6), depth=2)
            if S.assoc_depth(prog) >= (3 if opt == 'R2' else 2):
                break
        prog['opt'], prog['pop'] = opt, pop
        cases.append((prog, g.inputs(prog, 3)))
    return cases


def run(ctx):
    S.install_nonfinite_guard()
    dev = int(os.environ.get('VERIF_CASES', '0') or 0)     # development only: fewer cases
    if ctx.replay:
        c = ctx.replay['case']
        cases = [(c['prog'], c['inputs'])]
    else:
        ctx.mc('MC_AssocResolve', 'MC_AssocResolve', workers=4, timeout=900, coverage=False)    # design level, see the module header
        ncell = (len(OPTS) + 3) * len(POPS)
        cases = gen_cases(ctx, dev or (ncell if ctx.quick else 6 * ncell))
    results, fails, legal = F.behaviour_check(ctx, 'assoc', cases, transform)
    recheck = None if ctx.quick and not ctx.replay else F.make_recheck(ctx, transform)
    deadline = time.time() + 420
    cells = {}
    for f in fails:
        prog = cases[f[0]][0]
        cells.setdefault((prog['opt'], prog['pop']), []).append(f)
    for (opt, pop), fl in sorted(cells.items()):
        S.report(ctx, f'assoc:{opt}:{pop}', cases, results, fl, recheck, deadline)
    per_cell = {}
    changed = 0
    for r in results:
        prog = cases[r['idx']][0]
        if r['idx'] in legal:
            per_cell[f"{prog['opt']}/{prog['pop']}"] = per_cell.get(f"{prog['opt']}/{prog['pop']}", 0) + 1
            if 'newtext' in r and r['newtext'].lower().count('associate') != r['text'].lower().count('associate'):
                changed += 1
    ctx.cover['programs_with_legal_inputs'] = len(legal)
    ctx.cover['programs_per_option_and_population'] = per_cell
    ctx.cover['programs_whose_associate_count_changed'] = changed
    ctx.cover['options'] = OPT_DOC
    ctx.cover['frontend_raised_not_judged'] = {k: v[:1500] for k, v in FRONTEND_RAISED.items()}
    if results:
        ctx.sample({'program': results[0]['text'], 'option': cases[0][0].get('opt'), 'inputs': cases[0][1][:1]})
    ctx.assumptions += [
        'MiniFortran subset (see C01); ASSOCIATE selectors: scalar variables, array elements, whole arrays, integer expressions; '
        'nesting up to 3; names of enclosing blocks used as selectors and inside subscripts',
        'rank-1 array-section selectors (one range subscript; sections of sections) and inner names that shadow a name of an '
        'enclosing block are generated in their own populations',
        'not generated: rank-2 section selectors, derived-type components (no derived types in FMachine) - max_parents therefore '
        'never filters anything; an associate name that shadows a variable of the routine (FMachine: not modelled)',
        'populations are syntactic classes of the generator, the verdict is always Run(original) = observed(transformed)',
    ]


def selftest(ctx):
    """Binding / sensitivity: an accepted recorded behaviour of a program with section aliases, shadowing and
    associate names as actual arguments is corrupted; TLC must reject every corruption."""
    import copy
    import random
    from ..selftests import _expect
    for seed in range(20):
        g = S.AssocGen(random.Random(100 + seed), FEATURES, **POPS['secshift' if seed % 2 else 'shadow'])
        prog = g.program(nstmts=5, depth=2)
        inp = g.inputs(prog, 1)
        st, out, err = F.compile_run(ctx.work, f'selftest{seed}', [('kmod.f90', F.render(prog)), ('drv.f90', F.driver_text(prog, 'kernel', inp))])
        if st != 'ok':
            continue
        obs = F.parse_output(out, 1)[0]
        good = {'prog': prog, 'entry': 'kernel', 'input': F.input_json(inp[0]), 'observed': obs, 'mode': 'preflight'}
        if ctx.validate('Trace_FMachine', 'Trace_ExprEquiv', [good], shards=1)[0][0]:
            break
    else:
        raise F.MachineryError('selftest: no legal program found')
    b1 = copy.deepcopy(good); b1['observed'][0][1] += 1
    b2 = copy.deepcopy(good); b2['observed'] = b2['observed'][:-1]
    b3 = copy.deepcopy(good); b3['observed'][len(obs) // 2][1] -= 1
    return _expect(ctx, 'Trace_FMachine', 'Trace_ExprEquiv', good, [b1, b2, b3],
                   ['first output value changed', 'last output value missing', 'middle output value changed'])
