"""C34 Call-signature rewrites preserve behaviour.

spec: FMachine (MiniFortran reference machine; explicit-shape / assumed-shape dummies and sequence association are
      modelled by the "xdims" declarations, see FMachine.HasX / CallUnit.XBind) + Trace_FMachine: the stdout of the
      gfortran build of the call tree Loki rewrote must equal Run(original, input).out predicted by TLC.
code: (all through the Scheduler, kernel = driver role, helper units = kernels)
      seq    SequenceAssociationTransformation / do_resolve_sequence_association (sanitise/sequence_associations.py)
      dup    RemoveDuplicateArgs(recurse_to_kernels, rename_common) (routine_signatures.py)
      shape  ArgumentArrayShapeAnalysis + ExplicitArgumentArrayShapeTransformation (argument_shape.py)
      dtype  DerivedTypeArgumentsTransformation, tbp TypeboundProcedureCallTransformation (transform_derived_types.py)
"""
from .. import lib_fm as F
from .. import lib_fm_signature as S

# family -> (features, quick, thorough)
PLAN = [('seq', (), 12, 130), ('dup', (), 10, 110), ('shape', (), 10, 110), ('shape', ('clash',), 2, 20),
        ('dtype', (), 10, 110), ('tbp', (), 8, 80),
        # stratum sec3: sections of 3-d arrays (extents 2 x 3 x 4 and 2 x nv x 4) with scalar subscripts at every position
        # (leading / middle / trailing) passed to rank-1 / rank-2 assumed-shape dummies; one such call is unconditional
        ('shape', ('sec3',), 8, 60)]
SEC3_MIN = (6, 45)       # legal programs with a non-trailing scalar subscript per quick / thorough run
BASE = ('select', 'exitcycle', 'section')


def run(ctx):
    if ctx.replay:
        c = ctx.replay['case']
        cases = [(c['prog'], c['inputs'])]
    else:
        cases = []
        for fam, feats, q, t in PLAN:
            for _ in range(q if ctx.quick else t):
                cases.append(S.gen_sig_case(ctx.rng, fam, BASE + feats))

    def check(cs, label='shrink'):
        with S.checked_builds():
            return F.behaviour_check(ctx, label, cs, S.transform_sig)
    results, fails, legal = check(cases, 'sig')
    S.report_grouped(ctx, 'sig', cases, results, fails, check, S.sig_tags)
    ctx.cover['programs_with_legal_inputs'] = len(legal)
    classes = {}
    for idx in legal:
        t = S.sig_tags(cases[idx][0])
        classes[t] = classes.get(t, 0) + 1
    ctx.cover['legal_programs_by_class'] = classes
    sec3 = sum(n for t, n in classes.items() if 'sec3' in t.split(':')[1].split('+'))
    ctx.cover['sec3_legal_programs'] = sec3
    pats = {}
    for idx in legal:
        for u in cases[idx][0]['units']:
            for st in S.walk_stmts(u['body']):
                if st['s'] == 'call' and st['args'] and st['args'][0]['k'] == 'arr' and len(st['args'][0]['c']) == 3:
                    pat = st['name'] + '(' + ','.join(':' if c['k'] == 'range' else 's' for c in st['args'][0]['c']) + ')'
                    pats[pat] = pats.get(pat, 0) + 1
    ctx.cover['sec3_call_site_patterns'] = pats
    if not ctx.replay and sec3 < (SEC3_MIN[0] if ctx.quick else SEC3_MIN[1]):
        raise F.MachineryError(f'vacuity: only {sec3} legal programs pass a 3-d section with a leading / middle scalar subscript')
    seen = set()
    for r in results:
        fam = cases[r['idx']][0]['meta']['family']
        if fam not in seen and 'newtext' in r:
            seen.add(fam)
            ctx.sample({'family': fam, 'opts': cases[r['idx']][0]['meta']['opts'], 'program': r['text'], 'transformed': r['newtext'][:3500]})
    ctx.assumptions += [
        'MiniFortran subset (see C01) + explicit-shape dummies with expression bounds, assumed-shape dummies, automatic arrays; the PROGRAM driver is harness-owned',
        'seq: element actuals of 1-d and 2-d integer arrays (literal or two-valued subscripts) bound to 1-d / 2-d explicit-shape dummies that fit into the rest of the array; whole-array and section actuals as negatives',
        'dup: all call sites of one callee duplicate the same positions (RemoveDuplicateArgs documents that differing duplicates are unsupported); duplicated dummies are intent(in)',
        'shape: assumed-shape integer dummies of rank 1 and 2 bound to whole arrays (constant and variable extents, lower bounds 0, 1, 2, -1) and sections; callee uses SIZE/LBOUND/UBOUND/SUM and whole-array assignment',
        'shape/sec3: 3-d locals wd(2,3,4), we(2,nv,4); sections with full ranges `:` and one (rank-2 dummies sh2 in, sh4 inout) or two (rank-1 dummy sh1) scalar subscripts at every position; explicit ranges inside such sections are not generated',
        'transformed builds run with -fcheck=bounds,do: an actual argument made too small for its dummy or an index put out of bounds by a rewritten declaration is a violation',
        'dtype/tbp: one- and two-level derived types (scalar and array components with lower bound 0 or 1, a nested derived-type component) passed whole or as `outer%inner`; type-bound calls with the PASS attribute (the machine executes them as plain calls with the passed object first); arrays of derived type, allocatable/pointer components and generic bindings are not generated',
    ]
