"""C44 Parallel JIT library builds compile objects after their module dependencies.

spec: JitBuild.tla (functional core En/Ap of Lib.build's wait protocol + property predicates),
      MC_JitBuild (exhaustive: all DAGs on <= 4 objects, all walk orders, W in 1..3, safety + liveness;
                   MC_JitBuild_stale.cfg is a negative control: a stale q_task breaks LinkAfterAll),
      Gen_JitBuild (TLC enumerates the model's DAG universe -> realised as Fortran and built for real),
      Trace_JitBuild (TLC validates the start/end logs of REAL builds against property + model).
Real code: loki.jit_build.Lib.build / Builder / Obj / workqueue with a logging compiler wrapper.
"""
import concurrent.futures as cf
import json
import os
import random
import subprocess
import sys
import time

from ..core import MachineryError, SPEC
from .. import lib_jitbuild as jb

SCENARIOS = ('plain', 'extern', 'alias', 'rebuild')


def random_dag(rng, nmin, nmax, extern):
    n = rng.randint(nmin, nmax)
    p = rng.choice([0.15, 0.3, 0.5, 0.8])
    nox = rng.sample(range(1, n + 1), rng.randint(1, 2)) if extern else []
    deps, src = [], []
    for o in range(1, n + 1):
        if o in nox and o < n:
            deps.append([])
            src.append(False)
            continue
        src.append(True)
        deps.append([d for d in range(1, o) if rng.random() < p])
    # make sure source-less objects are used by somebody (otherwise they do not exist for Loki)
    for o in range(1, n + 1):
        if not src[o - 1] and not any(o in deps[u] for u in range(n)):
            users = [u for u in range(o + 1, n + 1) if src[u - 1]]
            if users:
                deps[rng.choice(users) - 1].append(o)
                deps = [sorted(set(d)) for d in deps]
            else:
                src[o - 1] = True
    return {'n': n, 'deps': deps, 'src': src}


def relabel(dag, rng):
    """Random renaming of the objects (the generator's edges go from higher to lower index)."""
    n = dag['n']
    perm = list(range(1, n + 1))
    rng.shuffle(perm)              # old index i -> new index perm[i-1]
    deps = [None] * n
    src = [None] * n
    for o in range(1, n + 1):
        deps[perm[o - 1] - 1] = sorted(perm[d - 1] for d in dag['deps'][o - 1])
        src[perm[o - 1] - 1] = dag['src'][o - 1]
    return {'n': n, 'deps': deps, 'src': src}


def make_job(ctx, idx, spec):
    """Realise one DAG case as Fortran sources and describe its builds."""
    d = os.path.join(ctx.work, f'case{idx}')
    os.makedirs(d, exist_ok=True)
    rng = random.Random(spec['rseed'])
    stems, files = jb.realise(spec['dag'], os.path.join(d, 'src'), rng, alias=spec['scen'] == 'alias')
    liborder = [f for f in files if f]
    rng.shuffle(liborder)
    return {'srcdir': os.path.join(d, 'src'), 'builddir': os.path.join(d, 'build'), 'log': os.path.join(d, 'events.log'),
            'jitter': os.path.join(d, 'jitter'), 'wrapper': os.path.join(ctx.work, 'jitwrap.sh'), 'stems': stems,
            'liborder': liborder, 'out': os.path.join(d, 'result.json'), 'scale': spec.get('scale', 0.006),
            'runs': [{'W': w, 'seed': s, 'scen': spec['scen']} for (w, s) in spec['runs']]}


def run_batch(ctx, bidx, jobs, deadline):
    """Run a batch of jobs in one fresh python process; returns per job (stems, results) or None when
    the batch was not started because the tier's build budget is used up."""
    if deadline is not None and time.time() > deadline:
        return [None] * len(jobs)
    jf = os.path.join(ctx.work, f'batch{bidx}.json')
    with open(jf, 'w') as fh:
        json.dump({'jobs': jobs, 'deadline': deadline}, fh)
    errp = os.path.join(ctx.work, f'batch{bidx}.err')
    with open(errp, 'w') as errfh:
        try:
            p = subprocess.run([sys.executable, '-m', 'harness.lib_jitbuild', jf], cwd=ctx.work, stdout=errfh,
                               stderr=errfh, timeout=900, check=False)
        except subprocess.TimeoutExpired as e:
            raise MachineryError(f'C44 child build process timed out for batch {bidx}') from e
    if p.returncode != 0 or not all(os.path.exists(j['out']) for j in jobs):
        with open(errp) as fh:
            tail = fh.read()[-1500:]
        raise MachineryError(f'C44 child build process failed for batch {bidx}:\n{tail}')
    out = []
    for j in jobs:
        with open(j['out']) as fh:
            res = json.load(fh)
        out.append((j['stems'], res) if res else None)
    return out


def to_tlc_case(dag, scen, stems, res, base):
    """Project one recorded build onto the trace vocabulary of Trace_JitBuild."""
    idx = {st.lower(): i + 1 for i, st in enumerate(stems) if st}
    idx.update({st: i + 1 for i, st in enumerate(stems) if st})
    procs = {}
    events = []
    for e in res['events']:
        o = idx.get(e['obj'], idx.get(e['obj'].lower(), 0)) if e['a'] != 'link' else 0
        w = 0
        if e['a'] in ('start', 'end'):
            w = procs.setdefault(e['proc'], len(procs) + 1)
        events.append({'a': e['a'], 'o': o, 'w': w, 'rc': e['rc']})
    submits = [e['o'] for e in events if e['a'] == 'submit' and e['o']]
    order = [o for o in range(1, dag['n'] + 1) if not dag['src'][o - 1]]
    for o in submits:
        if o not in order:
            order.append(o)
    order += [o for o in range(1, dag['n'] + 1) if o not in order]
    return {'scen': scen, 'n': dag['n'], 'deps': dag['deps'], 'src': dag['src'], 'W': res['W'], 'order': order,
            'model': scen != 'alias', 'events': events, 'built': res['built'], 'members': res['members'],
            'base_built': base['built'], 'base_members': base['members']}


def overlap(events):
    """Largest number of compiles in flight according to the log (vacuity evidence only)."""
    cur = best = 0
    for e in events:
        if e['a'] == 'start':
            cur += 1
            best = max(best, cur)
        elif e['a'] == 'end':
            cur -= 1
    return best


def key_of(case, clause):
    par = 'serial' if case['W'] == 1 else 'parallel'
    k = f"{case['scen']}:{par}:{clause}"
    if clause.startswith('P-LinkAfterAll'):
        ended = {e['o'] for e in case['events'] if e['a'] == 'end'}
        missing = {o for o in range(1, case['n'] + 1) if case['src'][o - 1]} - ended
        roots = {o for o in range(1, case['n'] + 1) if case['src'][o - 1]
                 and not any(o in case['deps'][u] for u in range(case['n']))}
        k += ':missing=' + ('roots' if missing == roots else 'subset-of-roots' if missing <= roots else 'other')
    return k


def run(ctx):
    quick = ctx.quick
    jb.write_wrapper(os.path.join(ctx.work, 'jitwrap.sh'))
    pool = cf.ThreadPoolExecutor(max_workers=2)

    # 1. design-level model checking (runs concurrently with the real builds below)
    def mc_all():
        acts = ('Skip', 'WaitDep', 'Submit', 'SerialReturn', 'EndWalk', 'WaitAll', 'Link', 'Start', 'Finish')
        with open(os.path.join(SPEC, 'MC_JitBuild.cfg')) as fh:
            text = fh.read()
        if quick:
            # all DAGs on <= 4 objects: safety; all DAGs on <= 3 objects: safety + liveness (thorough: everything on <= 4)
            variants = [text.replace('PROPERTY EventuallyLinked\n', ''), text.replace('MaxN = 4', 'MaxN = 3').replace('MaxNoSrc = 1', 'MaxNoSrc = 3')]
        else:
            variants = [text.replace('MaxNoSrc = 1', 'MaxNoSrc = 4')]

        def one(iv):
            cfg = os.path.join(ctx.work, f'MC_JitBuild_run{iv[0]}.cfg')
            with open(cfg, 'w') as fh:
                fh.write(iv[1])
            ctx.mc('MC_JitBuild', cfg, timeout=2400, workers=6, required_actions=acts)
        with cf.ThreadPoolExecutor(max_workers=2) as mex:
            list(mex.map(one, enumerate(variants)))
        # negative control: the model started from a stale future must break LinkAfterAll
        r = ctx.tlc('MC_JitBuild', 'MC_JitBuild_stale.cfg', workers=2, timeout=600)
        if r.invariant_violated != 'LinkAfterAll':
            raise MachineryError(f'negative control MC_JitBuild_stale did not violate LinkAfterAll:\n{r.tail(30)}')
        ctx.cover['negative_control_stale_qtask'] = 'LinkAfterAll violated as expected'
    # development only (mutation testing of the conformance part): VERIF_DEV_SKIP_MC=1 skips the spec-level run
    mc_future = pool.submit((lambda: None) if os.environ.get('VERIF_DEV_SKIP_MC') else mc_all)

    # 2. cases
    specs = []
    if ctx.replay:
        specs = [ctx.replay['case']]
    else:
        # 2a. spec -> code: the model's own universe of DAGs, enumerated by TLC
        gcfg = os.path.join(ctx.work, 'Gen_JitBuild_run.cfg')
        with open(gcfg, 'w') as fh:
            fh.write(f'SPECIFICATION GSpec\nCONSTANT GenN = {3 if quick else 4}\nCONSTANT GenNoSrc = 1\nCHECK_DEADLOCK FALSE\n')
        r = ctx.tlc('Gen_JitBuild', gcfg, workers=1, timeout=600)
        dags = [json.loads(v[1]) for v in r.prints('DAG')]
        if len(dags) < (28 if quick else 100):
            raise MachineryError(f'Gen_JitBuild produced only {len(dags)} DAGs\n{r.tail()}')
        ctx.cover['tlc_enumerated_dags'] = len(dags)
        for i, dag in enumerate(dags):
            rs = ctx.seed * 100003 + i
            rng = random.Random(rs)
            scen = 'plain' if all(dag['src']) else 'extern'
            runs = [(1, rs), (2 + i % 2, rs + 1)] if quick else [(1, rs), (2, rs + 1), (3, rs + 2)]
            specs.append({'dag': relabel(dag, rng), 'scen': scen, 'rseed': rs, 'runs': runs})
        # 2b. seeded random larger DAGs, all scenarios
        nrand = 18 if quick else 180
        for i in range(nrand):
            rs = ctx.seed * 100003 + 50000 + i
            rng = random.Random(rs)
            scen = ('rebuild', 'alias', 'plain', 'extern', 'plain', 'plain')[i % 6]
            dag = relabel(random_dag(rng, 4, 8 if quick else 10, scen == 'extern'), rng)
            ws = rng.sample(range(2, 9), 2 if quick else 3)
            specs.append({'dag': dag, 'scen': scen, 'rseed': rs, 'scale': rng.choice([0.003, 0.006, 0.012]),
                          'runs': [(1, rs)] + [(w, rs + 7 * w) for w in ws]})

        # interleave the two families so that a budget cut does not remove one of them
        fam_a = [sp for sp in specs if 'scale' not in sp]
        fam_b = [sp for sp in specs if 'scale' in sp]
        specs = []
        while fam_a or fam_b:
            specs += fam_b[:1] + fam_a[:2]
            fam_b, fam_a = fam_b[1:], fam_a[2:]

    # 3. drive the real builds (batches of jobs per child process, bounded by the tier's build budget)
    jobs = [make_job(ctx, i, sp) for i, sp in enumerate(specs)]
    bsize = 4
    batches = [list(range(i, min(i + bsize, len(jobs)))) for i in range(0, len(jobs), bsize)]
    deadline = None if ctx.replay else ctx.t0 + (70 if quick else 900)
    with cf.ThreadPoolExecutor(max_workers=8) as ex:
        # the first batches (they cover every scenario and both case families) are built whatever it costs;
        # the rest only while the tier's build budget lasts (a loaded machine then checks fewer cases)
        nmin = 4 if quick else 12
        bouts = list(ex.map(lambda a: run_batch(ctx, a[0], [jobs[i] for i in a[1]], deadline if a[0] >= nmin else None),
                            enumerate(batches)))
    outs = [o for bo in bouts for o in bo]
    skipped = sum(o is None for o in outs)
    ctx.cover['cases_not_built_for_budget'] = skipped
    specs = [sp for sp, o in zip(specs, outs) if o is not None]
    outs = [o for o in outs if o is not None]

    # 4. project + validate
    cases, meta = [], []
    per = {}
    maxov = 0
    parallel_overlap_runs = 0
    for spec, (stems, results) in zip(specs, outs):
        base = results[0]
        if base['W'] != 1:
            raise MachineryError('first run of a case must be the serial baseline')
        for res in results:
            c = to_tlc_case(spec['dag'], spec['scen'], stems, res, base)
            cases.append(c)
            meta.append((spec, res))
            k = (spec['scen'], 'W=1' if res['W'] == 1 else 'W>1')
            per[k] = per.get(k, 0) + 1
            ov = overlap(c['events'])
            maxov = max(maxov, ov)
            parallel_overlap_runs += ov > 1
    verdicts = ctx.validate('Trace_JitBuild', 'Trace_JitBuild', cases, timeout=900)
    machinery = []
    for i, (spec, res) in enumerate(meta):
        ok, clause, pos = verdicts[i]
        if ok:
            continue
        payload = {'dag': spec['dag'], 'scen': spec['scen'], 'rseed': spec['rseed'], 'scale': spec.get('scale', 0.01),
                   'runs': [(1, spec['runs'][0][1])] + ([(res['W'], res['seed'])] if res['W'] != 1 else [])}
        if clause.startswith('M-'):
            machinery.append((clause, pos, payload, cases[i]['events'][:pos]))
            continue
        ctx.violation(key_of(cases[i], clause),
                      f"build log rejected at event {pos} by clause {clause}: scenario={spec['scen']} workers={res['W']} "
                      f"n={spec['dag']['n']} deps={spec['dag']['deps']} built={res['built']} err={res['err'][:120]!r}",
                      payload)
    mc_future.result()
    pool.shutdown()
    ctx.cover['model_mismatches'] = len(machinery)
    if machinery and not ctx.violations:
        raise MachineryError(f'{len(machinery)} real build logs are not behaviours of the JitBuild model '
                             f'(model clause, not a property clause); first: {machinery[0]}')
    if machinery:
        print(f'WARNING: {len(machinery)} recorded runs are not behaviours of the model (M clauses), first: {machinery[0][:2]}', file=sys.stderr)

    ctx.cover['builds_per_scenario'] = {f'{a}:{b}': n for (a, b), n in sorted(per.items())}
    ctx.cover['distinct_dags_built'] = len({json.dumps(s['dag'], sort_keys=True) for s in specs})
    ctx.cover['events_validated'] = sum(len(c['events']) for c in cases)
    ctx.cover['max_compiles_in_flight_observed'] = maxov
    ctx.cover['parallel_runs_with_overlapping_compiles'] = parallel_overlap_runs
    if not ctx.replay and parallel_overlap_runs < 5:
        raise MachineryError('vacuity: (almost) no build with two compiles in flight was observed')
    ctx.sample({'dag': specs[0]['dag'], 'W': meta[0][1]['W'], 'events': cases[0]['events'][:8]})
    big = max(range(len(cases)), key=lambda i: len(cases[i]['events']))
    ctx.sample({'dag': meta[big][0]['dag'], 'scen': meta[big][0]['scen'], 'W': meta[big][1]['W'],
                'events': cases[big]['events'][:12]})
    ctx.assumptions += [
        'real schedules are sampled (seed-derived jitter in the compiler wrapper, W in 1..8); only the model is explored exhaustively',
        'fresh build directory and force=True per build: the up-to-date shortcuts of Lib.build/Obj.build are not exercised',
        'dependencies are Fortran USE of modules (plus intrinsic modules without source); no #include/.intfb headers, no C sources',
        'no file uses a module it defines itself (Loki then reports a dependency cycle for serial and parallel builds alike)',
        'scenario alias (module name differs from the file stem) is checked against the property (P clauses) only, not against the model',
        'library equality = archive member list + defined global symbols per member (object code bytes embed the build directory)',
        'every build runs in a fresh python process; cross-process ordering relies only on O_APPEND line order',
    ]


def selftest(ctx):
    """Sensitivity of Trace_JitBuild (no Loki involved): a hand-written good log is accepted, every
    corruption of a recorded field is rejected by the expected clause."""
    import copy

    def ev(a, o, w=0, rc=0):
        return {'a': a, 'o': o, 'w': w, 'rc': rc}
    good = {'scen': 'plain', 'n': 3, 'deps': [[], [1], [1, 2]], 'src': [True, True, True], 'W': 2, 'order': [1, 2, 3],
            'model': True, 'built': True, 'members': ['a.o', 'b.o', 'c.o'], 'base_built': True,
            'base_members': ['a.o', 'b.o', 'c.o'],
            'events': [ev('submit', 1), ev('start', 1, 1), ev('end', 1, 1), ev('submit', 2), ev('start', 2, 2),
                       ev('end', 2, 2), ev('submit', 3), ev('start', 3, 1), ev('end', 3, 1), ev('link', 0)]}
    cases, expect = [good], ['ok']

    def add(clause, fn):
        c = copy.deepcopy(good)
        fn(c)
        cases.append(c)
        expect.append(clause)
    add('P-StartAfterDepsFinished:early-submit', lambda c: c['events'].insert(5, c['events'].pop(6)))
    add('P-AtMostOnce:second-start', lambda c: c['events'].insert(9, ev('start', 2, 2)))
    add('P-LinkAfterAll:object-never-compiled', lambda c: c['events'].insert(8, c['events'].pop(9)))
    add('P-SameLibraryAsSerial:members', lambda c: c.update(members=['a.o', 'b.o']))
    add('P-SameLibraryAsSerial:build-outcome', lambda c: c.update(built=False))

    def two_tasks(c):
        c.update(deps=[[], [], [1, 2]])
        c['events'] = [ev('submit', 1), ev('submit', 2), ev('start', 1, 1), ev('start', 2, 1), ev('end', 1, 1), ev('end', 2, 1),
                       ev('submit', 3), ev('start', 3, 1), ev('end', 3, 1), ev('link', 0)]
    add('M-worker-runs-two-tasks', two_tasks)
    add('M-compile-failed', lambda c: c['events'][2].update(rc=1))

    def serial_wrong_order(c):
        c.update(W=1, order=[2, 1, 3])
        c['events'] = [ev('submit', 2), ev('start', 2, 1), ev('end', 2, 1), ev('submit', 1), ev('start', 1, 1), ev('end', 1, 1),
                       ev('submit', 3), ev('start', 3, 1), ev('end', 3, 1), ev('link', 0)]
    add('P-StartAfterDepsFinished', serial_wrong_order)

    def too_many(c):
        c.update(deps=[[], [], []])
        c['events'] = [ev('submit', 1), ev('submit', 2), ev('submit', 3), ev('start', 1, 1), ev('start', 2, 2), ev('start', 3, 3),
                       ev('end', 1, 1), ev('end', 2, 2), ev('end', 3, 3), ev('link', 0)]
    add('M-more-workers-than-W', too_many)
    verdicts = ctx.validate('Trace_JitBuild', 'Trace_JitBuild', cases, timeout=300)
    bad = 0
    for i, exp in enumerate(expect):
        ok, clause, _ = verdicts[i]
        got = 'ok' if ok else clause
        flag = 'ok ' if got == exp else 'BAD'
        bad += got != exp
        print(f'selftest C44 {flag} case {i}: expected {exp}, TLC said {got}')
    return 1 if bad else 0
