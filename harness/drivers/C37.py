"""C37 Single-column (SCC) pipelines preserve driver and kernel results.

spec: FMachine (MiniFortran reference machine) + Trace_FMachine.  For IFS-style call trees
      kernel (driver role, block loop) -> k1 [k2] -> n1 / n2  (harness/lib_fm_scc.GenSCC) every SCC pipeline variant is
      applied through the real Scheduler; the gfortran build (directives are comments) of the transformed module must
      print exactly Run(program, input).out as evaluated by TLC.  Pre-flight: gfortran on the ORIGINAL call tree must
      agree with the machine (else the case is dropped / machinery error).
"""
from .. import lib_fm as F
from .. import lib_fm_scc as S

FEATURES = ('nested', 'vecnot', 'twokernels', 'drvloop', 'carry', 'twocalls', 'kinds')
# feature sets: the plain single-column domain, + loop-fusion pragmas (vertical), + non-idempotent scalar updates
FSETS = [FEATURES, FEATURES, FEATURES + ('fuse',), FEATURES + ('accum',)]


CORPUS_PICK = {'corpus-carry': ['vvector', 'svector', 'vhoist-kw', 'vstack'],
               'corpus-accum': ['vvector-trim', 'svector', 'vraw'],
               'corpus-basic': ['vvector-trim', 'shoist', 'shoist-kw', 'sraw', 'vraw', 'vftrptr', 'vdirectidx', 'sstack']}


def gen_cases(ctx, n):
    cases = S.corpus('C37', ctx.rng)
    for i in range(n):
        feats = FSETS[i % len(FSETS)]
        g = S.GenSCC(ctx.rng, feats, names='ifs' if i % 3 else 'alt')
        prog = g.program(nblocks=ctx.rng.randint(2, 4))
        cases.append((prog, g.inputs(prog, 3)))
    return cases


def run(ctx):
    variants = list(S.C37_VARIANTS)
    if ctx.replay:
        c = ctx.replay['case']
        cases = [(c['prog'], c['inputs'])]
        pick = {0: [c['variant']] if c.get('variant') else variants}
    else:
        n, per = (6, 5) if ctx.quick else (40, 6)
        cases = gen_cases(ctx, n)
        # rotate so that every variant is exercised; 'fuse' programs always see the variants that pass `vertical`
        pick = {}
        for i, (prog, _) in enumerate(cases):
            vs = [variants[(i * per + j) % len(variants)] for j in range(per)]
            if prog['features'][0] in CORPUS_PICK:
                vs = CORPUS_PICK[prog['features'][0]]
            if 'fuse' in prog['features']:
                vs = list(dict.fromkeys(['vvector-vertical', 'svector-trim', 'vhoist-kw'] + vs))[:per]
            pick[i] = vs
    results, fails, legal = S.behaviour_check_multi(ctx, 'scc', cases, variants, S.transform_c37, pick=pick)
    S.report_failures_multi(ctx, 'C37', cases, results, fails, S.transform_c37, shrink=not ctx.replay,
                            budget=3 if ctx.quick else 10, shrink_all=not ctx.quick)
    ctx.cover['programs_with_legal_inputs'] = len(legal)
    ctx.cover['variants_exercised'] = sorted({v for r in results for v in r['new']})
    ctx.cover['variant_runs_ok'] = {v: sum(1 for r in results if r['new'].get(v, ('',))[0] == 'ok') for v in variants}
    ctx.cover['temporaries_in_programs'] = sum(len(S.temporaries_of(p)) for p, _ in cases)
    ctx.cover['feature_sets'] = sorted({','.join(p['features']) for p, _ in cases})
    if results:
        ctx.sample({'program': results[0]['text'], 'inputs': cases[0][1][:1]})
    ctx.assumptions += [
        'legal input domain of SCC (enforced by the generator): independent columns (horizontal subscript is always the plain '
        'horizontal index, no horizontal reductions), scalars defined inside horizontal loops are defined before use in '
        'every iteration, data without horizontal dimension is kernel-local or read-only, kernels do not print',
        "feature 'accum' (non-idempotent scalar update between two horizontal loops) is generated in a quarter of the programs "
        'and reported under its own statement-kind key if it fails',
        'directives (openacc / omp-gpu / openmp) are compiled as comments; CUDA/HIP/field-API/ecstack variants are not run',
        'FtrPtr/DirectIdx stack pipelines: the CONTIGUOUS attribute gfortran rejects on the explicit-shape stack dummy is '
        'stripped by the harness (documented normalisation, the as-is output is judged by C38)',
        'transformed code is built with -fcheck=bounds -fsanitize=address: a storage overrun is a failure',
        'extents klon<=4, klev<=3, ngpblks<=2; dyadic reals; two naming/Dimension configurations',
        'TLC evaluates each distinct (program, input, observed output) once (equal observations share the verdict)']
