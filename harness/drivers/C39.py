"""C39 Parametrisation preserves behaviour for matching inputs; the generated guard triggers for the others.

spec: FMachine (MiniFortran reference machine) + Trace_Parametrise: for the gfortran build of the call tree that
      ParametriseTransformation rewrote (through the Scheduler), every input whose parametrised dummies have the
      fixed values must print Run(original, input).out; every other input must stop through the generated guard
      (observation <<Abort>>: `STOP 1` after the default message, or the abort callback's `ERROR STOP`).
code: loki/transformations/parametrise.py ParametriseTransformation(dic2p, replace_by_value, entry_points,
      abort_callback) over kernel -> lev1 -> lev2 (lib_fm_signature.GenParam);
      declare_fixed_value_scalars_as_constants on general kernels (class "consts": no parametrised dummy, every
      input must give Run(original).out).
"""
from .. import lib_fm as F
from .. import lib_fm_signature as S

# (features, share): plain trees, trees passing a parametrised variable twice, trees whose call sites differ
MIX = [((), 0.5), (('entry1',), 0.14), (('dup',), 0.18), (('mixed',), 0.18)]
BASE = ('select', 'while', 'exitcycle', 'section', 'twod')
CROSS_MIN = (8, 60)       # programs of the `cross` stratum per quick / thorough run


def gen_cases(ctx, n):
    cases = []
    for feats, share in MIX:
        for _ in range(max(2, round(n * share))):
            cases.append(S.gen_param_case(ctx.rng, BASE + feats, ninputs=4 if ctx.quick else 6))
    for i in range(max(4, round(n * 0.2))):
        cases.append(S.gen_consts_case(ctx.rng, BASE + (('call', 'fcall', 'assoc') if i % 2 else ('call', 'fcall')), ninputs=3))
    # stratum `cross`: three levels whose size / flag dummies are spelled like OTHER top-level dic2p keys (crossing and
    # permuted names between the levels, pairwise distinct values): the constant must follow the binding, not the name
    for _ in range(CROSS_MIN[0] if ctx.quick else CROSS_MIN[1]):
        cases.append(S.gen_param_case(ctx.rng, BASE + ('cross',), ninputs=4 if ctx.quick else 6))
    return cases


def run(ctx):
    if ctx.replay:
        c = ctx.replay['case']
        cases = [(c['prog'], c['inputs'])]
    else:
        cases = gen_cases(ctx, 44 if ctx.quick else 350)

    def check(cs, label='shrink'):
        return S.param_check(ctx, label, cs, S.transform_param)
    results, fails, legal = S.param_check(ctx, 'param', cases, S.transform_param)
    S.report_grouped(ctx, 'param', cases, results, fails, check, S.param_tags)
    ctx.cover['programs_with_legal_inputs'] = len(legal)
    tags = {}
    for prog, _ in cases:
        t = S.param_tags(prog) + '/' + prog['param']['entry'] + ('/callback' if prog['param']['callback'] else '/default-abort')
        tags[t] = tags.get(t, 0) + 1
    ctx.cover['programs_by_class'] = tags
    for want in ('plain', 'rbv'):
        r = next((r for r in results if 'newtext' in r and S.param_tags(cases[r['idx']][0]) == want), None)
        if r:
            ctx.sample({'class': want, 'param': cases[r['idx']][0]['param'], 'program': r['text'], 'transformed': r['newtext'][:3500]})
    # vacuity guard for the `cross` stratum: programs whose matching inputs were judged (pre-flight legal)
    cross = [idx for idx, (prog, inputs) in enumerate(cases) if 'cross' in S.param_tags(prog).split('+')]
    cross_judged = [idx for idx in cross if any(k < (len(cases[idx][1]) + 1) // 2 for k in legal.get(idx, []))]
    ctx.cover['cross_programs'] = len(cross)
    ctx.cover['cross_programs_with_judged_matching_input'] = len(cross_judged)
    if not ctx.replay and len(cross_judged) < (6 if ctx.quick else 45):
        raise F.MachineryError(f'vacuity: only {len(cross_judged)} of {len(cross)} crossing-name call trees were judged on a matching input')
    if not ctx.replay and (ctx.cover.get('param_judged_matching', 0) == 0 or ctx.cover.get('param_judged_abort', 0) == 0):
        raise F.MachineryError(f'vacuity: matching={ctx.cover.get("param_judged_matching")} abort={ctx.cover.get("param_judged_abort")}')
    ctx.assumptions += [
        'MiniFortran subset (see C01) + automatic / explicit-shape dummy arrays whose extents are integer dummies; the PROGRAM driver is harness-owned',
        'parametrised dummies are intent(in) integers (sizes 1..4, flags 0..3); dic2p spells the names as the source does',
        'the guard is observed as: exit status /= 0 and the guard message on stdout (default PRINT + STOP 1) or stderr (callback: ERROR STOP "msg"); any other non-zero exit is a run-time failure of the transformed code (violation)',
        'entry_points=(lev1,): the kernel calls lev1 unconditionally with its own nlev, mode, so "matching input" is decided on the kernel inputs',
        'transformed builds run with -fcheck=bounds,do',
        'stratum cross: lev1 / lev2 dummies spelled like other top-level keys (mode<->nlev, n, m), every re-used name is a dic2p key, values pairwise distinct, all call sites plain, one unconditional call per level',
    ]
