"""C03 Conservative output reproduces unmodified source verbatim.

spec: SourceStatus.tla    per node: status (VALID / INVALID_NODE / INVALID_CHILDREN / NONE) and source lines; clauses
                          Unmodified (output of a unit = its original lines), ValidSound (a VALID node has no touched
                          node in its original subtree), ValidEmitted (the original lines of the outermost VALID nodes
                          occur in the output as disjoint blocks in tree order)
      MC_SourceStatus     design level: the rebuild contract satisfies the clauses, wrong markings / a regenerating
                          emitter are rejected
      Trace_SourceStatus  TLC decides the recorded cases
      Trace_FMachine      the conservative output of an edited program must behave as the EDITED program
Real code: Sourcefile.from_source(frontend=FP) with frontend-store-source, fgen(.., conservative=True) /
           Sourcefile.to_fortran(conservative=True) (FortranCodegenConservative), Transformer(invalidate_source=True),
           SubstituteExpressions(invalidate_source=True), Source.invalidate / status.
"""
import copy
import os
import re
import time

from .. import core
from ..core import MachineryError
from .. import lib_fm as F
from .. import lib_text as T

FEATURES = ('select', 'while', 'call', 'exitcycle', 'section', 'fcall', 'twod', 'assoc')


# ------------------------------------------------------------------------------------------- recording
def parse(text):
    from loki import Sourcefile, config_override
    from loki.frontend import FP
    with config_override({'frontend-store-source': True}):
        return Sourcefile.from_source(text, frontend=FP)


def walk(obj, par, out, objs):
    """Pre-order list of (object, parent index) over program units, sections and IR nodes (own traversal order:
    docstring, spec, body, contains for units; `children` for nodes)."""
    from loki import ProgramUnit, ir
    if obj is None:
        return
    if isinstance(obj, (tuple, list)):
        for c in obj:
            walk(c, par, out, objs)
        return
    if isinstance(obj, ProgramUnit):
        out.append((obj, par))
        me = len(out)
        for sec in (obj.docstring, obj.spec, getattr(obj, 'body', None), obj.contains):
            walk(sec, me, out, objs)
        return
    if not isinstance(obj, ir.Node):
        return
    out.append((obj, par))
    me = len(out)
    if isinstance(obj, ir.CommentBlock):
        walk(obj.comments, me, out, objs)
        return
    if isinstance(obj, (ir.Interface, ir.TypeDef)):
        walk(obj.body, me, out, objs)
        return
    for c in obj.children:
        walk(c, me, out, objs)


def status_of(obj):
    s = getattr(obj, 'source', None)
    if s is None:
        return 'NONE', None
    return s.status.name, s


def record_tree(root, lines, source_ids=None):
    """Node records for SourceStatus.tla. `source_ids` maps id(Source object) -> index in the ORIGINAL tree."""
    flat = []
    walk(root, 0, flat, None)
    nodes = []
    for obj, par in flat:
        st, s = status_of(obj)
        l0 = int(s.lines[0]) if s is not None and s.lines and s.lines[0] else 0
        l1 = int(s.lines[1]) if s is not None and s.lines and s.lines[1] else l0
        whole = bool(s is not None and s.string is not None and l0 > 0 and s.string.split('\n') == lines[l0 - 1:l1])
        if whole and type(obj).__name__ in ('Comment', 'CommentBlock'):
            # an inline comment records the whole line it shares with a statement: only comment-only lines count
            whole = all(not l.strip() or l.lstrip().startswith('!') for l in lines[l0 - 1:l1])
        oid = 0
        if source_ids is not None and s is not None:
            # a node that stays VALID keeps the very Source object; an invalidated one carries a clone, which is
            # traced back by kind and original lines (when that is unambiguous)
            oid = source_ids.get(id(s), 0) or source_ids.get((type(obj).__name__, l0, l1), 0)
        nodes.append({'par': par, 'kind': type(obj).__name__, 'st': st, 'l0': l0, 'l1': l1, 'oid': oid, 'whole': whole})
    return nodes, flat


def unit_chain(unit):
    chain = []
    while unit is not None:
        chain.append(unit)
        unit = getattr(unit, 'parent', None)
    return chain


def mark_units(sf, routine):
    """The protocol Loki itself uses after editing a routine through `routine.body = Transformer(..).visit(routine.body)`
    (loki/lint/utils.py Fixer.fix_subroutine, loki/backend/tests/test_conservative.py): the enclosing program units are
    marked by hand, because assigning a section does not touch the unit's own Source."""
    from loki.frontend.source import SourceStatus
    for u in unit_chain(routine):
        if getattr(u, 'source', None) is not None:
            u.source.status = SourceStatus.INVALID_CHILDREN
        cont = getattr(u, 'contains', None)
        if u is not routine and cont is not None and getattr(cont, 'source', None) is not None:
            cont.source.status = SourceStatus.INVALID_CHILDREN
    if sf.ir is not None and getattr(sf.ir, 'source', None) is not None:
        sf.ir.source.status = SourceStatus.INVALID_CHILDREN


# ------------------------------------------------------------------------------------------- edits
def candidates(routine):
    from loki import ir, FindNodes
    out = []
    for cls in (ir.Assignment, ir.Comment, ir.CallStatement):
        out += [n for n in FindNodes(cls).visit(routine.body) if getattr(n, 'source', None) is not None]
    return out


def apply_edit(routine, target, op, literal=7):
    """One local edit on `routine.body` through the real transformers. Returns a description."""
    from loki import ir, Transformer, SubstituteExpressions
    from loki.expression import symbols as sym
    if op == 'replace':
        if isinstance(target, ir.Assignment):
            new = ir.Assignment(lhs=target.lhs, rhs=sym.IntLiteral(literal))
        elif isinstance(target, ir.Comment):
            new = ir.Comment(text='! replaced comment')
        else:
            new = ir.Comment(text='! call removed')
        routine.body = Transformer({target: new}, invalidate_source=True).visit(routine.body)
    elif op == 'remove':
        routine.body = Transformer({target: None}, invalidate_source=True).visit(routine.body)
    elif op == 'subst':
        if not isinstance(target, ir.Assignment):
            raise F.NotApplicable('subst needs an assignment')
        new = SubstituteExpressions({target.rhs: sym.IntLiteral(literal)}, invalidate_source=True).visit(target)
        routine.body = Transformer({target: new}, invalidate_source=True).visit(routine.body)
    else:
        raise MachineryError(f'unknown edit {op}')


RENAME_SUFFIX = '_zq'
HISTORIES = ('replace', 'remove', 'subst', 'rename', 'replace_rename', 'remove_rename', 'rename_replace', 'rename_remove')


def loop_variable(routine, name=None):
    from loki import ir, FindNodes
    for l in FindNodes(ir.Loop).visit(routine.body):
        if name is None or str(l.variable.name).lower() == name:
            return l.variable
    return None


def apply_rename(routine, name=None):
    """Second kind of edit: rename a loop variable consistently in the specification and the body with ONE
    SubstituteExpressions pass (invalidate_source=True). This changes the OWN expressions of containers (loop headers,
    conditions) as well as leaf statements."""
    from loki import SubstituteExpressions
    var = loop_variable(routine, name)
    if var is None:
        raise F.NotApplicable('no loop variable to rename')
    var = routine.variable_map.get(str(var.name).lower(), var)
    sub = SubstituteExpressions({var: var.clone(name=str(var.name) + RENAME_SUFFIX)}, invalidate_source=True)
    routine.spec = sub.visit(routine.spec)
    routine.body = sub.visit(routine.body)
    return str(var.name).lower()


def own_users(oflat, name, routine):
    """Original nodes (1-based indices) of the routine's specification and body whose OWN attributes / expressions mention
    the variable (recording which nodes the rename touches; the first entry of the structural export is the image of the
    node itself, without its children). Member routines and other units are not renamed."""
    from loki import ir, ProgramUnit
    pat = re.compile(r'\[' + re.escape(name) + r'[\] ]')
    out = []
    inside = {}
    for k, (obj, par) in enumerate(oflat):
        if obj is routine:
            inside[k + 1] = True
        elif isinstance(obj, ProgramUnit):
            inside[k + 1] = False
        else:
            inside[k + 1] = inside.get(par, False)
        if not inside[k + 1] or obj is routine:
            continue
        if not isinstance(obj, ir.Node) or isinstance(obj, (ir.Section, ir.CommentBlock, ir.Comment)):
            continue
        try:
            img = T.export_ir(obj)[0]
        except Exception:  # pylint: disable=broad-except
            continue
        if pat.search(img.lower()):
            out.append(k + 1)
    return out


def edited_case(text, unit_name, pick, op, origin):
    """Parse, apply the history `op` (one or two edits, see HISTORIES) to the named routine, print conservatively, record
    everything for TLC."""
    sf = parse(text)
    lines = text.split('\n')
    routine = sf[unit_name]
    onodes, oflat = record_tree(sf.ir, lines)
    source_ids = {}
    for k, (obj, _p) in enumerate(oflat):
        s = getattr(obj, 'source', None)
        if s is not None:
            source_ids.setdefault(id(s), k + 1)
            key = (type(obj).__name__, onodes[k]['l0'], onodes[k]['l1'])
            source_ids[key] = 0 if key in source_ids else k + 1      # ambiguous (kind, lines) -> not traced
    keep = [getattr(o, 'source', None) for o, _ in oflat]   # keep the Source objects alive (ids must stay unique)
    cands = candidates(routine)
    if not cands:
        raise F.NotApplicable('no editable node')
    target = cands[pick % len(cands)]
    tidx = next((k + 1 for k, (o, _p) in enumerate(oflat) if o is target), 0)
    if not tidx:
        raise F.NotApplicable('target is not part of the recorded tree')
    j = pick % len(cands)
    touched, own, removed = [], [], 0
    kind, target_text = type(target).__name__, (target.source.string or '')[:200]
    for step in op.split('_'):
        if step == 'rename':
            var = loop_variable(routine)
            if var is None:
                raise F.NotApplicable('no loop variable to rename')
            own = own_users(oflat, str(var.name).lower(), routine)
            apply_rename(routine, str(var.name).lower())
            touched += own
            if op == 'rename':
                kind, target_text = 'Loop', f'rename {var.name}'
        else:
            # an earlier rename pass rebuilt the tree: the target is the node at the same position
            cur = candidates(routine)
            if len(cur) != len(cands):
                raise F.NotApplicable('candidate positions changed')
            apply_edit(routine, cur[j], step)
            touched.append(tidx)
            if step == 'remove':
                removed = tidx
    mark_units(sf, routine)
    out = sf.to_fortran(conservative=True)
    nodes, _flat = record_tree(sf.ir, lines, source_ids)
    del keep
    own = [x for x in own if x != removed]        # a removed node has no expressions any more
    case = {'orig': [T._ascii(l) for l in lines], 'onodes': onodes, 'nodes': nodes, 'touched': sorted(set(touched)), 'own': own,
            'out': [T._ascii(l) for l in out.split('\n')], 'l0': 0, 'l1': 0}
    return case, {'origin': origin, 'op': op, 'kind': kind, 'unit': unit_name, 'pick': pick, 'text': text, 'target_text': target_text}


def unmodified_cases(text, origin):
    """Conservative output of the whole file and of every program unit of an unmodified source."""
    from loki import fgen
    sf = parse(text)
    lines = text.split('\n')
    onodes, oflat = record_tree(sf.ir, lines)
    olines = [T._ascii(l) for l in lines]
    cases, meta = [], []
    whole = sf.to_fortran(conservative=True)
    cases.append({'orig': olines, 'onodes': [], 'nodes': [], 'touched': [], 'own': [], 'out': [T._ascii(l) for l in whole.split('\n')], 'l0': 1, 'l1': len(lines)})
    meta.append({'origin': origin, 'op': 'none', 'kind': 'Sourcefile', 'unit': '<file>', 'text': text})
    from loki import ProgramUnit
    for obj, _p in oflat:
        if not isinstance(obj, ProgramUnit) or obj.source is None:
            continue
        out = fgen(obj, conservative=True)
        l0, l1 = int(obj.source.lines[0]), int(obj.source.lines[1] or obj.source.lines[0])
        cases.append({'orig': olines, 'onodes': [], 'nodes': [], 'touched': [], 'own': [], 'out': [T._ascii(l) for l in out.split('\n')], 'l0': l0, 'l1': l1})
        meta.append({'origin': origin, 'op': 'none', 'kind': type(obj).__name__, 'unit': obj.name, 'text': text})
    return cases, meta


# ------------------------------------------------------------------------------------------- behaviour
def textual(ss):
    """Statements of a MiniFortran body in textual order (the order of Loki's pre-order traversal)."""
    for s in ss:
        yield s
        if s['s'] == 'if':
            for b in s['bodies']:
                yield from textual(b)
            yield from textual(s['els'])
        elif s['s'] == 'select':
            for c in s['cases']:
                yield from textual(c['body'])
            yield from textual(s['default'])
        elif 'body' in s and isinstance(s['body'], list):
            yield from textual(s['body'])


def spec_edit(prog, k, op, literal=7):
    """The same edit on the program the reference machine runs: k-th assignment of the kernel in textual order."""
    p2 = copy.deepcopy(prog)
    assigns = [s for s in textual(p2['units'][0]['body']) if s['s'] == 'assign']
    if not assigns:
        raise F.NotApplicable('no assignment')
    s = assigns[k % len(assigns)]
    before = f"{F.rx(s['lhs'])} = {F.rx(s['rhs'])}"
    if op in ('replace', 'subst'):
        s['rhs'] = F.N(literal)
    else:
        s.clear()
        s.update({'s': 'nop'})      # CONTINUE: a no-op for the machine
    return p2, k % len(assigns), before


def spec_rename(prog, name='i'):
    """The rename on the program the reference machine runs: the loop variable of the kernel, declaration and uses."""
    p2 = copy.deepcopy(prog)
    kernel = p2['units'][0]
    if not any(s['s'] == 'do' and s['var'] == name for s in textual(kernel['body'])):
        raise F.NotApplicable('the kernel has no loop over ' + name)
    new = name + RENAME_SUFFIX

    def walk_(x):
        if isinstance(x, dict):
            if x.get('k') == 'var' and x.get('name') == name:
                x['name'] = new
            if x.get('s') == 'do' and x.get('var') == name:
                x['var'] = new
            for v in x.values():
                walk_(v)
        elif isinstance(x, list):
            for v in x:
                walk_(v)
    walk_(kernel['body'])
    for d in kernel['decls']:
        if d['name'] == name:
            d['name'] = new
    return p2


def make_transform(table, flags=None):
    def transform(text, prog, workdir):
        from loki import ir, FindNodes
        orig_prog, k, op, before = table[id(prog)]
        otext = F.render(orig_prog)
        sf = parse(otext)
        routine = sf['kernel']
        for step in op.split('_'):
            if step == 'rename':
                apply_rename(routine, 'i')
                continue
            assigns = [a for a in FindNodes(ir.Assignment).visit(routine.body)]
            target = assigns[k]
            if target.source is None or not target.source.string.strip().endswith(before):
                raise MachineryError(f'C03: statement correspondence lost: IR has {target.source.string if target.source else None!r}, spec has {before!r}')
            apply_edit(routine, target, step)
        if flags is not None and any(len(o.values) != len(o.bodies) for o in FindNodes(ir.MultiConditional).visit(routine.body)):
            # recorded for the key only: the plain Transformer dropped the emptied body of a CASE branch but kept its
            # selector, so the following bodies moved up one branch (a defect of the tree rewriting, not of the backend)
            flags[id(prog)] = 'case-branch-shifted'
        mark_units(sf, routine)
        out = sf.to_fortran(conservative=True)
        if flags is not None and 'remove' in op.split('_') and before:
            count = lambda t: sum(1 for l in t.split('\n') if l.strip() == before)
            if count(out) >= count(otext):
                # recorded for the key only: the removed statement is printed nevertheless (its parent stayed VALID)
                flags[id(prog)] = 'removed-still-printed'
        return [('kmod.f90', out)]
    return transform


# ------------------------------------------------------------------------------------------- driver
def run(ctx):
    quick = ctx.quick
    rng = ctx.rng
    if not ctx.replay:
        ctx.mc('MC_SourceStatus', 'MC_SourceStatus', timeout=600, workers=2, coverage=False)
    # ---- corpus
    gen = []
    repo = []
    skipped_cpp = 0
    if ctx.replay:
        c = ctx.replay['case']
        if 'prog' in c:
            gen = []
        elif c.get('op', 'none') == 'none':
            repo = [(c['origin'], c['text'])]
    else:
        for i in range(int(os.environ.get('C03_NGEN', '0')) or (16 if quick else 200)):
            g = F.Gen(rng, FEATURES)
            prog = g.program(nstmts=rng.randint(4, 8), depth=2)
            gen.append((prog, g.inputs(prog, 2)))
        for p in T.repo_fortran_sources():
            with open(p, errors='replace') as fh:
                text = fh.read()
            if T.needs_cpp(text):
                skipped_cpp += 1
                continue
            repo.append(('repo:' + os.path.relpath(p, core.REPO), text))
        if os.environ.get('C03_REPO_MAX'):      # development: a seeded sample of the repository sources
            repo = rng.sample(repo, min(len(repo), int(os.environ['C03_REPO_MAX'])))
    cases, meta = [], []
    rejected = []
    t0 = time.time()
    # ---- A: unmodified
    sources = [('generated:fm', F.render(p)) for p, _ in gen] + repo
    parsed_ok = []
    for origin, text in sources:
        try:
            cs, ms = unmodified_cases(text, origin)
        except Exception as e:  # pylint: disable=broad-except
            if origin.startswith('generated'):
                raise MachineryError(f'C03: generated program not processed: {type(e).__name__}: {e}') from e
            rejected.append(origin)
            continue
        parsed_ok.append((origin, text))
        cases += cs
        meta += ms
    n_unmod = len(cases)
    # ---- B: status and emission after local edits
    edit_specs = []
    if ctx.replay and ctx.replay['case'].get('op', 'none') != 'none' and 'prog' not in ctx.replay['case']:
        c = ctx.replay['case']
        edit_specs.append((c['origin'], c['text'], c['unit'], c['pick'], c['op']))
    elif not ctx.replay:
        from loki import Subroutine
        for origin, text in parsed_ok:
            try:
                sf = parse(text)
                units = [r.name for r in sf.all_subroutines if isinstance(r, Subroutine) and candidates(r)]
            except Exception:  # pylint: disable=broad-except
                continue
            if not units:
                continue
            nedit = (3 if origin.startswith('generated') else 1) if quick else 4
            for _ in range(nedit):
                edit_specs.append((origin, text, rng.choice(units), rng.randrange(1000), rng.choice(['replace', 'remove', 'subst'])))
            # histories of two edits (and the single rename pass): a local replacement / removal and one SubstituteExpressions
            # pass that changes the own expressions of containers, in both orders
            two = [h for h in HISTORIES if 'rename' in h]
            rng.shuffle(two)
            for h in two[:(3 if origin.startswith('generated') else 1) if quick else 5]:
                edit_specs.append((origin, text, rng.choice(units), rng.randrange(1000), h))
    edit_raised = 0
    for origin, text, unit, pick, op in edit_specs:
        try:
            case, m = edited_case(text, unit, pick, op, origin)
        except F.NotApplicable:
            continue
        except MachineryError:
            raise
        except Exception as e:  # pylint: disable=broad-except
            edit_raised += 1
            first = re.sub(r'\d+', 'N', str(e).strip().split('\n')[0])[:60]
            ctx.violation(f'edited:raises:{type(e).__name__}:{first}', f'{origin}: {op} on a node of {unit} followed by conservative output '
                          f'raised {type(e).__name__}: {str(e)[:500]}', {'origin': origin, 'text': text, 'unit': unit, 'pick': pick, 'op': op})
            continue
        cases.append(case)
        meta.append(m)
    ctx.cover['loki_wall_s'] = round(time.time() - t0, 1)
    verdicts = ctx.validate('Trace_SourceStatus', 'Trace_SourceStatus', cases, timeout=1800, per_shard_min=10)
    by_clause = {}
    for i, m in enumerate(meta):
        ok, _cl, n = verdicts[i][:3]
        if ok:
            continue
        c = cases[i]
        for k in range(1, n + 1):
            _f, clause, pos = verdicts[f'{i}#{k}'][:3]
            by_clause[clause] = by_clause.get(clause, 0) + 1
            payload = {kk: m[kk] for kk in ('origin', 'text', 'unit', 'op') if kk in m}
            payload['pick'] = m.get('pick', 0)
            if clause == 'unmodified':
                exp = c['orig'][c['l0'] - 1:c['l1']]
                a = exp[pos - 1] if pos <= len(exp) else '<end>'
                b = c['out'][pos - 1] if pos <= len(c['out']) else '<end>'
                ctx.violation(f"unmodified:{m['kind']}:{'header' if pos == 1 else T_kind(a)}",
                              f"{m['origin']}: conservative output of unmodified {m['kind']} {m['unit']} differs from its original text at line "
                              f"{pos} of the unit: original {a!r}, output {b!r}", payload)
            elif clause == 'valid-sound':
                n_ = c['nodes'][pos - 1]
                # key: the structural edit of the history (a removal that empties a parent is a known finding)
                kop = next((x for x in m['op'].split('_') if x != 'rename'), 'rename')
                ctx.violation(f"valid-sound:{kop}:{m['kind']}:stays-valid:{n_['kind']}",
                              f"{m['origin']}: after {m['op']} of a {m['kind']} ({m['target_text']!r}) in {m['unit']}, the enclosing {n_['kind']} "
                              f"(lines {n_['l0']}-{n_['l1']}) is still marked VALID although a node in its subtree was changed", payload)
            elif clause == 'children-only':
                n_ = c['nodes'][pos - 1]
                ctx.violation(f"children-only:{m['op']}:{n_['kind']}",
                              f"{m['origin']}: after the history {m['op']} in {m['unit']} the own expressions of the {n_['kind']} at lines "
                              f"{n_['l0']}-{n_['l1']} were changed ({m['target_text']!r}) but it is marked INVALID_CHILDREN (interior properties "
                              f"unchanged): {c['orig'][n_['l0'] - 1]!r}", payload)
            elif clause == 'stale-header':
                n_ = c['onodes'][pos - 1]
                ctx.violation(f"stale-header:{m['op']}:{n_['kind']}",
                              f"{m['origin']}: after the history {m['op']} in {m['unit']} ({m['target_text']!r}) the original first line of the "
                              f"{n_['kind']} at lines {n_['l0']}-{n_['l1']}, whose own expressions were changed, is printed again: "
                              f"{c['orig'][n_['l0'] - 1]!r}", payload)
            else:
                n_ = c['nodes'][pos - 1]
                exp = c['orig'][n_['l0'] - 1:n_['l1']]
                # a FUNCTION in the file is regenerated (no conservative handler: known finding), and with it every
                # VALID node inside it / inside the unit that contains it: such cases are keyed apart
                infn = ':file-has-function' if re.search(r'^[ \t]*(?:(?:pure|elemental|recursive|integer|real|logical)\b[^\n!]*)?\bfunction\b', m.get('text', ''), re.I | re.M) else ''
                ctx.violation(f"valid-emitted:{n_['kind']}{infn}",
                              f"{m['origin']}: after {m['op']} of a {m['kind']} in {m['unit']}, the {n_['kind']} at lines {n_['l0']}-{n_['l1']} is "
                              f"still VALID but its original text is not in the conservative output (in order):\n" + '\n'.join(exp[:6]), payload)
    ctx.cover['unmodified_cases'] = n_unmod
    ctx.cover['edited_cases'] = len(cases) - n_unmod
    ctx.cover['edits_by_op'] = {op: sum(1 for m in meta if m['op'] == op) for op in HISTORIES}
    ctx.cover['edit_raised'] = edit_raised
    ctx.cover['findings_by_clause'] = by_clause
    ctx.cover['repo_sources_skipped_need_cpp'] = skipped_cpp
    ctx.cover['repo_sources_rejected_by_frontend'] = rejected
    ctx.cover['nodes_recorded'] = sum(len(c['nodes']) for c in cases)
    if cases:
        ctx.sample({'origin': meta[-1]['origin'], 'op': meta[-1]['op'], 'nodes_head': cases[-1]['nodes'][:5]})
    # ---- C: behaviour of the conservative output of an edited program
    if ctx.replay and 'prog' not in ctx.replay['case']:
        bcases, table = [], {}
    elif ctx.replay:
        c = ctx.replay['case']
        bcases, table = [(c['prog'], c['inputs'])], {}
        oc = c.get('c03')
        if not oc:
            raise MachineryError('replay payload lacks the edit description')
        table[id(c['prog'])] = (oc['orig'], oc['k'], oc['op'], oc['before'])
    else:
        bcases, table = [], {}
        for prog, inputs in gen:
            for op in ('replace', 'remove', 'subst'):
                try:
                    p2, k, before = spec_edit(prog, rng.randrange(1000), op)
                except F.NotApplicable:
                    continue
                table[id(p2)] = (prog, k, op, before)
                p2_inputs = inputs
                bcases.append((p2, p2_inputs))
            # two-edit histories: the same local edit and the rename of the loop variable, in both orders, and the rename alone
            for h in (('replace_rename', 'rename_remove', 'rename') if quick else [x for x in HISTORIES if 'rename' in x]):
                try:
                    first = next((x for x in h.split('_') if x != 'rename'), None)
                    if first:
                        p2, k, before = spec_edit(prog, rng.randrange(1000), first)
                    else:
                        p2, k, before = copy.deepcopy(prog), 0, ''
                    p2 = spec_rename(p2)
                except F.NotApplicable:
                    continue
                table[id(p2)] = (prog, k, h, before)
                bcases.append((p2, inputs))
    if bcases:
        flags = {}
        transform = make_transform(table, flags)
        results, fails, legal = F.behaviour_check(ctx, 'conservative', bcases, transform)
        # replay payloads need the edit description
        # failures of programs in which the Transformer shifted CASE branches are reported apart from the others, so that one
        # class cannot hide the other behind a common failure signature
        shifted = [f for f in fails if flags.get(id(bcases[f[0]][0])) == 'case-branch-shifted']
        printed = [f for f in fails if flags.get(id(bcases[f[0]][0])) == 'removed-still-printed']
        F.report_failures(ctx, 'conservative', bcases, results, printed, None)
        groups0 = {k + ':removed-still-printed': v for k, v in ctx.cover.get('conservative_failure_groups', {}).items()} if printed else {}
        F.report_failures(ctx, 'conservative', bcases, results, [f for f in fails if f not in shifted and f not in printed], None)
        groups = dict(ctx.cover.get('conservative_failure_groups', {}))
        F.report_failures(ctx, 'conservative', bcases, results, shifted, None)
        groups.update({k + ':case-branch-shifted': v for k, v in ctx.cover.get('conservative_failure_groups', {}).items()} if shifted else {})
        groups.update(groups0)
        ctx.cover['conservative_failure_groups'] = groups
        for v in ctx.violations:
            if isinstance(v.case, dict) and 'prog' in v.case and id(v.case['prog']) in table:
                o, k, op, before = table[id(v.case['prog'])]
                v.case['c03'] = {'orig': o, 'k': k, 'op': op, 'before': before}
                # stable key: drop the statement kinds of the (unshrunk) program, keep the failure signature
                v.key = v.key.rsplit(':', 1)[0].replace('conservative:', f'conservative:{op}:', 1)
                if flags.get(id(v.case['prog'])):
                    v.key += ':' + flags[id(v.case['prog'])]
        ctx.cover['behaviour_programs_with_legal_inputs'] = len(legal)
    ctx.assumptions += [
        'sources are read with frontend-store-source (FP frontend); line numbers refer to the text as given',
        'edits: replace / remove one Assignment, Comment or CallStatement through Transformer(invalidate_source=True); substitute the '
        'right-hand side of one Assignment through SubstituteExpressions(invalidate_source=True) and put the result back with Transformer',
        'after `routine.body = ...` the enclosing program units and the file section are marked INVALID_CHILDREN by the harness, as '
        'loki/lint/utils.py (Fixer.fix_subroutine) and the repository tests do; the Transformer does not reach program units',
        'histories of two edits: a replacement / removal and ONE SubstituteExpressions pass renaming a loop variable in specification '
        'and body (changes the own expressions of loop headers / conditions), in both orders, and the rename alone; ChildrenOnly / '
        'StaleHeader use the set of original nodes whose own image mentions the variable',
        'ValidEmitted only considers nodes whose recorded text is exactly their original lines (inline comments share a line) and whose '
        'lines occur only once in the file',
        'behaviour: MiniFortran programs (lib_fm), the edit (right-hand side -> literal, statement -> removed) is applied to the spec '
        'program as well; the conservative output must behave like the edited program (Trace_FMachine)',
    ]


def T_kind(line):
    from .C02 import kind_of_line
    return kind_of_line(line) if line not in ('<end>',) else 'end'


def selftest(ctx):
    """Binding demonstration: corrupt single recorded fields of accepted cases; TLC must reject with the matching clause."""
    src = "subroutine s(a, b)\ninteger, intent(inout) :: a, b\n   a = 1\n   b   = a +  2\n   a = b\nend subroutine s\n"
    cs, _ms = unmodified_cases(src, 'selftest')
    good_u = cs[1]
    good_e, _m = edited_case(src, 's', 1, 'replace', 'selftest')
    b = []
    c = copy.deepcopy(good_u); c['out'][3] = c['out'][3].replace('   b   =', '   b =', 1); b.append(('output line normalised (unmodified unit)', c, 'unmodified'))
    c = copy.deepcopy(good_u); del c['out'][2]; b.append(('output line missing (unmodified unit)', c, 'unmodified'))
    c = copy.deepcopy(good_e)
    k = next(i for i, n in enumerate(c['nodes']) if n['kind'] == 'Section' and n['st'] == 'INVALID_CHILDREN' and any(
        m['par'] == i + 1 and m['st'] == 'NONE' for m in c['nodes']))
    c['nodes'][k]['st'] = 'VALID'
    c['nodes'][k]['oid'] = next(i + 1 for i, n in enumerate(c['onodes']) if n['kind'] == 'Section' and n['l0'] == c['nodes'][k]['l0'] and n['l1'] == c['nodes'][k]['l1'])
    b.append(('parent of the replaced node recorded as VALID', c, 'valid-sound'))
    c = copy.deepcopy(good_e)
    j = next(i for i, l in enumerate(c['out']) if l == '   a = 1')
    c['out'][j] = '   A = 1'
    b.append(('a VALID statement printed re-formatted', c, 'valid-emitted'))
    c = copy.deepcopy(good_e)
    i1 = next(i for i, l in enumerate(c['out']) if l == '   a = 1'); i2 = next(i for i, l in enumerate(c['out']) if l == '   a = b')
    c['out'][i1], c['out'][i2] = c['out'][i2], c['out'][i1]
    b.append(('two VALID statements printed in the wrong order', c, 'valid-emitted'))
    src2 = "subroutine s(a, n)\ninteger, intent(inout) :: a(n)\ninteger :: n, i\n   do i = 1, n\n      a(i) = 1\n      a(i) = a(i) + 2\n   end do\nend subroutine s\n"
    good_2, _m = edited_case(src2, 's', 0, 'replace_rename', 'selftest')
    c = copy.deepcopy(good_2)
    k = next(i for i, n in enumerate(c['nodes']) if n['kind'] == 'Loop')
    c['nodes'][k]['st'] = 'INVALID_CHILDREN'
    b.append(('loop whose header changed recorded as INVALID_CHILDREN (status not upgraded)', c, 'children-only'))
    c = copy.deepcopy(good_2)
    j = next(i for i, l in enumerate(c['out']) if l.strip().upper().startswith('DO '))
    c['out'][j] = '   do i = 1, n'
    b.append(('original loop header printed although the loop variable was renamed', c, 'stale-header'))
    v = ctx.validate('Trace_SourceStatus', 'Trace_SourceStatus', [good_u, good_e, good_2] + [x[1] for x in b], shards=1)
    if not v[2][0]:
        raise MachineryError(f'selftest: the uncorrupted two-edit case is rejected: {v[2]}')
    v = {**v, **{i: v[i + 1] for i in range(2, len(b) + 2)}}
    if not v[0][0] or not v[1][0]:
        raise MachineryError(f'selftest: an uncorrupted case is rejected: {v[0]} {v[1]}')
    missed = []
    for i, (name, _c, want) in enumerate(b, 2):
        hit = (not v[i][0]) and v[i][1] == want
        print(f"  {'rejected' if hit else 'MISSED (!)'}: {name}: {v[i][1]}")
        if not hit:
            missed.append(name)
    print(f'SELFTEST-FAILED C03: {missed}' if missed else f'SELFTEST-OK C03: {len(b)} corruptions rejected')
    return 1 if missed else 0
