"""C22 Scheduler processing visits each selected item once, in dependency order.

spec: SchedProcess.tla       Visit(unit) enabled iff selected, unvisited and every selected unit it depends on
                             (reverse: that depends on it) has been visited; item and file-graph variants
      MC_SchedProcess        exhaustive design check on all small acyclic graphs x kinds x ignored x files x manifests
      Trace_SchedProcess     recorded transform_*/plan_* call sequences of a probe transformation driven by the real
                             Scheduler.process are accepted iff they are behaviours of SchedProcess ending in Done and
                             role / mode / targets equal the values SchedProject.tla derives from project + config
Projects / configurations / renderer are shared with C21 (harness/lib_sched.py).
"""
import json
import os
import random
import shutil
import time

from .. import core
from .. import lib_sched as L
from ..core import MachineryError
from . import C21

FILTERS = [('proc',), ('mod',), ('proc', 'mod')]


# validation corpus: loki/batch/tests/test_scheduler_processing.py::test_scheduler_traversal_order (projHoist).
# The hand-written expected call orders are fed to TLC as if observed (the specification must accept them).
def hoist_project():
    def imp(mod, *only):
        return {'mod': mod, 'only': list(only)}
    mods = [{'name': 'transformation_module_hoist', 'file': 'driver_mod', 'vars': ['len'], 'params': ['len'],
             'imports': [imp('subroutines_mod', 'kernel1', 'kernel2', 'device1', 'device2', 'kernel3')]},
            {'name': 'subroutines_mod', 'file': 'subroutines_mod', 'vars': ['len'], 'params': ['len'], 'imports': []}]
    mk = lambda n, m, *calls: {'name': n, 'mod': m, 'imports': [], 'calls': list(calls)}   # noqa: E731
    procs = [mk('driver', 'transformation_module_hoist', 'kernel1', 'kernel2'),
             mk('another_driver', 'transformation_module_hoist', 'kernel1'),
             mk('yet_another_driver', 'transformation_module_hoist', 'kernel3'),
             mk('kernel1', 'subroutines_mod'), mk('kernel2', 'subroutines_mod', 'device1', 'device2'),
             mk('device1', 'subroutines_mod', 'device2'), mk('device2', 'subroutines_mod'),
             mk('kernel3', 'subroutines_mod', 'device3'), mk('device3', 'subroutines_mod')]
    return L.normalize_project({'mods': mods, 'procs': procs})


HOIST_ORDER = ['transformation_module_hoist#driver', 'subroutines_mod#kernel1', 'subroutines_mod#kernel2',
               'subroutines_mod#device1', 'subroutines_mod#device2']
HOIST_EDGES = [['transformation_module_hoist#driver', 'subroutines_mod#kernel1'],
               ['transformation_module_hoist#driver', 'subroutines_mod#kernel2'],
               ['subroutines_mod#kernel2', 'subroutines_mod#device1'], ['subroutines_mod#kernel2', 'subroutines_mod#device2'],
               ['subroutines_mod#device1', 'subroutines_mod#device2']]


def hoist_expectations():
    """(manifest, graph, visits) for the four parametrisations of the repository test."""
    files = {n: ('driver_mod' if n.startswith('transformation') else 'subroutines_mod') for n in HOIST_ORDER}
    graph = {'items': [{'name': n, 'kind': 'proc', 'ignored': False, 'file': files[n]} for n in HOIST_ORDER], 'edges': HOIST_EDGES}
    out = []
    for fg in (False, True):
        for rev in (False, True):
            units = ['driver_mod', 'subroutines_mod'] if fg else list(HOIST_ORDER)
            if rev:
                units = units[::-1]
            visits = [{'meth': 'file' if fg else 'subroutine', 'plan': False, 'item': u, 'unit': u, 'role': 'none', 'mode': 'none',
                       'targets': []} for u in units]
            out.append(({'filter': ['proc'], 'reverse': rev, 'filegraph': fg, 'procign': False, 'plan': False}, graph, visits))
    return out


def make_probe(man):
    """A probe transformation with the given manifest; records every transform_* / plan_* call."""
    from loki.batch import Transformation, ProcedureItem, ModuleItem
    cls = {'proc': ProcedureItem, 'mod': ModuleItem}

    class Probe(Transformation):
        item_filter = tuple(cls[k] for k in man['filter'])
        reverse_traversal = man['reverse']
        traverse_file_graph = man['filegraph']
        process_ignored_items = man['procign']

        def __init__(self):
            self.rec = []

        def _log(self, meth, plan, kw):
            item = kw.get('item')
            self.rec.append({'meth': meth, 'plan': plan, 'item': item.name if item is not None else 'none',
                             'role': 'none' if kw.get('role') is None else str(kw.get('role')),
                             'mode': 'none' if kw.get('mode') is None else str(kw.get('mode')),
                             'targets': sorted({str(t).lower() for t in (kw.get('targets') or ())})})

        def transform_subroutine(self, routine, **kw):
            self._log('subroutine', False, kw)

        def transform_module(self, module, **kw):
            self._log('module', False, kw)

        def transform_file(self, sourcefile, **kw):
            self._log('file', False, kw)

        def plan_subroutine(self, routine, **kw):
            self._log('subroutine', True, kw)

        def plan_module(self, module, **kw):
            self._log('module', True, kw)

        def plan_file(self, sourcefile, **kw):
            self._log('file', True, kw)

    return Probe()


def process_case(sched, graph, paths, man):
    """Run one probe over the real scheduler; returns (visits, raised)."""
    from loki.batch import ProcessingStrategy
    probe = make_probe(man)
    raised = ''
    try:
        sched.process(probe, proc_strategy=ProcessingStrategy.PLAN if man['plan'] else ProcessingStrategy.DEFAULT)
    except Exception as e:  # pylint: disable=broad-except
        raised = f'{type(e).__name__}: {str(e)[:200]}'
    inv = {os.path.abspath(p).lower(): fid for fid, p in paths.items()}
    visits = []
    for v in probe.rec:
        v = dict(v)
        v['unit'] = inv.get(v['item'], v['item']) if man['filegraph'] else v['item']
        visits.append(v)
    return visits, raised


def manifests(rng, n, fp, ei=True):
    """Random manifests. Without a full parse only PLAN is possible (transform_* needs complete IR); with
    enable_imports=false the files of module-only items are never parsed completely, so module items are only
    transformed (not planned) when enable_imports is on -- a usage precondition, not part of the property."""
    out = []
    for _ in range(n):
        plan = (not fp) or rng.random() < 0.25
        out.append({'filter': list(rng.choice(FILTERS)) if (ei or plan) else ['proc'], 'reverse': rng.random() < 0.5, 'filegraph': rng.random() < 0.4,
                    'procign': rng.random() < 0.4, 'plan': plan})
    # no duplicates
    seen, res = set(), []
    for m in out:
        k = json.dumps(m, sort_keys=True)
        if k not in seen:
            seen.add(k)
            res.append(m)
    return res


def with_reverse_proc(mans, project, fp):
    """Projects with a generic interface always get the reverse traversal over procedure items on the item graph (two
    procedures may then be connected only through an item of a non-selected kind)."""
    if any(m['ifaces'] for m in project['mods']):
        for plan in ((True,) if not fp else (False, True)):
            man = {'filter': ['proc'], 'reverse': True, 'filegraph': False, 'procign': False, 'plan': plan}
            if man not in mans:
                mans = mans + [man]
    return mans


def ignored_only_files(graph):
    """Files all of whose graph items are ignored (while other files hold items that are not)."""
    by = {}
    for it in graph['items']:
        by.setdefault(it['file'], []).append(it['ignored'])
    return [f for f, flags in by.items() if all(flags)] if any(not all(v) for v in by.values()) else []


def ignore_variants(project, config):
    """Configurations derived from `config` whose default ignore list names one called procedure that is alone in its
    file: candidates for a scheduler graph with an ignored-only file."""
    called = {c for p in project['procs'] for c in p['calls'] if c != p['name']}
    seeds = {s_['local'] for s_ in config['seeds']}
    out = []
    for t in project['procs']:
        alone = sum(1 for q in project['procs'] if q['file'] == t['file']) == 1
        if t['name'] in called and t['name'] not in seeds and alone:
            c2 = json.loads(json.dumps(config))
            c2['ignore'] = [L.key(t['name'])]
            c2['disable'], c2['block'], c2['expand'] = [], [], True
            c2['routines'] = [r for r in c2['routines'] if not (r['hasIgnore'] or r['hasDisable'] or r['hasBlock'] or r['hasExpand'])]
            out.append(c2)
    return out


def M(filter_, reverse, filegraph, procign, plan):
    return {'filter': list(filter_), 'reverse': reverse, 'filegraph': filegraph, 'procign': procign, 'plan': plan}


# pairs of transformations applied one after the other to ONE scheduler (second application always on the file graph)
SEQUENCES = [
    (M(('proc',), False, True, False, False), M(('proc',), False, True, True, False)),          # same filter, ignored off -> on
    (M(('proc',), False, True, True, True), M(('proc',), True, True, False, True)),             # on -> off, reverse mix
    (M(('proc', 'mod'), True, False, False, False), M(('proc', 'mod'), False, True, True, False)),   # item graph -> file graph
    (M(('proc', 'mod'), False, True, False, True), M(('proc',), False, True, True, True)),      # different item filters
    (M(('proc', 'mod'), False, True, True, False), M(('proc', 'mod'), True, True, False, True)),
]


def build(project, config, root, layout, fp, ei, plain):
    shutil.rmtree(root, ignore_errors=True)
    obs, sched, paths = L.run_scheduler(project, config, root, random.Random(layout), full_parse=fp, enable_imports=ei, plain=plain)
    return {'items': obs['items'], 'edges': obs['edges']}, sched, paths


def man_sig(man):
    return (f"filter={'+'.join(man['filter'])}:rev={int(man['reverse'])}:files={int(man['filegraph'])}:"
            f"ign={int(man['procign'])}:plan={int(man['plan'])}")


def mc_cfg(ctx, name, n, kinds, maxign):
    path = os.path.join(ctx.work, f'{name}.cfg')
    with open(os.path.join(core.SPEC, 'MC_SchedProcess.cfg')) as fh:
        text = fh.read()
    text = text.replace('N = 3', f'N = {n}').replace('Kinds = {"proc", "mod"}', 'Kinds = {' + ', '.join(f'"{k}"' for k in kinds) + '}')
    text = text.replace('MaxIgn = 1', f'MaxIgn = {maxign}')
    with open(path, 'w') as fh:
        fh.write(text)
    return path


def run(ctx):
    quick = ctx.quick
    phases = {}
    ctx.cover['phase_wall_s'] = phases
    # ---- 1. design-level model checking of the traversal
    if os.environ.get('VERIF_SKIP_MC') or ctx.replay:   # VERIF_SKIP_MC: development only (mutation runs); replay: one case only
        pass
    elif quick:
        ctx.mc('MC_SchedProcess', mc_cfg(ctx, 'mcq', 3, ('proc', 'mod'), 1), timeout=900, required_actions=('SNext',))
    else:
        ctx.mc('MC_SchedProcess', mc_cfg(ctx, 'mct1', 3, ('proc', 'mod'), 3), timeout=1500, required_actions=('SNext',))
        ctx.mc('MC_SchedProcess', mc_cfg(ctx, 'mct2', 4, ('proc',), 1), timeout=1500, required_actions=('SNext',))

    phases['model_checking'] = round(ctx.elapsed(), 1)
    runs = []     # (replay case, trace case)

    def add_all(project, config, fp, ei, layout, plain, origin, mans):
        root = os.path.join(ctx.work, f'case{len(runs)}')
        try:
            graph, sched, paths = build(project, config, root, layout, fp, ei, plain)
        except Exception:  # pylint: disable=broad-except
            return 0      # construction failures are C21's business
        P = L.tla_project(project)
        for man in mans:
            visits, raised = process_case(sched, graph, paths, man)
            runs.append(({'P': project, 'C': config, 'fp': fp, 'ei': ei, 'layout': layout, 'plain': plain, 'origin': origin, 'man': man},
                         {'P': P, 'C': config, 'graph': graph, 'man': man, 'visits': visits, 'raised': raised, 'payload': True}))
        if not os.environ.get('VERIF_KEEP'):
            shutil.rmtree(root, ignore_errors=True)
        return len(mans)

    npairs = [0]

    def add_sequences(project, config, layout, origin, only=None):
        """Every pair of SEQUENCES on a freshly built scheduler; both applications are recorded and judged independently
        (the expected record of the second does not depend on the first); the second carries seq=2 and its predecessor."""
        for k, (m1, m2) in enumerate(SEQUENCES):
            if only is not None and (m1, m2) != only:
                continue
            root = os.path.join(ctx.work, f'seq{len(runs)}')
            try:
                graph, sched, paths = build(project, config, root, layout, True, True, k % 2 == 0)
            except Exception:  # pylint: disable=broad-except
                continue
            if not ignored_only_files(graph):
                shutil.rmtree(root, ignore_errors=True)
                return False
            P = L.tla_project(project)
            for seq, man, pre in ((1, m1, []), (2, m2, [m1])):
                visits, raised = process_case(sched, graph, paths, man)
                runs.append(({'P': project, 'C': config, 'fp': True, 'ei': True, 'layout': layout, 'plain': k % 2 == 0, 'origin': origin,
                              'man': man, 'seq': seq, 'pre': pre},
                             {'P': P, 'C': config, 'graph': graph, 'man': man, 'visits': visits, 'raised': raised, 'payload': True}))
            npairs[0] += 1
            shutil.rmtree(root, ignore_errors=True)
        return True

    if ctx.replay:
        c = ctx.replay['case']
        if c.get('seq') == 2:
            add_sequences(L.normalize_project(c['P']), L.normalize_config(c['C']), c.get('layout', 0), 'replay', only=(c['pre'][0], c['man']))
            runs[:] = runs[-1:]
        else:
            add_all(L.normalize_project(c['P']), L.normalize_config(c['C']), c['fp'], c['ei'], c.get('layout', 0), c.get('plain', True),
                    'replay', [c['man']])
    else:
        # ---- 2. the repository's traversal-order expectation (test_scheduler_traversal_order) is an instance
        #         of the rule "any topological order"; it is replayed through the corpus projects of C21
        hproj = hoist_project()
        hcfg = L.make_config(['driver'], disable=['abort'])
        for man, graph, visits in hoist_expectations():
            runs.append(({'P': hproj, 'C': hcfg, 'fp': True, 'ei': True, 'layout': 0, 'plain': True, 'origin': 'corpus-expectation:traversal_order', 'man': man},
                         {'P': L.tla_project(hproj), 'C': hcfg, 'graph': graph, 'man': man, 'visits': visits, 'raised': '', 'payload': False}))
        hdir = os.path.join(core.REPO, 'loki', 'tests', 'sources', 'projHoist', 'module')
        corpora = [(hproj, {'driver_mod': f'{hdir}/driver_mod.f90', 'subroutines_mod': f'{hdir}/subroutines_mod.f90'},
                    [f'{hdir}/driver_mod.f90', f'{hdir}/subroutines_mod.f90'], [('traversal_order', hcfg, None, None)])]
        cproj = C21.corpus_project()
        cpaths, search = C21.corpus_paths()
        corpora.append((cproj, cpaths, search, C21.CORPUS))
        corpora.append(C21.intf_corpus(ctx))
        for proj_, paths_, search_, entries in corpora:
            for name, cfg, _, _ in entries:
                cfg_dict, seeds = L.render_config(cfg, L.Layout(plain=True), enable_imports=True)
                sched = L.build_scheduler(None, cfg_dict, seeds, True, paths=search_)
                graph = L.project_graph(sched, paths_)
                for man in with_reverse_proc(manifests(ctx.rng, 4, True), proj_, True):
                    visits, raised = process_case(sched, graph, paths_, man)
                    runs.append(({'P': proj_, 'C': cfg, 'fp': True, 'ei': True, 'layout': 0, 'plain': True, 'origin': f'corpus:{name}', 'man': man},
                                 {'P': L.tla_project(proj_), 'C': cfg, 'graph': graph, 'man': man, 'visits': visits, 'raised': raised,
                                  'payload': True}))
        ncorpus = len(runs)
        # ---- 3. TLC-enumerated small projects, 4. seeded larger ones
        small = []
        for np_, n in ((3, 30 if quick else 150), (4, 60 if quick else 450)):
            small += L.gen_small(ctx, n, np_, ifaces=True)
        for i, c in enumerate(small):
            P, C = L.normalize_project(c['P']), L.normalize_config(c['C'])
            fp = i % 4 != 0
            add_all(P, C, fp, i % 3 != 0, ctx.seed * 7919 + i, i % 5 == 0, f'tlc:so={c["so"]}:po={c["po"]}:st={c["st"]}',
                    with_reverse_proc(manifests(ctx.rng, 3 if quick else 4, fp, i % 3 != 0), P, fp))
        nsmall = len(runs) - ncorpus
        legal, yield_ = L.seeded_pairs(ctx, 60 if quick else 450, ifaces=True)
        ctx.cover['seeded_candidates_legal'] = yield_
        for i, (P, C) in enumerate(legal):
            fp = i % 4 != 0
            add_all(P, C, fp, i % 3 != 0, ctx.seed * 104729 + i, False, 'seeded', with_reverse_proc(manifests(ctx.rng, 4 if quick else 5, fp, i % 3 != 0), P, fp))
        nsingle = len(runs)
        # ---- 5a. sequences of two transformations on one scheduler, on graphs with an ignored-only file
        want = 8 if quick else 40
        pool = [(L.normalize_project(c['P']), L.normalize_config(c['C'])) for c in small] + list(legal)
        for i, (P, C) in enumerate(pool):
            if npairs[0] >= want * len(SEQUENCES):
                break
            for c2 in ignore_variants(P, C)[:2]:
                if add_sequences(P, c2, ctx.seed * 31 + i, 'sequence'):
                    break
        ctx.cover['sequence_pairs'] = npairs[0]
        if npairs[0] < (want * len(SEQUENCES)) // 2:
            raise MachineryError(f'vacuity: only {npairs[0]} transformation pairs on graphs with an ignored-only file')
        ctx.cover['cases'] = {'corpus': ncorpus, 'tlc_small': nsmall, 'seeded': nsingle - ncorpus - nsmall, 'sequence': len(runs) - nsingle}

    phases['generate_and_run_loki'] = round(ctx.elapsed() - sum(phases.values()), 1)
    # ---- 5. TLC decides
    verdicts = ctx.validate('Trace_SchedProcess', 'Trace_SchedProcess', [t for _, t in runs], per_shard_min=60)
    phases['trace_validation'] = round(ctx.elapsed() - sum(phases.values()), 1)
    clauses = {}
    mans_seen = set()
    nvisits = 0
    multi = 0
    rejected = {}
    for i, (case, t) in enumerate(runs):
        ok, clause, pos = verdicts[i]
        clauses[clause] = clauses.get(clause, 0) + 1
        mans_seen.add(man_sig(case['man']))
        if ok:
            nvisits += len(t['visits'])
            multi += len(t['visits']) > 1
            continue
        if case['origin'].startswith('corpus-expectation'):
            raise MachineryError(f'validation corpus: the specification rejects the hand-written expectation of the repository test '
                                 f'{case["origin"]} {case["man"]}: clause {clause} at visit {pos}: {json.dumps(t["visits"])[:800]} {t["raised"]}')
        if clause == 'illegal-input':
            raise MachineryError(f'illegal input reached validation: {json.dumps(case)[:600]}')
        cc = f"raised[{t['raised'].split(':')[0]}]" if clause == 'raised' else clause
        rejected.setdefault(cc, []).append(i)
    def observe_fn(P, C, case, root):
        try:
            graph, sched, paths = build(P, C, root, 0, case['fp'], case['ei'], True)
        except Exception as e:  # pylint: disable=broad-except
            return {'graph': {'items': [], 'edges': []}, 'visits': [], 'raised': f'build:{type(e).__name__}'}
        for pre in case.get('pre', []):
            process_case(sched, graph, paths, pre)
        visits, raised = process_case(sched, graph, paths, case['man'])
        return {'graph': graph, 'visits': visits, 'raised': raised}

    C21.report_rejections(
        ctx, rejected, runs,
        key_of=lambda cc, case: (f"{cc}:" + (f"seq=2:after[{man_sig(case['pre'][0])}]:" if case.get('seq') == 2 else '')
                                 + f"{man_sig(case['man'])}:{C21.signature(case['P'], case['C'])}"),
        what_of=lambda i, case, t, was: (
            f'probe trace rejected by Trace_SchedProcess clause `{verdicts[i][1]}` at visit {verdicts[i][2]} (full_parse={case["fp"]}, '
            f'enable_imports={case["ei"]}, origin {case["origin"]}, {was}); visits {json.dumps(t["visits"])[:300]} {t["raised"]}'),
        shrinker=lambda todo, rounds: shrink_many(ctx, todo, rounds, observe_fn))
    phases['shrinking'] = round(ctx.elapsed() - sum(phases.values()), 1)
    ctx.cover['clauses'] = clauses
    ctx.cover['distinct_manifests'] = len(mans_seen)
    ctx.cover['visits_validated'] = nvisits
    ctx.cover['traces_with_more_than_one_visit'] = multi
    for idx in (0, len(runs) // 2, len(runs) - 1):
        case, t = runs[idx]
        ctx.sample({'origin': case['origin'], 'manifest': case['man'], 'visits': [(v['meth'], v['unit'], v['role'], v['targets']) for v in t['visits']][:6]})
    ctx.assumptions += [
        'same modelled fragment and input restrictions as C21 (see evidence/C21.json); the scheduler graph of the same run is taken '
        'as given (C21 checks it), role / mode / targets are derived from the abstract project and configuration',
        'manifests: item_filter in {Procedure, Module, both}, reverse_traversal, traverse_file_graph, process_ignored_items, '
        'strategy SEQUENCE or PLAN (PLAN also without full parse); not covered: mode filter of multi-pipeline processing, strict/external '
        'items, sub_sgraph, `items` of file-graph mode, recursion into modules/procedures',
        'order clause (item graph): a selected item may be visited only after all selected items from which it is reachable in the FULL graph '
        '(also through non-selected items such as generic interfaces, modules, ignored items); reverse: the converse; '
        'any such order is accepted; in file-graph mode only once/order is checked for the file visits (no role/mode/targets)',
        'sequences: pairs of probes on one scheduler (file graph x file graph with different process_ignored_items / item filters / '
        'reverse flags, item graph then file graph) on graphs with an ignored-only file; each application is judged independently; '
        'the second application is always a file-graph traversal and its key carries seq=2:after[<first manifest>]',
        'TLC and the TLA+ modules are trusted; python renders, runs Loki and records only',
    ]


def shrink_many(ctx, todo, max_rounds, observe_fn):
    """C21.shrink_many with the processing trace as observation."""
    cur = {tag: dict(case, P={k: v for k, v in case['P'].items() if k != 'chars'}, layout=0, plain=True)
           for tag, (case, _) in todo.items()}
    active = set(todo)
    deadline = time.time() + (45 if ctx.quick else 400)
    for rnd in range(max_rounds):
        if time.time() > deadline:
            break
        batch, owner = [], []
        for tag in sorted(active):
            case = cur[tag]
            for p2, c2 in C21.reductions(case['P'], case['C'])[:40]:
                p2 = L.normalize_project(p2)
                root = os.path.join(ctx.work, f'shr_{rnd}_{len(batch)}')
                o = observe_fn(p2, c2, case, root)
                shutil.rmtree(root, ignore_errors=True)
                if o['raised'].startswith('build:'):
                    continue
                batch.append({'P': L.tla_project(p2), 'C': c2, 'graph': o['graph'], 'man': case['man'], 'visits': o['visits'],
                              'raised': o['raised'], 'payload': True})
                owner.append((tag, p2, c2))
        if not batch:
            break
        try:
            verdicts, _ = core.validate_batch('Trace_SchedProcess', 'Trace_SchedProcess', batch, workdir=ctx.work, per_shard_min=60)
        except MachineryError:
            break     # a reduction left the legal inputs (e.g. a seed vanished): stop shrinking, keep what we have
        progressed = set()
        for n, (tag, p2, c2) in enumerate(owner):
            if tag in progressed:
                continue
            ok, cl = verdicts[n][0], verdicts[n][1]
            cc = f"raised[{batch[n]['raised'].split(':')[0]}]" if cl == 'raised' else cl
            if not ok and cc == todo[tag][1]:
                cur[tag] = dict(cur[tag], P=p2, C=c2)
                progressed.add(tag)
        active = progressed
        if not active:
            break
    return cur


def selftest(ctx):
    """Binding check: accepted probe traces must be rejected once a recorded field is corrupted."""
    cproj = C21.corpus_project()
    cpaths, search = C21.corpus_paths()
    name, cfg, _, _ = C21.CORPUS[0]
    cfg_dict, seeds = L.render_config(cfg, L.Layout(plain=True), enable_imports=True)
    sched = L.build_scheduler(None, cfg_dict, seeds, True, paths=search)
    graph = L.project_graph(sched, cpaths)
    cases, expect = [], []
    for man in ({'filter': ['proc', 'mod'], 'reverse': False, 'filegraph': False, 'procign': False, 'plan': False},
                {'filter': ['proc'], 'reverse': True, 'filegraph': False, 'procign': False, 'plan': True},
                {'filter': ['proc'], 'reverse': False, 'filegraph': True, 'procign': False, 'plan': False}):
        visits, raised = process_case(sched, graph, cpaths, man)
        b = {'P': L.tla_project(cproj), 'C': cfg, 'graph': graph, 'man': man, 'visits': visits, 'raised': raised, 'payload': True}
        cases.append(b)
        expect.append('ok')
        for what in ('drop-visit', 'dup-visit', 'reverse-order', 'wrong-role', 'wrong-targets', 'wrong-method'):
            v = json.loads(json.dumps(visits))
            if what == 'drop-visit':
                v.pop()
            elif what == 'dup-visit':
                v.append(v[0])
            elif what == 'reverse-order':
                v = v[::-1]
            elif what == 'wrong-role' and not man['filegraph']:
                v[0]['role'] = 'driver'
            elif what == 'wrong-targets' and not man['filegraph']:
                v[0]['targets'] = v[0]['targets'] + ['bogus']
            elif what == 'wrong-method':
                v[0]['meth'] = 'module' if v[0]['meth'] != 'module' else 'file'
            else:
                continue
            cases.append(dict(b, visits=v))
            expect.append('reject')
    verdicts = ctx.validate('Trace_SchedProcess', 'Trace_SchedProcess', cases)
    bad = [(i, verdicts[i]) for i in range(len(cases)) if (verdicts[i][0]) != (expect[i] == 'ok')]
    if bad:
        print(f'SELFTEST-FAILED C22: {bad[:5]}')
        return 2
    print(f'SELFTEST-OK C22: {expect.count("ok")} accepted traces, {expect.count("reject")} corrupted copies rejected '
          f'({sorted({verdicts[i][1] for i in range(len(cases)) if expect[i] == "reject"})})')
    return 0
