"""C01 Parsing and regenerating Fortran preserves program behaviour.

spec: FMachine (MiniFortran reference machine) + Trace_FMachine: the stdout of the gfortran-compiled
      `Sourcefile.from_source(text).to_fortran()` must equal Run(program, input).out predicted by TLC.
      Pre-flight: gfortran on the ORIGINAL text must agree with the machine too (else the case is dropped).
"""
from .. import lib_fm as F


def transform(text, prog, workdir):
    from loki import Sourcefile
    src = Sourcefile.from_source(text)
    return [('kmod.f90', src.to_fortran())]


FEATURES = ('select', 'while', 'call', 'exitcycle', 'section', 'fcall', 'twod', 'assoc', 'strings')


def gen_cases(ctx, n, features=FEATURES):
    cases = []
    for i in range(n):
        g = F.Gen(ctx.rng, features)
        prog = g.program(nstmts=ctx.rng.randint(4, 8), depth=2)
        cases.append((prog, g.inputs(prog, 3)))
    return cases


def run(ctx):
    if ctx.replay:
        c = ctx.replay['case']
        cases = [(c['prog'], c['inputs'])]
    else:
        cases = gen_cases(ctx, 90 if ctx.quick else 1500)
    results, fails, legal = F.behaviour_check(ctx, 'roundtrip', cases, transform)

    F.report_failures(ctx, 'roundtrip', cases, results, fails, F.make_recheck(ctx, transform))
    ctx.cover['programs_with_legal_inputs'] = len(legal)
    if results:
        ctx.sample({'program': results[0]['text'], 'inputs': cases[0][1][:1]})
    ctx.assumptions += ['MiniFortran subset: integer/real(dyadic)/logical scalars, 1-d/2-d arrays with arbitrary lower bounds, DO/DO WHILE/IF/SELECT CASE/EXIT/CYCLE, module subroutine and function calls, array sections, PRINT',
                        'the PROGRAM driver is harness-owned and not passed through Loki (main programs are unsupported by the frontend)',
                        'derived types, WHERE, internal procedures, OPEN are not yet generated']


def selftest(ctx):
    from .. import selftests
    return selftests.c01(ctx)
