"""C43 Lint auto-fix changes only what the fixed rules target.

spec: LintFix.tla (lines with lexical regions; targets = old-style relational operators in code, dynamic UBOUND
      checks of the documented form + the declaration of the checked dummy), MC_LintFix (design check: the
      reference fixer is accepted, wrong fixers are rejected), Trace_LintFix (clauses FixApplies / ReLintClean /
      Unchanged on recorded runs of the real Linter), FMachine + Trace_FMachine (BehaviourPreserved: the fixed
      file is compiled and run, its output must be what the machine predicts for the ORIGINAL program).
real code: loki.lint.Linter.check / Linter.fix (-> Fixer, conservative fgen, Sourcefile.write) with
      lint_rules Fortran90OperatorsRule and DynamicUboundCheckRule, config {'fix': True}.
"""
import os

from .. import lib_fm as F
from .. import lib_lintfix as L
from ..core import MachineryError

CLAUSE = {'A': 'FixApplies', 'R': 'ReLintClean', 'U': 'Unchanged'}


def gen_cases(ctx, per_cell, ninputs):
    cases = []
    for profile in (os.environ.get('VERIF_C43_PROFILES', '').split(',') if os.environ.get('VERIF_C43_PROFILES') else L.PROFILES):   # (development: restrict the cells)
        for layout in L.LAYOUTS:
            for i in range(per_cell):
                g = L.LintGen(ctx.rng, profile, layout)
                # half of the programs are small: one or two statements per block
                prog = g.program(nstmts=ctx.rng.randint(1, 2), depth=1) if i % 2 == 0 else g.program(nstmts=ctx.rng.randint(3, 6), depth=2)
                cases.append((prog, g.inputs(prog, ninputs)))
    return cases


class Recorder:
    """transform() for lib_fm.behaviour_check: runs the real linter and keeps what it did."""

    def __init__(self):
        self.records = {}

    def __call__(self, text, prog, workdir):
        pre, vis, post = L.render_parts(prog)
        vis_text = '\n'.join(ln for ln, _ in vis) + '\n'
        rec = L.run_lint(vis_text, workdir)
        rec['orig'] = vis_text
        rec['marks'] = [m for _, m in vis]
        self.records[id(prog)] = rec
        fixed = rec['fixed']
        if not fixed.endswith('\n'):
            fixed += '\n'
        full = ''.join(ln + '\n' for ln in pre) + fixed + ''.join(ln + '\n' for ln in post)
        return [('kmod.f90', full)]


def lint_cases(rec):
    orig = L.line_records(rec['orig'])
    if len(orig) != len(rec['marks']):
        raise MachineryError('C43: marks do not match the rendered lines')
    for o, m in zip(orig, rec['marks']):
        o.update(m)
    fixed = L.line_records(rec['fixed'])
    return [{'clause': 'A', 'raised': rec['raised']},
            {'clause': 'R', 'relint': rec['relint'], 'relint_raised': rec['relint_raised']},
            {'clause': 'U', 'orig': orig, 'fixed': fixed}]


def run(ctx):
    if not ctx.replay:
        ctx.mc('MC_LintFix', 'MC_LintFix', workers=4, timeout=2400, coverage=False)

    if ctx.replay:
        c = ctx.replay['case']
        cases = [(c['prog'], c['inputs'])]
    else:
        cases = gen_cases(ctx, int(os.environ.get('VERIF_C43_N', 0)) or (3 if ctx.quick else 15), 2 if ctx.quick else 3)
    recorder = Recorder()
    results, fails, legal = F.behaviour_check(ctx, 'lintfix', cases, recorder)

    # ---- clauses on the text / the re-lint report (TLC: Trace_LintFix)
    tcases, tmeta = [], []
    for idx, (prog, _) in enumerate(cases):
        rec = recorder.records.get(id(prog))
        if rec is None:
            continue           # the original program did not build (counted by behaviour_check)
        for c in lint_cases(rec):
            tcases.append(c)
            tmeta.append((idx, c['clause']))
    verdicts = ctx.validate('Trace_LintFix', 'Trace_LintFix', tcases, timeout=2400, shards=4 if ctx.quick else 8) if tcases else {}
    per = {}
    for i, (idx, clause) in enumerate(tmeta):
        per.setdefault(idx, {})[clause] = verdicts[i]

    stats = {'programs': len(cases), 'linted': len(per), 'fix_applied': 0, 'text_changed': 0, 'first_lint_ops': 0, 'first_lint_ub': 0,
             'target_op_tokens': 0, 'old_spellings_in_strings_or_comments': 0, 'ub_check_lines': 0, 'clause_ok': {}, 'clause_failed': {}}
    seen = set()
    behaviour_bad = {idx: (kind, msg) for idx, kind, msg in fails}
    for idx, (prog, inputs) in enumerate(cases):
        if idx not in per:
            continue
        rec = recorder.records[id(prog)]
        lint = prog['lint']
        cell = f"{lint['layout']}:{lint['profile']}"
        stats['first_lint_ops'] += any(r['rule'] == L.RULES[0] for r in rec['first'])
        stats['first_lint_ub'] += any(r['rule'] == L.RULES[1] for r in rec['first'])
        stats['text_changed'] += rec['fixed'] != rec['orig']
        for o in L.line_records(rec['orig']):
            for t in o['toks']:
                if t['k'] == 'dot' and t['f'] in L.OLD.values():
                    stats['target_op_tokens'] += 1
                if t['k'] in ('str', 'cmt') and any(s in t['t'].lower() for s in L.OLD.values()):
                    stats['old_spellings_in_strings_or_comments'] += 1
        stats['ub_check_lines'] += sum(1 for m in rec['marks'] if m['mark'] == 'ubchk')
        v = per[idx]
        a_ok = v['A'][0]
        stats['fix_applied'] += bool(a_ok)

        def report(clause, detail, what):
            key = f'{cell}:{clause}:{detail}'
            stats['clause_failed'][key] = stats['clause_failed'].get(key, 0) + 1
            if key in seen:
                return
            seen.add(key)
            ctx.violation(key, f'{clause} fails ({detail}): {what}\n--- file handed to the linter ---\n{rec["orig"][:2500]}'
                               f'--- file after Linter.fix ---\n{rec["fixed"][:2500]}', {'prog': prog, 'inputs': inputs})
        for clause in 'ARU':
            if v[clause][0]:
                stats['clause_ok'][CLAUSE[clause]] = stats['clause_ok'].get(CLAUSE[clause], 0) + 1
        if not a_ok:
            report('FixApplies', v['A'][1][2:], f'Linter.check/fix raised {rec["raised"]}\n{rec["trace"][-600:]}')
        elif not v['R'][0]:
            # ReLintClean presupposes that the fixes were applied
            report('ReLintClean', v['R'][1][2:], f're-linting the fixed file still reports {v["R"][1][2:]} (first at line {v["R"][2]}): '
                                                 f'{[r for r in rec["relint"] if r["rule"] in L.RULES][:4]}')
        if not v['U'][0]:
            pos = v['U'][2]
            lines = rec['orig'].split('\n')
            for cls in v['U'][1][2:].split('+'):
                report('Unchanged', cls, f'text outside the targets changed (classes {v["U"][1][2:]}; first at original line {pos}: '
                                         f'{lines[pos - 1] if 0 < pos <= len(lines) else "<end of file>"!r})')
        if idx in behaviour_bad and idx in legal:
            kind, msg = behaviour_bad[idx]
            extent = 'exact' if lint['exact'] else 'larger'
            detail = f"{'output-differs' if kind == 'output' else kind}:extent={extent if 'ub' in lint['profile'] else 'na'}"
            report('BehaviourPreserved', detail, f'the fixed file {kind}: {msg[:600]}')
    ctx.cover.update(stats)
    ctx.cover['programs_with_legal_inputs'] = len(legal)
    if not ctx.replay:
        # vacuity: every profile must really contain what it promises
        if os.environ.get('VERIF_C43_PROFILES'):
            pass
        elif stats['target_op_tokens'] < 10 or stats['ub_check_lines'] < 10 or stats['old_spellings_in_strings_or_comments'] < 10:
            raise MachineryError(f'vacuity: generated programs lack targets/distractors: {stats}')
    for r in results[:1]:
        rec = recorder.records.get(id(cases[r['idx']][0]))
        if rec:
            ctx.sample({'original': rec['orig'][:1200], 'fixed': rec['fixed'][:1200], 'relint': rec['relint'][:3], 'raised': rec['raised']})
    ctx.assumptions += [
        'programs: lib_fm MiniFortran kernels + helpers with old-style relational operators (random case/spacing), dynamic UBOUND '
        'checks on assumed-shape dummies in the shapes of lint_rules/tests/test_debug_rules.py, comments/strings with the same spellings',
        'no continuation lines, one declared symbol per declaration line, `name(:)` style declarations only',
        'layout free = free-standing routines handed to the linter (a harness-owned module wrapper is added for compilation); '
        'layout module = the whole module file is handed to the linter',
        'inputs never trigger the UBOUND checks (their removal is the documented purpose of the rule); '
        'extent=exact: the actual extent equals the checked bound, extent=larger: it may exceed it',
        'a target that is left unfixed is judged by ReLintClean, not by Unchanged; ReLintClean is judged only when FixApplies holds',
        'the line lexer (harness/lib_lintfix.lex_line) is trusted as a projection',
    ]
