"""C27 Dependency queries report every actual loop-carried or read-after-write value.

spec: FMachineLog + Trace_Dataflow (see C26), clauses
      C  loop instance: location written in iteration i, read in iteration j > i before being written in j
         -> its variable is in loop_carried_dependencies(loop)            (DO and DO WHILE loops)
      R  inspection point "before statement p" within one execution of the statement list containing p
         (routine body, loop body = one iteration, branch, case, associate body): location written earlier in
         that list execution and read at/after p before being re-written
         -> its variable is in read_after_write_vars(<that list>, inspection_node=p)
code: loki.analyse.loop_carried_dependencies / read_after_write_vars under dataflow_analysis_attached.
"""
from . import C26

CLAUSES = ('C', 'R')


def run(ctx):
    C26.run(ctx, clauses=CLAUSES, label='depquery')
