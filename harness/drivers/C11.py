"""C11 Expression equality is symmetric, case-insensitive and hash-consistent.

spec: ExprEq.tla      node universe (abstract descriptors, closed under case variants) + the three laws
                      Symmetric / HashConsistent / CaseInsensitive + the exemption IsRangeShortcut (`1:n` vs `n`)
      MC_ExprEq       design-level check of the specification (universe well formed / closed; the laws are
                      satisfied by the reference relation and violated by seeded corruptions)
      Gen_ExprEq      TLC enumerates the universe and exports one JSON descriptor per node (spec -> code)
      Trace_ExprEq    TLC evaluates the laws on the relation recorded from the real nodes (code -> spec)
The harness builds the real Loki node of every descriptor, records `x == y` for all ordered pairs and hash(x)
(as class indices) and hands the relation to TLC.  It contains no law.
"""
import json
import os
import re

from ..core import MachineryError, SPEC

LAWS = ('Symmetric', 'HashConsistent', 'CaseInsensitive')


def build(d):
    """Abstract descriptor -> real Loki expression node (constructed the way the frontends do)."""
    from loki.expression import symbols as sym
    from loki.expression.operations import ParenthesisedAdd, ParenthesisedMul
    from loki.types import SymbolAttributes, BasicType, DerivedType, ProcedureType
    k, n, c = d['k'], d['n'], d['c']
    if k == 'none':
        return None
    if k == 'scalar':
        return sym.Variable(name=n, type=SymbolAttributes(BasicType.REAL))
    if k == 'deferred':
        return sym.Variable(name=n)
    if k == 'proc':
        return sym.Variable(name=n, type=SymbolAttributes(ProcedureType(n)))
    if k == 'array':
        dims = tuple(build(x) for x in c)
        shape = tuple(sym.IntLiteral(5) for _ in range(max(1, len(dims))))
        return sym.Variable(name=n, type=SymbolAttributes(BasicType.REAL, shape=shape), dimensions=dims or None)
    if k == 'member':
        parent = build(c[0])
        parent = parent.clone(type=parent.type.clone(dtype=DerivedType(name='some_type')))
        dims = tuple(build(x) for x in c[1:])
        kw = {'shape': tuple(sym.IntLiteral(5) for _ in dims)} if dims else {}
        return sym.Variable(name=f'{parent.name}%{n}', parent=parent, type=SymbolAttributes(BasicType.REAL, **kw),
                            dimensions=dims or None)
    if k == 'int':
        return sym.IntLiteral(int(n), kind=build(c[0]) if c else None)
    if k == 'float':
        return sym.FloatLiteral(n, kind=build(c[0]) if c else None)
    if k == 'logic':
        return sym.LogicLiteral(n)
    if k == 'str':
        return sym.StringLiteral(n)
    ch = [build(x) if x['k'] != 'kw' else None for x in c]
    if k == 'sum':
        return sym.Sum(tuple(ch))
    if k == 'prod':
        return sym.Product(tuple(ch))
    if k == 'psum':
        return ParenthesisedAdd(tuple(ch))
    if k == 'pprod':
        return ParenthesisedMul(tuple(ch))
    if k == 'quot':
        return sym.Quotient(ch[0], ch[1])
    if k == 'pow':
        return sym.Power(ch[0], ch[1])
    if k == 'cmp':
        return sym.Comparison(ch[0], n, ch[1])
    if k == 'and':
        return sym.LogicalAnd(tuple(ch))
    if k == 'or':
        return sym.LogicalOr(tuple(ch))
    if k == 'not':
        return sym.LogicalNot(ch[0])
    if k == 'concat':
        return sym.StringConcat(tuple(ch))
    if k == 'call':
        params = tuple(build(x) for x in c[1:] if x['k'] != 'kw')
        kws = tuple((x['n'], build(x['c'][0])) for x in c[1:] if x['k'] == 'kw')
        return sym.InlineCall(ch[0], parameters=params, kw_parameters=kws)
    if k == 'cast':
        return sym.Cast(n, ch[0], kind=ch[1] if len(ch) > 1 else None)
    if k in ('range', 'rangeindex', 'looprange'):
        cls = {'range': sym.Range, 'rangeindex': sym.RangeIndex, 'looprange': sym.LoopRange}[k]
        return cls((ch[0], ch[1]) if ch[2] is None else (ch[0], ch[1], ch[2]))
    raise MachineryError(f'unknown descriptor kind {k!r}')


def record(descs):
    """Build the nodes and record the full == matrix and the hash classes."""
    nodes = [build(d) for d in descs]
    n = len(nodes)
    hcls, hidx = [], {}
    for x in nodes:
        try:
            h = hash(x)
            hcls.append(hidx.setdefault(h, len(hidx) + 1))
        except Exception:  # pylint: disable=broad-except
            hcls.append(0)
    eq = []
    raised = 0
    for x in nodes:
        row = []
        for y in nodes:
            try:
                row.append(1 if x == y else 0)
            except Exception:  # pylint: disable=broad-except
                row.append(2)
                raised += 1
        eq.append(row)
    return nodes, eq, hcls, raised


def text(node):
    try:
        return f'{type(node).__name__}({str(node)!r})'
    except Exception as ex:  # pylint: disable=broad-except
        return f'{type(node).__name__}(<str failed: {ex}>)'


def differs_only_by_case(dx, dy):
    return json.dumps(dx).lower() == json.dumps(dy).lower() and dx != dy


def norm_key(law, dx, dy, exy, eyx, hx, hy):
    """Normal form of a violating pair: law, node kinds, what was observed (names abstracted)."""
    rel = 'case-variant' if differs_only_by_case(dx, dy) else ('same' if dx == dy else 'other')
    has_kw = lambda d: d['k'] == 'kw' or any(has_kw(x) for x in d['c'])   # noqa: E731
    extra = ':kwargs' if rel == 'case-variant' and has_kw(dx) else ''
    return f"{law}:{dx['k']}~{dy['k']}:{rel}:eq={exy}{eyx}:hash={'same' if hx == hy else 'diff'}{extra}"


def tier_cfg(ctx, name):
    """Copy spec/<name>.cfg into the work dir with the universe size of the tier (thorough: Wide = TRUE)."""
    with open(os.path.join(SPEC, name + '.cfg')) as fh:
        text = fh.read()
    if not ctx.quick:
        text = text.replace('Wide = FALSE', 'Wide = TRUE')
    p = os.path.join(ctx.work, f'{name}_{ctx.tier}.cfg')
    with open(p, 'w') as fh:
        fh.write(text)
    return p


def run(ctx):
    quick = ctx.quick

    def _t(what):
        if os.environ.get('VERIF_DEBUG'):
            print(f'[C11] {what}: t={ctx.elapsed():.1f}s', flush=True)
    # 1. design-level check of the specification
    mcr = ctx.mc('MC_ExprEq', tier_cfg(ctx, 'MC_ExprEq'), timeout=600 if quick else 2400, coverage=False, workers=2)
    _t('mc')
    # 2. TLC enumerates the universe
    r = ctx.tlc('Gen_ExprEq', tier_cfg(ctx, 'Gen_ExprEq'), timeout=600)
    descs = [json.loads(v[1]) for v in r.prints('NODE')]
    if len(descs) < 300 or not r.ok:
        raise MachineryError(f'Gen_ExprEq exported {len(descs)} nodes\n{r.tail()}')
    if ctx.replay:
        # a replayed case is a pair of descriptors; it is checked inside the full universe (the laws quantify
        # over partners), rows restricted to the two nodes
        want = [ctx.replay['case']['x'], ctx.replay['case']['y']]
        rows = [i for i, d in enumerate(descs) if d in want]
        if not rows:
            raise MachineryError('replayed descriptors are not part of the specified universe')
    else:
        rows = list(range(len(descs)))
    _t('universe')
    # 3. real nodes, recorded relation
    nodes, eq, hcls, raised = record(descs)
    upath = os.path.join(ctx.work, 'universe.json')
    with open(upath, 'w') as fh:
        json.dump({'nodes': descs, 'eq': eq, 'hash': hcls}, fh)
    _t('recorded')
    # 4. TLC evaluates each law on each row
    cases = [{'x': i + 1, 'law': law} for i in rows for law in LAWS]
    verdicts = ctx.validate('Trace_ExprEq', tier_cfg(ctx, 'Trace_ExprEq'), cases, extra_env={'UNIVERSE': upath},
                            shards=8 if quick else 12, timeout=600 if quick else 2400)
    _t('validated')
    nviol = 0
    per_law = {law: 0 for law in LAWS}
    for ci, c in enumerate(cases):
        ok, clause, _ = verdicts[ci]
        if ok:
            continue
        m = re.fullmatch(r'(\w+):(\d+):(\d+)', clause)
        if not m or m.group(1) != c['law']:
            raise MachineryError(f'unexpected verdict clause {clause!r}')
        x, y, cnt = c['x'] - 1, int(m.group(2)) - 1, int(m.group(3))
        nviol += 1
        per_law[c['law']] += cnt
        key = norm_key(c['law'], descs[x], descs[y], eq[x][y], eq[y][x], hcls[x], hcls[y])
        ctx.violation(key,
                      f"law {c['law']} violated by the pair x={text(nodes[x])}, y={text(nodes[y])}: "
                      f"x==y is {eq[x][y]}, y==x is {eq[y][x]}, hash classes {hcls[x]}/{hcls[y]} "
                      f"({cnt} violating partners in this row)",
                      {'x': descs[x], 'y': descs[y], 'law': c['law']})
    kinds = {}
    for d in descs:
        kinds[d['k']] = kinds.get(d['k'], 0) + 1
    ctx.cover['universe_nodes'] = len(descs)
    ctx.cover['ordered_pairs_recorded'] = len(descs) ** 2
    ctx.cover['pairs_equal'] = sum(v == 1 for row in eq for v in row)
    ctx.cover['comparisons_raised'] = raised
    ctx.cover['hash_classes'] = len(set(hcls))
    ctx.cover['nodes_by_kind'] = kinds
    ctx.cover['row_law_checks'] = len(cases)
    ctx.cover['rows_rejected'] = nviol
    ctx.cover['violating_pairs_by_law'] = per_law
    ctx.cover['mc_universe'] = mcr.get('states')
    ctx.sample({'descriptor': descs[0], 'node': text(nodes[0])})
    ctx.sample({'descriptor': descs[len(descs) // 2], 'node': text(nodes[len(descs) // 2])})
    ctx.sample({'descriptor': descs[-1], 'node': text(nodes[-1])})
    ctx.assumptions += [
        'universe: the set ExprEq!Universe (base nodes of every kind in lower case + their UPPER / Capitalised / '
        'mixed-case variants), enumerated by TLC; only pairs of expression nodes (no python strings/ints)',
        'CaseVariant varies names only (variables, members, procedures, casts, kinds, keyword-argument names, '
        'logical-literal spelling); literal values and string-literal contents are never varied',
        'exemption IsRangeShortcut: a range `1:n` (literal 1 without kind, no stride; Range, RangeIndex or LoopRange '
        '- they share the documented shortcut code) against a node equal to `n` up to case is exempt from Symmetric '
        'and HashConsistent; CaseInsensitive is not exempt',
        'symbols are unscoped and typed as the frontends type them (REAL scalars/arrays, derived-type parents, '
        'procedure types, deferred kinds)',
    ]


def selftest(ctx):
    """Binding demonstration: corrupt single fields of the recorded relation; TLC must name the law."""
    r = ctx.tlc('Gen_ExprEq', 'Gen_ExprEq', timeout=600)
    descs = [json.loads(v[1]) for v in r.prints('NODE')]
    _, eq, hcls, _ = record(descs)
    ix = {json.dumps(d, sort_keys=True): i for i, d in enumerate(descs)}
    sc = lambda n: {'k': 'scalar', 'n': n, 'c': []}   # noqa: E731
    n_, N_, m_ = (ix[json.dumps(sc(v), sort_keys=True)] for v in ('n', 'N', 'm'))
    failures = []
    for name, law, row, mutate in (
            ('flip eq[n][m]', 'Symmetric', n_, lambda e, h: e[n_].__setitem__(m_, 1)),
            ('new hash class for N', 'HashConsistent', n_, lambda e, h: h.__setitem__(N_, max(h) + 1)),
            ('n != N', 'CaseInsensitive', n_, lambda e, h: e[n_].__setitem__(N_, 0))):
        e2, h2 = [list(r_) for r_ in eq], list(hcls)
        mutate(e2, h2)
        upath = os.path.join(ctx.work, 'universe_selftest.json')
        with open(upath, 'w') as fh:
            json.dump({'nodes': descs, 'eq': e2, 'hash': h2}, fh)
        v = ctx.validate('Trace_ExprEq', 'Trace_ExprEq', [{'x': row + 1, 'law': law}], extra_env={'UNIVERSE': upath})
        print(f'selftest {name}: verdict {v[0]}')
        if v[0][0] or not v[0][1].startswith(law):
            failures.append(name)
    print('SELFTEST', 'FAILED ' + str(failures) if failures else 'OK')
    return 2 if failures else 0
