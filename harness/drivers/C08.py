"""C08 Symbolic simplification preserves expression values.

spec: ExprUniverse (tree universe), FExpr (value semantics incl. truncating integer division),
      Trace_ExprEquiv (value equality on every sampled valuation where the input is defined).
code: loki.expression.symbolic.simplify with every subset of Simplification flags.
"""
import itertools

from .. import lib_expr as X
from ..core import MachineryError
from .C06 import universe


def flag_sets(quick):
    from loki.expression.symbolic import Simplification as S
    base = [S.Flatten, S.IntegerArithmetic, S.FloatingPointArithmetic, S.CollectCoefficients, S.LogicEvaluation]
    allsets = []
    for r in range(0, len(base) + 1):
        for combo in itertools.combinations(base, r):
            f = S(0)
            for x in combo:
                f |= x
            allsets.append(f)
    if quick:
        pick = [S.ALL, S.Flatten, S.IntegerArithmetic, S.CollectCoefficients, S.Flatten | S.IntegerArithmetic,
                S.IntegerArithmetic | S.CollectCoefficients, S.LogicEvaluation | S.IntegerArithmetic]
        return pick
    return [f for f in allsets if int(f.value) != 0]


def run(ctx):
    from loki.expression.symbolic import simplify
    rng = ctx.rng
    leaves = [X.V('a'), X.V('b'), X.V('c'), X.N(2), X.N(3), X.N(0), X.N(1), X.N(4)]
    rleaves = leaves + [{'k': 'real', 'n': 1, 'd': 2}, {'k': 'real', 'n': 2, 'd': 1}]
    if ctx.replay:
        c = ctx.replay['case']
        work = [(c['tree'], c['typing'], c['flags'])]
    else:
        trees = universe(ctx)
        rng.shuffle(trees)
        trees = trees[:400 if ctx.quick else 700]
        trees += [X.random_tree(rng, 3, leaves) for _ in range(300 if ctx.quick else 700)]
        trees += [X.random_tree(rng, 3, rleaves) for _ in range(100 if ctx.quick else 300)]
        trees += [X.random_logical(rng, 2, leaves) for _ in range(100 if ctx.quick else 300)]
        # literal arithmetic around division: (n1 - n2)/n3, n1/(n2 - n3), negative IntLiteral nodes, literal powers
        lit = []
        for n1 in range(0, 10):
            for n2 in range(0, 10):
                for n3 in (2, 3, 4):
                    lit.append({'k': 'quot', 'c': [{'k': 'sum', 'c': [X.N(n1), {'k': 'neg', 'c': [X.N(n2)]}]}, X.N(n3)]})
                    if n2 != n3:
                        lit.append({'k': 'quot', 'c': [X.N(n1), {'k': 'sum', 'c': [X.N(n2), {'k': 'neg', 'c': [X.N(n3)]}]}]})
        for v in (-9, -7, -5, -3, -1, 7):
            for d in (-3, -2, 2, 3, 4):
                lit.append({'k': 'quot', 'c': [{'k': 'rawint', 'v': v}, {'k': 'rawint', 'v': d}]})
                lit.append({'k': 'sum', 'c': [X.V('a'), {'k': 'prod', 'c': [X.V('b'), {'k': 'quot', 'c': [{'k': 'rawint', 'v': v}, {'k': 'rawint', 'v': d}]}]}]})
        rng.shuffle(lit)
        trees += lit[:150 if ctx.quick else 400]
        fsets = flag_sets(ctx.quick)
        work = []
        for t in trees:
            fs = fsets if not ctx.quick else rng.sample(fsets, 3)
            for f in fs:
                for typing in ('int', 'real'):
                    work.append((t, typing, int(f.value)))
    from loki.expression.symbolic import Simplification
    cases, meta, skipped, errors = [], [], 0, {}
    for t, typing, fv in work:
        try:
            e = X.build(t, typing)
            out = simplify(e, enabled_simplifications=Simplification(fv))
            ot = X.export(out)
        except X.Unsupported:
            skipped += 1
            continue
        except MachineryError:
            raise
        except Exception as ex:  # pylint: disable=broad-except
            # simplify() raising on a well-formed tree: recorded, reported as a violation class of its own
            errors.setdefault((type(ex).__name__, X.shape(t) if X.size(t) < 6 else len(errors) % 6), (t, typing, fv, str(ex)[:200]))
            continue
        cases.append({'typings': [typing], 'ref': {'form': 'tree', 'tree': t, 'toks': []}, 'obs': {'form': 'tree', 'tree': ot, 'toks': []}})
        meta.append((t, typing, fv, ot))
    verdicts = ctx.validate('Trace_ExprEquiv', 'Trace_ExprEquiv', cases, timeout=2400)
    fails = {}
    changed = set()
    vac = 0
    for i, (t, typing, fv, ot) in enumerate(meta):
        ok, clause, n = verdicts[i]
        if clause == 'vacuous':
            vac += 1
        if ot != t:
            changed.add((X.show(t), fv))
        if not ok:
            fails.setdefault((typing, X.shape(t)), (t, typing, fv, ot, clause))

    # shrink (batched) to a normal form: typing + does the minimal failing input still contain a quotient / power
    todo = sorted(fails.values(), key=lambda x: X.size(x[0]))[:30]

    def fails_batch_for(typing, fv):
        def fb(ts):
            cs, idx = [], []
            for i, t2 in enumerate(ts):
                try:
                    o2 = X.export(simplify(X.build(t2, typing), enabled_simplifications=Simplification(fv)))
                    cs.append({'typings': [typing], 'ref': {'form': 'tree', 'tree': t2, 'toks': []}, 'obs': {'form': 'tree', 'tree': o2, 'toks': []}})
                    idx.append(i)
                except Exception:  # pylint: disable=broad-except
                    pass
            out = [False] * len(ts)
            if cs:
                v = ctx.validate('Trace_ExprEquiv', 'Trace_ExprEquiv', cs)
                ctx.val_stats.pop()
                for j, i in enumerate(idx):
                    out[i] = not v[j][0]
            return out
        return fb
    groups = {}
    for item in todo:
        groups.setdefault((item[1], item[2]), []).append(item)
    # classification by the specification: does the rewrite hold when every division is exact?
    allfail = list(fails.values())
    ex = ctx.validate('Trace_ExprEquiv', 'Trace_ExprEquiv',
                      [{'typings': ['real'], 'ref': {'form': 'tree', 'tree': X.realify(t), 'toks': []},
                        'obs': {'form': 'tree', 'tree': X.realify(ot), 'toks': []}} for (t, _, _, ot, _) in allfail]) if allfail else {}
    ctx.val_stats and allfail and ctx.val_stats.pop()
    exact_ok = {id(item): (ex[i][0] and ex[i][1] != 'vacuous') for i, item in enumerate(allfail)}

    def feature_of(item, shp):
        if exact_ok.get(id(item)) and 'quot' in shp:
            return 'division-exactness'
        return 'other'
    for (typing, fv), items in groups.items():
        smalls = X.batch_shrink([it[0] for it in items], fails_batch_for(typing, fv), rounds=5, width=25)
        for item, small in zip(items, smalls):
            (t, _, _, ot, clause) = item
            shp = X.shape(small)
            feature = feature_of(item, X.shape(t))
            ctx.violation(f'simplify:{typing}:{feature}:{X.shape1(small)}',
                          f'simplify({X.show(t)}, flags={fv}) -> {X.show(ot)} changes the value ({typing} typing): {clause}; shrunk input {X.show(small)}',
                          {'tree': t, 'typing': typing, 'flags': fv})
    for (typing, shp), item in list(fails.items()):
        (t, _, fv, ot, clause) = item
        if item in todo:
            continue
        feature = feature_of(item, shp)
        ctx.violation(f'simplify:{typing}:{feature}:unshrunk', f'simplify({X.show(t)}, flags={fv}) -> {X.show(ot)}: {clause}',
                      {'tree': t, 'typing': typing, 'flags': fv})
    # a raise only counts when the input has at least one legal valuation (decided by TLC: ref vs itself)
    if errors:
        ecases = [{'typings': [typing], 'ref': {'form': 'tree', 'tree': t, 'toks': []}, 'obs': {'form': 'tree', 'tree': t, 'toks': []}}
                  for (t, typing, fv, msg) in errors.values()]
        ev = ctx.validate('Trace_ExprEquiv', 'Trace_ExprEquiv', ecases)
        errors = {k: v for i, (k, v) in enumerate(errors.items()) if ev[i][1] != 'vacuous'}
    for name, (t, typing, fv, msg) in errors.items():
        ctx.violation(f'simplify:raises:{name[0]}', f'simplify({X.show(t)}, flags={fv}, typing={typing}) raised {name[0]}: {msg}',
                      {'tree': t, 'typing': typing, 'flags': fv})
    ctx.cover.update(simplify_calls=len(meta), results_that_changed_the_tree=len(changed), vacuous=vac,
                     skipped_unsupported=skipped, failing=len(fails))
    for t, typing, fv, ot in meta[:4]:
        ctx.sample({'in': X.show(t), 'typing': typing, 'flags': fv, 'out': X.show(ot)})
    ctx.assumptions += ['real arithmetic is exact (rationals): rounding-only differences cannot be reported',
                        'valuations where the input expression is undefined or beyond magnitude 30000 are not judged']
