"""C13 Symbols are classified by their declared type and share it by scope.

spec: VarFactory.tla   Classify (tier decision) + histories Create/SetType/Clone/Rescope/Detach (Apply)
      MC_VarFactory    TLC exhaustive over all histories of length <= 3 (quick) / 4 (thorough)
      Gen_VarFactory   GSpec: TLC -simulate behaviours;  CSpec: TLC-enumerated classification cross product
      Trace_VarFactory recorded histories of the real objects validated by TLC (code -> spec)
Real objects: loki.expression.symbols.Variable (factory), TypedSymbol.type, clone, rescope, attached to real
scoped nodes (Subroutine / Associate chains).  The harness only drives and projects; expected classes and types
come from TLC (Gen output for the spec -> code comparison, Trace verdicts for code -> spec).
"""
import json
import os
import re

from ..core import MachineryError, SPEC

NAMES = ['x', 'y', 'd%x']

_TYPEDEFS = {}


def _typedefs():
    if not _TYPEDEFS:
        from loki import Module
        from loki.frontend import FP
        m = Module.from_source("""
module c13_types
  type ty_s
    integer :: x
  end type
  type ty_a
    integer :: x(3)
  end type
end module
""", frontend=FP)
        _TYPEDEFS['mod'] = m   # keep the module alive (typedefs hold weak references to their scope)
        _TYPEDEFS['ts'] = m.typedef_map['ty_s']
        _TYPEDEFS['ta'] = m.typedef_map['ty_a']
    return _TYPEDEFS


def mk_type(t):
    """Abstract type value -> fresh SymbolAttributes."""
    from loki.types import SymbolAttributes, BasicType, DerivedType, ProcedureType
    from loki.expression.symbols import IntLiteral
    if t in ('none', 'keep'):
        return None
    base, shaped = (t[:-2], True) if t.endswith('[]') else (t, False)
    dtype = {'deferred': lambda: BasicType.DEFERRED, 'int': lambda: BasicType.INTEGER, 'real': lambda: BasicType.REAL,
             'derived': lambda: DerivedType(name='some_type'), 'proc': lambda: ProcedureType('some_proc')}[base]()
    kw = {'shape': (IntLiteral(3),)} if shaped else {}
    return SymbolAttributes(dtype, **kw)


def proj_type(a):
    """SymbolAttributes -> abstract type value (an absent type and DEFERRED are identified: `type` "Defaults to
    BasicType.DEFERRED")."""
    from loki.types import BasicType, DerivedType, ProcedureType
    if a is None:
        return 'deferred'
    d = a.dtype
    if isinstance(d, ProcedureType):
        base = 'proc'
    elif isinstance(d, DerivedType):
        base = 'derived'
    elif d is BasicType.DEFERRED or d is None:
        base = 'deferred'
    elif d is BasicType.INTEGER:
        base = 'int'
    elif d is BasicType.REAL:
        base = 'real'
    else:
        base = f'other({d})'
    return base + ('[]' if a.shape else '')


class Impl:
    """Real scopes + real symbols of one history, and the projection."""

    def __init__(self, kind):
        from loki import Subroutine
        from loki.ir import Associate
        self.kind = kind
        s3 = Subroutine(name='scope3')
        if kind == 'unit':
            s2 = Subroutine(name='scope2', parent=s3)
            s1 = Subroutine(name='scope1', parent=s2)
        else:
            s2 = Associate(associations=(), body=(), parent=s3)
            s1 = Associate(associations=(), body=(), parent=s2)
        self.sc = {1: s1, 2: s2, 3: s3}
        self.syms = []
        self.keep = []   # parents of member symbols (kept alive)

    def scope_idx(self, sc):
        if sc is None:
            return 0
        for i, s in self.sc.items():
            if s is sc:
                return i
        return -1

    def observe(self):
        syms = [[type(v).__name__, proj_type(v.type), self.scope_idx(v.scope)] for v in self.syms]
        tab = []
        for s in (1, 2, 3):
            t = self.sc[s].symbol_attrs
            row = []
            for n in NAMES:
                a = dict.get(t, n)
                row.append('none' if a is None else proj_type(a))
            tab.append(row)
        return {'syms': syms, 'tab': tab}

    def apply(self, e):
        from loki.expression.symbols import Variable, IntLiteral
        from loki.types import SymbolAttributes, DerivedType
        op = e['op']
        if op == 'create':
            kw = {'name': e['n']}
            if e['s']:
                kw['scope'] = self.sc[e['s']]
            if e['t'] != 'none':
                kw['type'] = mk_type(e['t'])
            if e['dims']:
                kw['dimensions'] = (IntLiteral(1),)
            if e['pc'] != 'none':
                td = _typedefs()
                if e['pc'] == 'nt':
                    ptype = SymbolAttributes(DerivedType(name='ty_n'))
                else:
                    ptype = SymbolAttributes(DerivedType(name='ty_' + e['pc'][1], typedef=td[e['pc']]))
                parent = Variable(name='d', type=ptype)
                self.keep.append(parent)
                kw['parent'] = parent
            self.syms.append(Variable(**kw))
        elif op == 'settype':
            sc = self.sc[e['s']]
            via = e.get('via', 'table')
            peers = [v for v in self.syms if v.scope is sc and v.name.lower() == e['n']]
            if via == 'setter' and peers:
                peers[0].type = mk_type(e['t'])
            elif via == 'update':
                sc.symbol_attrs.update({e['n']: mk_type(e['t'])})
            else:
                sc.symbol_attrs[e['n']] = mk_type(e['t'])
        elif op == 'clone':
            v = self.syms[e['k'] - 1]
            kw = {}
            if e['s'] != -1:
                kw['scope'] = self.sc[e['s']] if e['s'] else None
            if e['t'] != 'keep':
                kw['type'] = mk_type(e['t'])
            self.syms.append(v.clone(**kw))
        elif op == 'detach':
            self.syms.append(self.syms[e['k'] - 1].clone(scope=None))
        elif op == 'rescope':
            self.syms.append(self.syms[e['k'] - 1].rescope(self.sc[e['s']]))
        else:
            raise MachineryError(f'unknown op {op}')


EV_FIELDS = ('op', 'k', 'n', 's', 't', 'dims', 'pc')


def record(kind, events, rng=None):
    """Replay events into fresh real objects; returns the recorded trace (event + obs) or, if the
    implementation raises, the trace so far with an 'exception' observation."""
    impl = Impl(kind)
    trace = []
    for e in events:
        e = dict(e)
        if e['op'] == 'settype' and 'via' not in e:
            e['via'] = rng.choice(['table', 'table', 'setter', 'update']) if rng else 'table'
        try:
            impl.apply(e)
            obs = impl.observe()
        except MachineryError:
            raise
        except Exception as ex:  # pylint: disable=broad-except
            obs = {'syms': [[f'EXCEPTION {type(ex).__name__}: {ex}'[:120], 'none', 0]], 'tab': [['none'] * 3] * 3}
            trace.append(dict(e, obs=obs))
            break
        trace.append(dict(e, obs=obs))
    return trace


def strip(trace):
    return [{k: v for k, v in e.items() if k != 'obs'} for e in trace]


def delete_event(events, i):
    """Remove event i (0-based) from a history; drop events that use a symbol it created, renumber the rest."""
    creates = ('create', 'clone', 'rescope', 'detach')
    out = []
    nsym = 0
    remap = {}
    for j, e in enumerate(events):
        makes = e['op'] in creates
        if makes:
            nsym += 1
        if j == i:
            continue
        e = dict(e)
        if e['op'] in ('clone', 'rescope', 'detach'):
            if e['k'] not in remap:
                continue       # source symbol was deleted
            e['k'] = remap[e['k']]
        if makes:
            remap[nsym] = len(remap) + 1
        out.append(e)
    return out


def norm_key(kind, clause, trace, l):
    """Normal form: failing clause + op + expected/observed value (symbol indices, scope numbers abstracted).
    The TLC clause is `<head>:<op>:<index>:<expected>`; the observed value is read from the recorded trace."""
    parts = clause.split(':', 3)
    if len(parts) < 4 or not 0 < l <= len(trace):
        return clause
    head, op, idx, want = parts
    e = trace[l - 1]
    obs = e['obs']
    got = '?'
    try:
        if head == 'symbols':
            first = obs['syms'][0][0] if obs['syms'] else ''
            got = 'exception=' + first.split()[1].rstrip(':') if first.startswith('EXCEPTION') else f"count={len(obs['syms'])}"
        elif head == 'table':
            s_, i_ = idx.split('/')
            got = obs['tab'][int(s_) - 1][int(i_) - 1]
        else:
            got = obs['syms'][int(idx) - 1][{'class': 0, 'attached-type': 1, 'detached-type': 1, 'scope': 2}[head]]
    except (KeyError, IndexError, ValueError):
        pass
    key = f'{head}:{op}:want={want}:got={got}'
    if op == 'create':
        key += f":scoped={'yes' if e['s'] else 'no'}:type={'given' if e['t'] != 'none' else 'omitted'}" \
               f":dims={'yes' if e['dims'] else 'no'}:pc={e['pc']}"
    elif op == 'settype':
        key += f":via={e.get('via', 'table')}"
    elif op in ('clone', 'rescope', 'detach') and l >= 2:
        src = trace[l - 2]['obs']['syms']
        if 0 < e['k'] <= len(src):
            key += f":src={src[e['k'] - 1][0]}"
    return key


def gen_cfg(ctx, name, spec, depth, maxsyms, full):
    p = os.path.join(ctx.work, name)
    with open(p, 'w') as fh:
        fh.write(f'SPECIFICATION {spec}\nCONSTANT GenDepth = {depth}\nCONSTANT GenMaxSyms = {maxsyms}\n'
                 f'CONSTANT Full = {"TRUE" if full else "FALSE"}\nCHECK_DEADLOCK FALSE\n'
                 + ('CONSTRAINT EmitCase\n' if spec == 'CSpec' else ''))
    return p


def shrink(ctx, kind, events, clause_head):
    """Greedy delta-debugging on the event list, decided by the trace spec (batch per round)."""
    cur = events
    for _ in range(3):
        cands = [delete_event(cur, i) for i in range(len(cur) - 1)]
        cands = [c for c in cands if c]
        if not cands:
            break
        traces = [record(kind, c) for c in cands]
        verdicts = ctx.validate('Trace_VarFactory', 'Trace_VarFactory', [{'kind': kind, 'events': t} for t in traces])
        ctx.val_stats.pop()    # shrinking runs are not evidence
        better = [c for i, c in enumerate(cands)
                  if not verdicts[i][0] and verdicts[i][1].split(':')[0] == clause_head]
        if not better:
            break
        cur = min(better, key=len)
    return cur


def run(ctx):
    quick = ctx.quick

    def _t(what):
        if os.environ.get('VERIF_DEBUG'):
            print(f'[C13] {what}: t={ctx.elapsed():.1f}s', flush=True)
    # 1. design-level model checking of the specification (all histories up to MaxDepth)
    cfg = os.path.join(ctx.work, 'MC_VarFactory_run.cfg')
    with open(os.path.join(SPEC, 'MC_VarFactory.cfg')) as fh:
        text = fh.read().replace('MaxDepth = 4', f'MaxDepth = {3 if quick else 4}')
    with open(cfg, 'w') as fh:
        fh.write(text)
    ctx.mc('MC_VarFactory', cfg, timeout=300 if quick else 1500,
           required_actions=('DoCreate', 'DoSetType', 'DoClone', 'DoRescope', 'DoDetach'))

    _t('mc')
    cases, meta = [], []
    if ctx.replay:
        c = ctx.replay['case']
        trace = record(c['kind'], c['events'])
        cases, meta = [{'kind': c['kind'], 'events': trace}], [(c['kind'], trace, 'replay')]
    else:
        # 2a. classification cross product, enumerated by TLC (CSpec)
        r = ctx.tlc('Gen_VarFactory', gen_cfg(ctx, 'Gen_cases.cfg', 'CSpec', 8, 6, not quick), timeout=900)
        ccases = [json.loads(v[1]) for v in r.prints('CLASSCASE')]
        if len(ccases) < 800:
            raise MachineryError(f'Gen_VarFactory/CSpec produced only {len(ccases)} classification cases\n{r.tail()}')
        _t('classcases')
        # 2b. histories: TLC -simulate behaviours (GSpec)
        depth = 10 if quick else 14
        nbeh = 150 if quick else 4000
        r = ctx.tlc('Gen_VarFactory', gen_cfg(ctx, 'Gen_beh.cfg', 'GSpec', depth, 8, False),
                    simulate=f'num={nbeh}', depth=depth + 2, seed=ctx.seed + 13, timeout=1800)
        behs = [json.loads(v[1]) for v in r.prints('BEHAVIOUR')]
        if len(behs) < nbeh * 0.9:
            raise MachineryError(f'Gen_VarFactory/GSpec produced {len(behs)} behaviours, expected {nbeh}\n{r.tail()}')
        _t('behaviours')
        # 3. replay into the real objects, compare with the specified observations (spec -> code) and record
        diverged = 0
        combos = set()
        for src, hs in (('classify', ccases), ('history', behs)):
            for bi, beh in enumerate(hs):
                kind = ('assoc', 'unit')[bi % 2]
                events = [h['e'] for h in beh]
                trace = record(kind, events, ctx.rng if src == 'history' else None)
                if any(h['obs'] != t['obs'] for h, t in zip(beh, trace)) or len(trace) != len(beh):
                    diverged += 1
                cases.append({'kind': kind, 'events': trace})
                meta.append((kind, trace, src))
                if src == 'classify':
                    combos.add(json.dumps(strip(trace), sort_keys=True))
        ctx.cover['classification_cases'] = len(ccases)
        ctx.cover['classification_cases_distinct'] = len(combos)
        ctx.cover['spec_behaviours_replayed'] = len(behs)
        ctx.cover['spec_to_code_divergences'] = diverged

    _t('replayed')
    # 4. code -> spec: TLC validates every recorded trace
    verdicts = ctx.validate('Trace_VarFactory', 'Trace_VarFactory', cases, shards=8 if len(cases) > 200 else None)
    _t('validated')
    rejected = 0
    classes, ops = {}, {}
    shrunk = {}
    for i, (kind, trace, src) in enumerate(meta):
        ok, clause, l = verdicts[i]
        for e in trace:
            ops[e['op']] = ops.get(e['op'], 0) + 1
            for s in e['obs']['syms'][-1:]:
                if e['op'] != 'settype':
                    classes[s[0]] = classes.get(s[0], 0) + 1
        if ok:
            continue
        if clause.startswith('ILLEGAL-EVENT'):
            raise MachineryError(f'generated history contains an event outside the specified vocabulary: {clause} '
                                 f'{strip(trace)[:l]}')
        rejected += 1
        key = norm_key(kind, clause, trace, l)
        events = strip(trace)[:l]
        if key not in shrunk:
            if len(shrunk) < (2 if ctx.quick else 12):
                small = shrink(ctx, kind, events, clause.split(':')[0])
                st = record(kind, small)
                v = ctx.validate('Trace_VarFactory', 'Trace_VarFactory', [{'kind': kind, 'events': st}])
                ctx.val_stats.pop()
                if not v[0][0]:
                    key2 = norm_key(kind, v[0][1], st, v[0][2])
                    shrunk[key] = (key2, v[0][1], strip(st)[:v[0][2]])
                else:
                    shrunk[key] = (key, clause, events)
            else:
                shrunk[key] = (key, clause, events)
        k2, cl2, ev2 = shrunk[key]
        ctx.violation(k2, f'{src} trace rejected by Trace_VarFactory at event {len(ev2)}: {cl2}; events={ev2}',
                      {'kind': kind, 'events': ev2})
    if not ctx.replay and (rejected == 0) != (ctx.cover['spec_to_code_divergences'] == 0):
        raise MachineryError(f'spec->code comparison ({ctx.cover["spec_to_code_divergences"]} divergences) and trace '
                             f'validation ({rejected} rejected) disagree')
    ctx.cover['traces_rejected'] = rejected
    ctx.cover['events_validated'] = sum(len(t) for _, t, _ in meta)
    ctx.cover['events_by_op'] = ops
    ctx.cover['created_symbols_by_class'] = classes
    if not ctx.replay:
        missing = {'ProcedureSymbol', 'Array', 'Scalar', 'DeferredTypeSymbol'} - set(classes)
        if missing and not rejected:
            raise MachineryError(f'vacuity: classes never produced: {missing}')
    ctx.sample({'kind': meta[0][0], 'events': meta[0][1][:3]})
    ctx.sample({'kind': meta[-1][0], 'events': meta[-1][1][:3]})
    ctx.assumptions += [
        'universe: 3 nested scopes (Associate/Associate/Subroutine and Subroutine x3), names x, y and member d%x, '
        '10 types = {deferred,int,real,derived,proc} x {shape, no shape}, up to 8 symbols per history',
        'derived-type names never coincide with symbol names (DerivedTypeSymbol, a fifth class for type names, '
        'is outside the four classes of the property)',
        'an absent type of an unattached symbol is identified with DEFERRED (`type` "Defaults to BasicType.DEFERRED")',
        'excluded from histories (documentation undecided): clone(scope=s) without type into a scope that records a '
        'different type; cloning/rescoping an unattached symbol that was created with subscripts but no type; '
        'member symbols (d%x) appear only in the classification cases, not in type-update histories',
        'all histories come from TLC (Gen_VarFactory); the harness contains no reference model',
    ]


def selftest(ctx):
    """Binding demonstration: corrupt single recorded fields; TLC must reject with the matching clause."""
    events = [{'op': 'create', 'k': 0, 'n': 'x', 's': 1, 't': 'int', 'dims': False, 'pc': 'none'},
              {'op': 'settype', 'k': 0, 'n': 'x', 's': 1, 't': 'real[]', 'dims': False, 'pc': 'none'},
              {'op': 'detach', 'k': 1, 'n': 'x', 's': 0, 't': 'keep', 'dims': False, 'pc': 'none'}]
    failures = []

    def corrupt(what):
        t = record('assoc', events)
        if what == 'class':
            t[0]['obs']['syms'][0][0] = 'Array'
        elif what == 'attached-type':
            t[1]['obs']['syms'][0][1] = 'int'
        elif what == 'detached-type':
            t[2]['obs']['syms'][1][1] = 'int'
        elif what == 'table':
            t[1]['obs']['tab'][1][0] = 'real[]'
        return t
    names = ['ok', 'class', 'attached-type', 'detached-type', 'table']
    v = ctx.validate('Trace_VarFactory', 'Trace_VarFactory', [{'kind': 'assoc', 'events': corrupt(w)} for w in names])
    for i, w in enumerate(names):
        print(f'selftest {w}: verdict {v[i]}')
        if (w == 'ok') != bool(v[i][0]) or (w != 'ok' and not v[i][1].startswith(w)):
            failures.append(w)
    print('SELFTEST', 'FAILED ' + str(failures) if failures else 'OK')
    return 2 if failures else 0
