"""C31 Loop transformations preserve behaviour where they apply.

spec: FMachine (MiniFortran reference machine) + Trace_FMachine: the stdout of the gfortran build of the
      module Loki transformed and wrote back must equal Run(original program, input).out predicted by TLC.
code: do_loop_unroll (`!$loki loop-unroll [depth(n)]`), do_loop_fusion, do_loop_fission, do_loop_interchange
      (loki/transformations/transform_loop.py), split_loop / block_loop_arrays (loop_blocking.py).
      (a) unrolling: general programs, every literal (start, stop, step) of a small range incl. negative
          steps, zero-trip loops, nesting, depth(n)                      -> must ALWAYS preserve behaviour
      (b) fusion / fission / interchange / blocking: pragma-annotated nests that are legal BY CONSTRUCTION
          (independent iterations, see lib_fm_loops.NestGen); range-mismatched fusion included because the
          transformation documents and tests its guard insertion; `fusion-permute`: collapse(2|3) groups whose
          nests name their loop variables differently / in permuted roles over the same iteration space
          (guaranteed minimum per run, see ctx.cover['fusion_permute']).
"""
import os

from .. import lib_fm as F
from .. import lib_fm_loops as L
from ..core import MachineryError

# family -> (quick, thorough) number of programs
PLAN = {
    # (a) unrolling
    'unroll': (20, 225), 'unroll-select': (5, 40), 'unroll-negpow': (4, 30), 'unroll-exitcycle': (4, 30),
    'unroll-loopvar': (4, 30), 'unroll-print': (4, 30),
    # (b) legal by construction
    'fusion': (9, 90), 'fusion-mismatch': (9, 90), 'fusion-collapse': (5, 50), 'fusion-permute': (9, 80),
    'fission': (9, 90), 'fission-autopromote': (5, 45), 'fission-promote': (7, 60), 'fission-promote-lb': (4, 30),
    'interchange': (9, 90), 'interchange-project': (6, 50), 'split': (8, 80), 'split-steptrunc': (3, 20), 'block': (7, 60),
}


def run(ctx):
    only_fams = [f for f in os.environ.get('VERIF_FAMILIES', '').split(',') if f]
    if ctx.replay:
        c = ctx.replay['case']
        cases = [(c['prog'], c['inputs'])]
    else:
        cases = []
        only = [f for f in os.environ.get('VERIF_FAMILIES', '').split(',') if f]    # development aid
        for fam, (q, t) in PLAN.items():
            if only and fam not in only:
                continue
            for _ in range(q if ctx.quick else t):
                cases.append(L.gen_c31(ctx.rng, fam))
    with L.checked_builds():
        results, fails, legal = F.behaviour_check(ctx, 'loops', cases, L.transform_c31)
        L.report_by_family(ctx, cases, results, fails, L.transform_c31)
    L.family_cover(ctx, cases, results, legal)
    # vacuity guard: fused collapse(n) nests with permuted / re-used loop-variable names must really be judged
    perm = [r['idx'] for r in results if L.family_of(cases[r['idx']][0]) == 'fusion-permute'
            and r['idx'] in legal and r.get('new', ('none',))[0] != 'not-applicable']
    metas = [cases[i][0]['meta'] for i in perm]
    ctx.cover['fusion_permute'] = {
        'judged_programs': len(perm),
        'with_permuted_nest': sum(1 for m in metas if m.get('permuted_nests', 0) > 0),
        'with_name_reused_at_other_level': sum(1 for m in metas if m.get('shifted_nests', 0) > 0),
        'collapse2': sum(1 for m in metas if m.get('collapse') == 2),
        'collapse3': sum(1 for m in metas if m.get('collapse') == 3)}
    want = 0 if (ctx.replay or (only_fams and 'fusion-permute' not in only_fams)) else (6 if ctx.quick else 40)
    if ctx.cover['fusion_permute']['with_permuted_nest'] < want:
        raise MachineryError(f"vacuous: only {ctx.cover['fusion_permute']['with_permuted_nest']} fusion groups with permuted "
                             f"loop-variable names were judged (minimum {want})")
    ctx.cover['programs_with_legal_inputs'] = len(legal)
    for fam in ('unroll', 'fusion-mismatch', 'fission-promote', 'interchange'):
        r = next((r for r in results if (cases[r['idx']][0].get('meta') or {}).get('family') == fam and 'newtext' in r), None)
        if r:
            ctx.sample({'family': fam, 'program': r['text'], 'transformed': r['newtext'][:3000]})
    ctx.assumptions += [
        'MiniFortran subset (see C01); the PROGRAM driver is harness-owned',
        '(b) fusion/fission/interchange/blocking only on loop groups with independent iterations by construction: arrays of the group are accessed at the loop indices only, everything else the group reads is written nowhere in the group, scalar temporaries are written before read in every iteration and dead afterwards; PRINT never occurs inside such loops',
        'fusion: loops of one group have no step (Polyhedron.from_loop_ranges asserts step 1) and affine bounds in the inputs n, m; statements between the loops of a group touch only variables the group never references',
        'block_loop_arrays only on loops 1..hi over dummy arrays with lower bound 1 and an intent, subscripted by the loop variable; intent(out) arrays are assigned unconditionally first',
        'transformed builds run with -fcheck=bounds,do: an out-of-bounds access introduced by a transformation is a violation',
    ]
