"""C41 Built-in transformations leave a well-formed IR.

spec: WellFormedIR.tla (scope tree + symbol occurrences: ParentLink, ScopeOnChain, Resolvable, UniqueNames; recorded facts
      FrontendAccepts, CompilerAccepts), MC_WellFormedIR (design check on an abstract unit tree: correct
      transformation steps keep the clauses, their faulty variants are rejected), Trace_WellFormedIR (clauses on the
      structures exported from real Loki IR after each registry transformation; TLC names the offending symbols).
real code: the registry in harness/lib_wfir.registry() (built-in transformations applied without the Scheduler to a
      generated kernel module), exported by an independent recursion (lib_wfir.Exporter).
Offenders that the untransformed IR already has are not charged to a transformation (baseline differential).
"""
import concurrent.futures as cf
import os

from .. import lib_fm as F
from .. import lib_wfir as W
from ..core import MachineryError

CLAUSES = {'PL': 'ParentLink', 'SC': 'ScopeOnChain', 'RS': 'Resolvable', 'UN': 'UniqueNames', 'FA': 'FrontendAccepts', 'CA': 'CompilerAccepts'}


def apply_chain(prog, names, reg, workdir, tag):
    """Fresh parse, apply the named registry entries in order. Returns a record (status ok | n/a | raised)."""
    rec = {'names': list(names), 'status': 'ok', 'detail': ''}
    try:
        P = W.Parsed(prog)
        for nm in names:
            reg[nm](P)
        ex = W.export_units(P.units())
        rec['keep'] = (P, ex.pop('_keep'))
        rec['S'], rec['O'] = ex['S'], ex['O']
        rec['sources'] = P.sources()
        rec['reparse'] = 'ok'
        for _, text in rec['sources']:
            r = W.reparse(text)
            if r != 'ok':
                rec['reparse'] = r
                break
    except W.NotApplicable as ex:
        rec['status'], rec['detail'] = 'n/a', str(ex)
    except NotImplementedError as ex:
        rec['status'], rec['detail'] = 'n/a', f'NotImplementedError: {ex}'
    except MachineryError:
        raise
    except Exception as ex:  # pylint: disable=broad-except
        rec['status'], rec['detail'] = 'raised', f'{type(ex).__name__}: {str(ex)[:160]}'
    return rec


def run(ctx):
    cfg = os.path.join(ctx.work, 'MC_WellFormedIR_run.cfg')
    with open(os.path.join(os.path.dirname(__file__), '..', '..', 'spec', 'MC_WellFormedIR.cfg')) as fh:
        text = fh.read().replace('MaxOcc = 2', f'MaxOcc = {2 if ctx.quick else 3}')
    with open(cfg, 'w') as fh:
        fh.write(text)
    if not ctx.replay:
        ctx.mc('MC_WellFormedIR', cfg, workers=4, timeout=3000, coverage=False)

    reg_list = W.registry()
    if os.environ.get('VERIF_C41_ONLY'):      # (development: restrict the registry)
        reg_list = [(n, f) for n, f in reg_list if any(w in n for w in os.environ['VERIF_C41_ONLY'].split(','))]
    reg = dict(reg_list)
    # strata: all-lowercase programs and case-mixed programs (identifiers spelled lower / UPPER / Capitalised per
    # occurrence; callee locals clash with caller variables up to letter case only), alternating
    nprog = int(os.environ.get('VERIF_C41_N', 0)) or (4 if ctx.quick else 12)
    npairs = 0 if ctx.quick else 25
    if ctx.replay:
        c = ctx.replay['case']
        progs = [c['prog']]
        plans = [[('base', [])] + [('t', c['names'][:k]) for k in range(1, len(c['names']) + 1)]]
    else:
        progs, plans = [], []
        for i in range(nprog):
            g = W.WFGen(ctx.rng)
            progs.append(g.program(nstmts=ctx.rng.randint(3, 6), depth=2, casemix=ctx.rng.getrandbits(30) if i % 2 == 1 else None))
            plan = [('base', [])] + [('t', [nm]) for nm, _ in reg_list]
            names = [nm for nm, _ in reg_list]
            for _ in range(npairs):
                plan.append(('t', [ctx.rng.choice(names), ctx.rng.choice(names)]))
            plans.append(plan)

    # ---- drive Loki (serially), then gfortran (threads)
    runs = []            # (program index, record)
    for pi, (prog, plan) in enumerate(zip(progs, plans)):
        for kind, names in plan:
            rec = apply_chain(prog, names, reg, ctx.work, f'p{pi}')
            rec['pi'] = pi
            runs.append(rec)

    def compile_one(i):
        rec = runs[i]
        if rec['status'] != 'ok':
            return
        st, msg = W.syntax_check(ctx.work, f'c41-{i}', rec['sources'])
        rec['compile'] = 'ok' if st == 'ok' else 'gfortran'
        rec['compile_msg'] = msg
    with cf.ThreadPoolExecutor(max_workers=6) as ex:
        list(ex.map(compile_one, range(len(runs))))

    def case_of(rec, exempt):
        return {'S': rec['S'], 'O': rec['O'], 'reparse': rec['reparse'], 'compile': rec['compile'], 'exempt': exempt}

    def offenders(verdicts, i):
        n = verdicts[i][2]
        return [verdicts[f'{i}#{k}'][1].split(';') for k in range(1, n + 1)]

    # ---- baseline: the untransformed IR (pre-flight + exemptions)
    base = [r for r in runs if not r['names']]
    for r in base:
        if r['status'] != 'ok' or r['reparse'] != 'ok' or r['compile'] != 'ok':
            raise MachineryError(f"C41 generator: the untransformed program is not accepted: {r['status']} {r['detail']} "
                                 f"{r.get('reparse')} {r.get('compile_msg', '')[:600]}\n{F.render(progs[r['pi']])}")
    bver = ctx.validate('Trace_WellFormedIR', 'Trace_WellFormedIR', [case_of(r, []) for r in base], timeout=1800, shards=2)
    base_off = {r['pi']: offenders(bver, i) for i, r in enumerate(base)}
    ctx.cover['baseline_offenders'] = sorted({':'.join([o[0], o[2]]) for offs in base_off.values() for o in offs})

    # ---- singles, then pairs
    stats = {'applied': 0, 'not_applicable': {}, 'raised': {}, 'clean': 0, 'offending': {}, 'symbols_checked': 0, 'scopes_checked': 0}
    singles = [r for r in runs if len(r['names']) == 1]
    pairs = [r for r in runs if len(r['names']) > 1]
    single_off = {}
    seen = set()

    def judge(group, exempt_of):
        ok = [r for r in group if r['status'] == 'ok']
        for r in group:
            nm = '+'.join(r['names'])
            if r['status'] == 'n/a':
                stats['not_applicable'][nm] = stats['not_applicable'].get(nm, 0) + 1
            elif r['status'] == 'raised':
                stats['raised'].setdefault(nm, {})
                stats['raised'][nm][r['detail'][:90]] = stats['raised'][nm].get(r['detail'][:90], 0) + 1
        if not ok:
            return
        ver = ctx.validate('Trace_WellFormedIR', 'Trace_WellFormedIR', [case_of(r, exempt_of(r)) for r in ok], timeout=2400,
                           shards=4 if ctx.quick else 8)
        for i, r in enumerate(ok):
            nm = '+'.join(r['names'])
            stats['applied'] += 1
            stats['symbols_checked'] += len(r['O'])
            stats['scopes_checked'] += len(r['S'])
            offs = offenders(ver, i)
            single_off[(r['pi'], nm)] = offs
            if not offs:
                stats['clean'] += 1
            for code, sym, kind in offs:
                key = f'{nm}:{CLAUSES[code]}:{kind}'
                stats['offending'][key] = stats['offending'].get(key, 0) + 1
                if key in seen:
                    continue
                seen.add(key)
                if code == 'CA':
                    what = f'gfortran -fsyntax-only rejects the generated code: {r["compile_msg"][:700]}'
                elif code == 'FA':
                    what = f'the frontend does not re-parse the generated code ({sym})'
                elif code == 'UN':
                    sc = [(x['kind'], x['name']) for x in r['S'] if x['decls'].count(sym) > 1]
                    what = f'the name {sym!r} is declared more than once (up to letter case) in scope {sc}'
                elif code == 'PL':
                    sc = next((s for s in r['S'] if s['name'] == sym and s['kind'] == kind and (s['parent'] != s['encl'] or s['tparent'] != s['encl'])), None)
                    what = f'scope {kind} {sym!r}: parent pointer / symbol-table parent is not the enclosing scope: {sc}'
                else:
                    occ = [o for o in r['O'] if o['name'] == sym and o['kind'] == kind.replace('-unattached', '')][:4]
                    what = (f'symbol {sym!r} ({kind}) ' + ('is attached to a scope that is not on the chain of the unit containing it'
                                                         if code == 'SC' else 'is used but neither declared, imported nor host-associated')
                            + f'; occurrences {occ}; scopes {[(s["id"], s["kind"], s["name"], s["encl"]) for s in r["S"]]}')
                text = '\n'.join(t for _, t in r['sources'])
                ctx.violation(key, f'after {nm}: {CLAUSES[code]} fails: {what}\n--- original ---\n{F.render(progs[r["pi"]])[:2500]}'
                                   f'--- transformed ---\n{text[:3000]}', {'prog': progs[r['pi']], 'names': r['names']})

    judge(singles, lambda r: base_off[r['pi']])
    # a pair is charged only with what neither of its members produces on its own (interplay)
    judge(pairs, lambda r: base_off[r['pi']] + [o for nm in r['names'] for o in single_off.get((r['pi'], nm), [])])

    ctx.cover.update(stats)
    ctx.cover['programs'] = len(progs)
    ctx.cover['programs_case_mixed'] = sum(1 for p in progs if p.get('casemix') is not None)
    ctx.cover['registry_entries'] = len(reg_list)
    ctx.cover['pairs_applied'] = len([r for r in pairs if r['status'] == 'ok'])
    if not ctx.replay and stats['applied'] < 0.5 * len(singles):
        raise MachineryError(f'vacuity: only {stats["applied"]} of {len(singles)} transformation applications completed: {stats["raised"]}')
    if runs:
        r = next((r for r in singles if r['status'] == 'ok'), base[0])
        ctx.sample({'transformation': r['names'], 'scopes': r['S'][:3], 'occurrences': r['O'][:5]})
    ctx.assumptions += [
        'programs: lib_fm kernel modules (all statement kinds incl. associate, calls, function references, sections) + an internal '
        'procedure using host variables, marked inline calls, an outline region, loop pragmas, a sequence-association call; '
        'they only have to compile (behaviour is judged by C28-C39); every second program is case-mixed (random letter case per '
        'identifier occurrence) and its callee locals clash with caller variables up to letter case only',
        'transformations are applied without the Scheduler (role/targets passed by hand); HoistVariables, Parametrise, '
        'DuplicateKernel/RemoveKernel, SCC and pool-allocator pipelines need Items and are covered by C37/C38/C39',
        'a transformation that raises (documented not-applicable, NotImplementedError or any other exception) is counted '
        '(cover.raised / cover.not_applicable) and not judged: the property speaks about the IR after a transformation',
        'Resolvable: derived-type components, procedure names (external procedures / intrinsics need no declaration) and '
        'chains containing a USE without ONLY are exempt; declared names are taken from declaration / import nodes, not from symbol tables',
        'ParentLink is part of "resolves through the unit\'s own scope chain": type look-ups follow scope.parent / symbol_attrs.parent',
        'offenders already present in the untransformed IR (and, for pairs, after either member applied alone) are exempt',
    ]
