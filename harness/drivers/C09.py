"""C09 Symbolic comparisons only answer what holds for all values.

spec: FExpr (integer expression semantics) + Trace_SymCompare (a definite answer must hold on every
      sampled valuation; raising is always acceptable).
code: loki.expression.symbolic.symbolic_op on every ordered pair of a tree universe x 6 operators.
"""
import operator as _op

from .. import lib_expr as X

OPS = [('==', _op.eq), ('/=', _op.ne), ('<', _op.lt), ('<=', _op.le), ('>', _op.gt), ('>=', _op.ge)]


def universe():
    a, b, c = X.V('a'), X.V('b'), X.V('c')
    n = X.N
    S = lambda *x: {'k': 'sum', 'c': list(x)}  # noqa: E731
    P = lambda *x: {'k': 'prod', 'c': list(x)}  # noqa: E731
    Ng = lambda x: {'k': 'neg', 'c': [x]}  # noqa: E731
    Q = lambda x, y: {'k': 'quot', 'c': [x, y]}  # noqa: E731
    Pw = lambda x, y: {'k': 'pow', 'c': [x, y]}  # noqa: E731
    return [n(0), n(1), n(2), n(5), Ng(n(1)), a, b, Ng(a), S(a, n(0)), S(a, n(1)), S(a, Ng(n(1))), S(a, n(2)), S(n(1), a),
            S(a, b), S(b, a), S(a, Ng(b)), S(a, b, n(1)), P(n(2), a), P(a, n(2)), P(n(3), a), P(a, b), P(b, a), P(a, a), Pw(a, n(2)),
            P(Ng(n(1)), a), S(P(n(2), a), n(1)), S(P(n(2), a), Ng(a)), Q(a, n(2)), Q(P(n(2), a), n(2)), Q(S(a, b), n(2)),
            S(Q(a, n(2)), Q(a, n(2))), P(S(a, n(1)), S(a, Ng(n(1)))), S(Pw(a, n(2)), Ng(n(1))), S(a, c), P(n(2), S(a, b)),
            S(P(n(2), a), P(n(2), b)), Ng(S(a, b)), S(Ng(a), Ng(b)), Q(a, b), P(Q(a, b), b),
            Pw(Ng(a), n(2)), Pw(Ng(n(2)), n(2)), Pw(Ng(a), n(3)), S(Pw(Ng(a), n(2)), Pw(a, n(2)), Ng(n(1))), Pw(S(a, Ng(b)), n(2))]


def call(t1, name, fn, t2):
    from loki.expression.symbolic import symbolic_op
    e1, e2 = X.build(t1), X.build(t2)
    try:
        r = symbolic_op(e1, fn, e2)
    except Exception:  # pylint: disable=broad-except
        return 'raised'
    if r is True or r is False:
        return 'true' if r else 'false'
    return 'raised'     # a non-boolean (symbolic) result is not a definite answer


def run(ctx):
    U = universe()
    pairs = [(i, j) for i in range(len(U)) for j in range(len(U))]
    if ctx.replay:
        c = ctx.replay['case']
        pairs = []
        todo = [(c['a'], c['op'], c['b'])]
    else:
        if ctx.quick:
            ctx.rng.shuffle(pairs)
            pairs = pairs[:500]
        todo = [(U[i], name, U[j]) for i, j in pairs for name, _ in OPS]
    fnof = dict(OPS)
    cases, raised = [], 0
    for t1, name, t2 in todo:
        res = call(t1, name, fnof[name], t2)
        if res == 'raised':
            raised += 1
            if raised % 20:
                continue          # raising is always accepted; a 1-in-20 sample still goes through the spec
        cases.append({'a': t1, 'op': name, 'b': t2, 'res': res, 'typing': 'int'})
    verdicts = ctx.validate('Trace_SymCompare', 'Trace_ExprEquiv', cases, timeout=1800)
    definite = wrong = 0
    bykey = {}
    for i, c in enumerate(cases):
        ok, clause, n = verdicts[i]
        if c['res'] != 'raised':
            definite += 1
        if not ok:
            wrong += 1
            same = 'identical' if c['a'] == c['b'] else 'different'
            key = f"symbolic_op:{c['op']}:{c['res']}:{same}-operands:quot={'quot' in X.shape(c['a']) + X.shape(c['b'])}"
            bykey.setdefault(key, (c, clause))
            if len(bykey) < 4:
                ctx.sample({'a': X.show(c['a']), 'op': c['op'], 'b': X.show(c['b']), 'res': c['res'], 'clause': clause})
    # classification by the specification: is a wrong answer explained by treating '/' as exact division?
    items = sorted(bykey.items())
    if items:
        ex = ctx.validate('Trace_SymCompare', 'Trace_ExprEquiv',
                          [{'a': X.realify(c['a']), 'op': c['op'], 'b': X.realify(c['b']), 'res': c['res'], 'typing': 'real'} for _, (c, _) in items])
        ctx.val_stats.pop()
        bykey = {}
        for i, (key, (c, clause)) in enumerate(items):
            if key.endswith('quot=True'):
                key = key[:-len('quot=True')] + ('division-exactness' if ex[i][0] else 'quot-other')
            bykey[key] = (c, clause)
    for key, (c, clause) in sorted(bykey.items()):
        ctx.violation(key, f"symbolic_op({X.show(c['a'])}, {c['op']}, {X.show(c['b'])}) answered {c['res']}: {clause}",
                      {'a': c['a'], 'op': c['op'], 'b': c['b']})
    ctx.cover.update(calls=len(todo), raised=raised, definite_answers=definite, definite_wrong=wrong, universe=len(U))
    for c in cases[:3]:
        ctx.sample({'a': X.show(c['a']), 'op': c['op'], 'b': X.show(c['b']), 'res': c['res']})
    ctx.assumptions += ['integer typing only (the property speaks about integer expressions)',
                        '45 sampled valuations of (a,b,c) over {-3,-1,0,2,5} with pairwise coverage; a wrong definite answer can be missed, never invented']
