"""C35 Fortran-to-C transpilation preserves behaviour.

spec: FMachine (MiniFortran reference machine) evaluated by TLC through Trace_Transpile: for every generated
      routine of the transpilable subset and every sampled input, the values the harness-owned Fortran PROGRAM
      prints after calling `kernel_fc` (generated ISO-C wrapper -> gcc-compiled `kernel_c`) must equal
      Run(program, input).out.  Pre-flight: gfortran on the ORIGINAL routine must agree with the machine.
      Design-level: MC_Transpile checks the laws of the machine the verdicts rest on (DO trip counts and final
      DO variable, truncating division, MOD, SIGN) exhaustively over small ranges.
pools: `core` = constructs the C back end is expected to translate; each other pool adds one construct."""
from .. import lib_fm_transpile as T

CORE = ('lb', 'step', 'lvafter', 'idiv', 'mod', 'intfn', 'sign', 'ipow', 'conv', 'while', 'select', 'intcast', 'rpow')
POOLS = ('core', 'boundmod', 'fndiv', 'exitcycle', 'section', 'selneg', 'idxdiv', 'varstep')
QUICK = {'core': 26, '*': 4}
THOROUGH = {'core': 240, '*': 20}

ASSUMPTIONS = [
    'transpilable subset generated: stand-alone subroutine, integer / real(real64) / logical scalars with every intent, 1-d and 2-d explicit-shape '
    'arrays (lower bounds other than 1), DO loops (strides +-1,2,3, zero-trip, bounds from MIN), DO WHILE, IF/ELSE IF/ELSE, SELECT CASE, '
    'integer division, MOD, MIN/MAX/ABS/SIGN, INT(), ** with integer exponents (real powers also as numerators, factors and unbracketed denominators '
    'of divisions, divisors being powers of two), array sections, implicit real<->integer conversion; pool varstep: DO strides given by an integer input',
    'real values are dyadic rationals with small numerators (inputs k/2; + - *, division by 2 and 4, ABS/MIN/MAX, **2|3): float64 arithmetic of the '
    'original and of the C kernel is exact, results are compared as exact rationals; integer magnitudes stay below 30000 (no overflow)',
    'not generated (outside FMachine): derived-type arguments, module variables, calls, elemental function inlining, transcendental intrinsics, '
    'real32, optional arguments; the c_ptr wrapper variant and the cpp/cuda back ends are not exercised',
    'the PROGRAM that feeds inputs and prints results is harness-owned; the C kernel is built with gcc -O0 and linked by gfortran '
    '(loki.jit_build / f90wrap are not used)',
]


def run(ctx):
    if not ctx.replay:
        ctx.mc('MC_Transpile', 'MC_Transpile', timeout=600, coverage=False)
    T.run_property(ctx, 'f2c', T.f2c_transform, T.f2c_execute_batch, CORE, POOLS, QUICK, THOROUGH, ASSUMPTIONS)
