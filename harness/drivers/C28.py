"""C28 Inlining preserves program behaviour.

spec: FMachine (MiniFortran reference machine, TLC) + Trace_FMachine: for generated caller/callee programs
      (lib_fm_inline.GenX) the stdout of the gfortran build of the Loki-inlined modules must equal
      Run(original program, input).out; pre-flight: gfortran on the ORIGINAL text agrees with the machine.
Slices: one per entry point (inline_marked_subroutines, inline_internal_procedures, inline_functions,
      inline_elemental_functions, inline_statement_functions, inline_constant_parameters, InlineTransformation
      option sets).  `base` slices contain only constructs that Loki is expected to handle; every construct found
      to break inlining has its own slice (label suffix), so that known defect classes have stable keys and the
      base slices stay sensitive to new ones.
"""
from .. import lib_fm as F
from .. import lib_fm_inline as X

BASE = ('select', 'while', 'exitcycle', 'section')


def ap_marked(p):
    return X.has_marked(p, {'kernel'})


def ap_internal(p):
    return X.calls_to(p, lambda u: u['host'] and not u.get('stmtfunc'), {'kernel'}) > 0


def ap_intsub(p):
    return X.calls_to(p, lambda u: u.get('ck') == 'intsub', {'kernel'}) > 0


def ap_functions(p):
    return X.calls_to(p, lambda u: u.get('ck') in ('modfun', 'elemental'), {'kernel'}) > 0


def ap_elemental(p):
    return X.calls_to(p, lambda u: u.get('ck') == 'elemental', {'kernel'}) > 0


def ap_stmtfunc(p):
    return X.calls_to(p, lambda u: u.get('stmtfunc'), {'kernel'}) > 0


def ap_consts(p):
    k = p['units'][0]
    cs = {d['name'] for d in k['decls'] if d.get('param')}
    return bool(cs & X.mentions([u['body'] for u in p['units']]))


def ap_extconsts(p):
    cs = {d['name'] for d in p['units'][0]['decls'] if d.get('param') == 'cmod'}
    return bool(cs & X.mentions([u['body'] for u in p['units']]))


def ap_any(p):
    return ap_marked(p) or ap_internal(p) or ap_functions(p) or ap_stmtfunc(p) or ap_consts(p)


# label: (features, transform, applicable, weight)
SLICES = {
    'marked': (BASE + ('modsubs', 'marked', 'kwargs'), X.tf_marked(), ap_marked, 3),
    'marked-noadjust': (BASE + ('modsubs', 'marked'), X.tf_marked(adjust_imports=False), ap_marked, 1),
    'marked-lbounds': (('select', 'while', 'exitcycle', 'modsubs', 'marked', 'lbshift'), X.tf_marked(), ap_marked, 2),
    'marked-lbsections': (('section', 'modsubs', 'marked', 'lbshift'), X.tf_marked(), ap_marked, 1),
    'marked-optional': (('select', 'modsubs', 'marked', 'optional', 'kwargs'), X.tf_marked(), X.need(ap_marked, 'optional-absent|optional-present'), 2),
    'marked-return': (('modsubs', 'marked', 'return'), X.tf_marked(), X.need(ap_marked, 'return'), 1),
    'marked-print': (('modsubs', 'marked', 'calleeprint'), X.tf_marked(), X.need(ap_marked, 'callee-print'), 1),
    'marked-exprdep': (('modsubs', 'marked', 'exprdep'), X.tf_marked(), X.need(ap_marked, 'expr-actual-mentions-defined'), 1),
    'marked-identnames': (('modsubs', 'marked', 'identnames'), X.tf_marked(), X.need(ap_marked, 'actual-mentions-dummy-name'), 1),
    'marked-nestedsub': (('modsubs', 'marked', 'nestedsub'), X.tf_marked(), X.need(ap_marked, 'nested-subscript'), 1),
    'marked-nested': (('modsubs', 'marked', 'nested', 'functions', 'imported'), X.tf_marked(), X.need(ap_marked, 'nested'), 1),
    'internal': (BASE + ('internal', 'modsubs'), X.tf_internal, ap_intsub, 3),
    'internal-lbounds': (('select', 'while', 'exitcycle', 'internal', 'lbshift'), X.tf_internal, ap_intsub, 1),
    'internal-optional': (('select', 'internal', 'optional'), X.tf_internal, X.need(ap_intsub, 'optional-absent|optional-present'), 1),
    'internal-inlineif': (('internal', 'callinlineif', 'exitcycle'), X.tf_internal, X.need(ap_intsub, 'call-in-inline-if'), 1),
    'internal-nestedsub': (('internal', 'nestedsub'), X.tf_internal, X.need(ap_intsub, 'nested-subscript'), 1),
    'internal-fn': (('internal', 'internalfn'), X.tf_internal, ap_internal, 1),
    'functions': (BASE + ('functions', 'elemental'), X.tf_functions(), ap_functions, 3),
    'functions-elseif': (('functions', 'fnelseif'), X.tf_functions(), X.need(ap_functions, 'ctx=elseif'), 1),
    'functions-inlineif': (('functions', 'fninlineif', 'exitcycle'), X.tf_functions(), X.need(ap_functions, 'ctx=inline-if'), 1),
    'functions-while': (('functions', 'fnwhile', 'while'), X.tf_functions(), X.need(ap_functions, 'ctx=while'), 1),
    'functions-nestedargs': (('functions', 'elemental', 'fnnest'), X.tf_functions(), X.need(ap_functions, 'fn-in-fn-arg'), 1),
    'functions-resclash': (('functions', 'elemental', 'resclash', 'nested'), X.tf_functions(), X.need(ap_functions, 'result-clash'), 1),
    'functions-print': (('functions', 'printrefs', 'imported'), X.tf_functions(), X.need(ap_functions, 'ctx=print'), 1),
    'functions-all': (('functions',), X.tf_functions(explicit=False), ap_functions, 1),
    'elemental': (('functions', 'elemental', 'select'), X.tf_elemental, ap_elemental, 1),
    'stmtfunc': (('stmtfunc', 'consts', 'select'), X.tf_stmtfunc, ap_stmtfunc, 2),
    'stmtfunc-bare': (('stmtfunc', 'sfbare'), X.tf_stmtfunc, X.need(ap_stmtfunc, 'sf-bare'), 1),
    'stmtfunc-nested': (('stmtfunc', 'sfnest'), X.tf_stmtfunc, X.need(ap_stmtfunc, 'fn-in-fn-arg|nested'), 1),
    'stmtfunc-fn': (('stmtfunc', 'functions'), X.tf_stmtfunc, X.need(ap_stmtfunc, 'fn=modfun'), 1),
    'constants': (('consts', 'localconst', 'internal', 'select'), X.tf_constants(True), ap_extconsts, 2),
    'constants-kindfn': (('consts', 'kindfn'), X.tf_constants(True), ap_extconsts, 1),
    'constants-dep': (('consts', 'constdep'), X.tf_constants(True), X.need(ap_extconsts, 'const-dep'), 1),
    'constants-internal': (('consts', 'internal', 'constinternal'), X.tf_constants(True), X.need(ap_extconsts, 'const-internal'), 1),
    'constants-print': (('consts', 'printrefs'), X.tf_constants(True), X.need(ap_extconsts, 'const-in-print'), 1),
    'constants-all': (('consts', 'localconst', 'internal'), X.tf_constants(False), ap_consts, 1),
    # Fortran is case-insensitive: same constructs as the base slices, every identifier occurrence in random case
    'marked-casemix': (BASE + ('modsubs', 'marked', 'kwargs'), X.tf_marked(), X.need(ap_marked, 'local-clash'), 3, X.casemix_post()),
    'marked-casemix-arraydummy': (BASE + ('modsubs', 'marked'), X.tf_marked(), X.need(ap_marked, 'casemix-array-dummy'), 1, X.casemix_post(arraydummies=True)),
    'internal-casemix': (BASE + ('internal', 'modsubs'), X.tf_internal, X.need(ap_intsub, 'local-clash'), 3, X.casemix_post()),
    'functions-casemix': (BASE + ('functions', 'elemental'), X.tf_functions(), ap_functions, 2, X.casemix_post()),
    'stmtfunc-casemix': (('stmtfunc', 'consts', 'select'), X.tf_stmtfunc, ap_stmtfunc, 1, X.casemix_post()),
    'constants-casemix': (('consts', 'localconst', 'internal', 'select'), X.tf_constants(True), ap_extconsts, 1, X.casemix_post()),
    'xform-casemix': (('modsubs', 'marked', 'functions', 'elemental'), X.tf_transformation(remove_dead_code=False), ap_any, 2, X.casemix_post()),
    'xform-default': (('modsubs', 'marked', 'functions', 'elemental', 'optional'), X.tf_transformation(), ap_any, 2),
    'xform-nodce': (('modsubs', 'marked', 'functions', 'elemental'), X.tf_transformation(remove_dead_code=False), ap_any, 2),
    'xform-all': (('modsubs', 'marked', 'stmtfunc', 'consts', 'internal'),
                  X.tf_transformation(inline_constants=True, inline_stmt_funcs=True, inline_internals=True, inline_elementals=False,
                                      remove_dead_code=False), ap_any, 2),
    'xform-noimports': (('modsubs', 'marked', 'elemental', 'imported'), X.tf_transformation(adjust_imports=False, remove_dead_code=False), ap_any, 1),
}


def run(ctx):
    X.run_slices(ctx, SLICES, 80 if ctx.quick else 800, [
        'MiniFortran subset (see C01) + caller/callee structures: module subroutines (same module or imported), internal subroutines and functions with host association and local name clashes, module / elemental functions, statement functions, PARAMETER constants imported from a module or local',
        'call sites respect the Fortran aliasing rules; function callees are side-effect free; recursion excluded',
        'not generated: optional arguments / PRESENT, sequence association (resolve_sequence_association), array-section actuals, elemental references with array arguments, derived types, allowed_aliases',
        'the PROGRAM driver is harness-owned and not passed through Loki'])
