"""C42 Lint results do not depend on parallelism or completion order.

spec: LintQueue.tla (functional core En/Ap of lint_files_glob / Reporter + property predicates),
      MC_LintQueue (exhaustive: <= 4 files, every set of unparsable files, W in 1..3, all interleavings),
      Trace_LintQueue (TLC validates event logs + per-file reports + handler outputs of REAL lint_files runs).
Real code: loki.lint.lint_files -> lint_files_glob -> workqueue/ParallelQueue -> check_and_fix_file ->
           Linter.check -> Reporter.add_file_report/add_file_error -> handlers (Default, JunitXml, ViolationFile)
           with the probe rule module and probe handler of harness/lib_lintprobe.py.
"""
import concurrent.futures as cf
import json
import os
import random
import subprocess
import sys
import time

from ..core import MachineryError, SPEC


def make_job(ctx, idx, spec):
    from .. import lib_lintprobe as lp
    d = os.path.join(ctx.work, f'set{idx}')
    src = os.path.join(d, 'src')
    os.makedirs(src, exist_ok=True)
    rng = random.Random(spec['rseed'])
    files = lp.gen_fileset(rng, src, spec.get('nmin', 3), spec.get('nmax', 8))
    include = ['*.F90']
    if spec['scen'] == 'overlap':
        include = ['*.F90', 'sub/*.F90']
    job = {'dir': d, 'src': src, 'include': include, 'exclude': ['skip_*'], 'outputs': spec['outputs'],
           'scale': spec['scale'], 'out': os.path.join(d, 'result.json'),
           'runs': [{'W': w, 'seed': s, 'line_hashes': spec.get('line_hashes', False)} for (w, s) in spec['runs']]}
    return job, files


def run_job(ctx, idx, job, deadline):
    if deadline is not None and time.time() > deadline:
        return None
    job = dict(job, deadline=deadline)
    jf = os.path.join(job['dir'], 'job.json')
    with open(jf, 'w') as fh:
        json.dump(job, fh)
    errp = os.path.join(job['dir'], 'child.err')
    with open(errp, 'w') as errfh:
        try:
            p = subprocess.run([sys.executable, '-m', 'harness.lib_lintprobe', jf], cwd=job['dir'], stdout=errfh,
                               stderr=errfh, timeout=900, check=False)
        except subprocess.TimeoutExpired as e:
            raise MachineryError(f'C42 child lint process timed out for file set {idx}') from e
    if p.returncode != 0 or not os.path.exists(job['out']):
        with open(errp) as fh:
            tail = fh.read()[-2000:]
        raise MachineryError(f'C42 child lint process failed for file set {idx}:\n{tail}')
    with open(job['out']) as fh:
        results = json.load(fh)
    # the handler output files as they are after the linting process has exited
    from .. import lib_lintprobe as lp
    for r in results:
        r['final'] = {'junit': lp.read_junit(r['outs']['junit']) if 'junit' in r['outs'] else [],
                      'violations': lp.read_violations(r['outs']['violations']) if 'violations' in r['outs'] else []}
    return results


def to_tlc_case(spec, files, res, base):
    """Project one recorded lint run onto the trace vocabulary of Trace_LintQueue."""
    from .. import lib_lintprobe as lp
    selected = [f for f in files if f['kind'] in ('ok', 'fail')]     # the generator's own knowledge
    names = []
    for n in res['order']:
        if n not in names and any(f['name'] == n for f in selected):
            names.append(n)
    names += [f['name'] for f in selected if f['name'] not in names]
    byname = {f['name']: f for f in selected}
    idx = {os.path.basename(n): i + 1 for i, n in enumerate(names)}
    frecs = [{'name': n, 'fails': byname[n]['kind'] == 'fail',
              'rep': [[r[0], str(r[1]), r[2]] for r in byname[n]['rep']]} for n in names]
    coll = {}
    for ent in res['probe']:
        coll.setdefault((ent[2], ent[3]), []).append(ent)
    used = set()
    events = []
    for e in res['events']:
        w = 0 if e['pid'] == res['mainpid'] else e['pid']
        items, ncoll = [], 0
        if e['a'] == 'report':
            ents = coll.get((e['pid'], e['seq']), [])
            ncoll = len(ents)
            if ents:
                used.add((e['pid'], e['seq']))
                items = [[it[0], str(it[1]), it[2]] for it in ents[0][1]]
        events.append({'a': e['a'], 'f': idx.get(e['file'], 0), 'w': w, 'seq': e['seq'], 'items': items, 'ncoll': ncoll})
    extra = sum(len(v) for k, v in coll.items() if k not in used)

    def outs(r, which):
        o = {'probe': sorted([ent[0], sorted(json.dumps(it) for it in ent[1])] for ent in r['probe']),
             'default': r['default'], 'junit': r[which]['junit'], 'violations': r[which]['violations']}
        return o
    return {'scen': spec['scen'], 'W': res['W'], 'n': len(names), 'files': frecs, 'rules': list(lp.__all__),
            'events': events, 'extra': extra, 'count': res['count'], 'base_count': base['count'],
            'raised': bool(res['err']), 'base_raised': bool(base['err']),
            'outs': outs(res, 'final'), 'base_outs': outs(base, 'final'),
            'ret_outs': outs(res, 'at_return'), 'base_ret_outs': outs(base, 'at_return')}


def run(ctx):
    quick = ctx.quick
    pool = cf.ThreadPoolExecutor(max_workers=2)

    # 1. design-level model checking (concurrently with the real lint runs)
    def mc_all():
        acts = ('Submit', 'EndSubmit', 'Begin', 'Check', 'ParseFail', 'Report', 'End', 'Collect', 'SerialReturn', 'Output')
        with open(os.path.join(SPEC, 'MC_LintQueue.cfg')) as fh:
            text = fh.read()
        if quick:
            # <= 4 files with one handler: safety; <= 3 files with two handlers: safety + liveness
            # (thorough: <= 4 files, two handlers, safety + liveness)
            variants = [text.replace('NH = 2', 'NH = 1').replace('PROPERTY EventuallyDone\n', ''), text.replace('MaxN = 4', 'MaxN = 3')]
        else:
            variants = [text]

        def one(iv):
            cfg = os.path.join(ctx.work, f'MC_LintQueue_run{iv[0]}.cfg')
            with open(cfg, 'w') as fh:
                fh.write(iv[1])
            ctx.mc('MC_LintQueue', cfg, timeout=3000, workers=6, required_actions=acts)
        with cf.ThreadPoolExecutor(max_workers=2) as mex:
            list(mex.map(one, enumerate(variants)))
    # development only (mutation testing of the conformance part): VERIF_DEV_SKIP_MC=1 skips the spec-level run
    mc_future = pool.submit((lambda: None) if os.environ.get('VERIF_DEV_SKIP_MC') else mc_all)

    # 2. cases: seeded file sets with planted violations and unparsable files
    if ctx.replay:
        specs = [ctx.replay['case']]
    else:
        specs = []
        nsets = 14 if quick else 150
        for i in range(nsets):
            rs = ctx.seed * 100003 + i
            rng = random.Random(rs)
            scen = 'overlap' if i % 7 == 3 else 'plain'
            outputs = (['junit', 'violations'], ['violations'], ['junit'], ['junit', 'violations'], [])[i % 5]
            ws = rng.sample(range(2, 9), 2 if quick else 4)
            if i % 4 == 0:
                ws[0] = 2
            specs.append({'scen': scen, 'rseed': rs, 'outputs': outputs, 'line_hashes': i % 3 == 0,
                          'scale': rng.choice([0.004, 0.01, 0.02]), 'nmin': 3, 'nmax': 7 if quick else 10,
                          'runs': [(1, rs)] + [(w, rs + 13 * w) for w in ws]})

    # 3. drive the real linter
    jobs = [make_job(ctx, i, sp) for i, sp in enumerate(specs)]
    deadline = None if ctx.replay else ctx.t0 + (75 if quick else 900)
    with cf.ThreadPoolExecutor(max_workers=6) as ex:
        # the first file sets (all scenarios / output configurations) are linted whatever it costs, the rest
        # only while the tier's budget lasts (a loaded machine then checks fewer cases)
        nmin = 7 if quick else 30
        outs = list(ex.map(lambda a: run_job(ctx, a[0], a[1][0], deadline if a[0] >= nmin else None), enumerate(jobs)))
    ctx.cover['file_sets_not_linted_for_budget'] = sum(o is None for o in outs)

    # 4. project + validate
    cases, meta = [], []
    per = {}
    nfail_files = nviol = reorder = 0
    for spec, (job, files), results in zip(specs, jobs, outs):
        if not results:
            continue
        base = results[0]
        if base['W'] != 1:
            raise MachineryError('first run of a file set must be the serial baseline')
        for res in results:
            c = to_tlc_case(spec, files, res, base)
            cases.append(c)
            meta.append((spec, res))
            k = (spec['scen'], 'W=1' if res['W'] == 1 else 'W>1')
            per[k] = per.get(k, 0) + 1
            nfail_files += sum(f['fails'] for f in c['files'])
            nviol += sum(len(f['rep']) for f in c['files'])
            rep_order = [e['f'] for e in c['events'] if e['a'] == 'report']
            reorder += res['W'] > 1 and rep_order != sorted(rep_order)
    verdicts = ctx.validate('Trace_LintQueue', 'Trace_LintQueue', cases, timeout=900, per_shard_min=8)
    machinery = []
    for i, (spec, res) in enumerate(meta):
        ok, clause, pos = verdicts[i]
        if ok:
            continue
        payload = dict(spec, runs=[(1, spec['runs'][0][1])] + ([(res['W'], res['seed'])] if res['W'] != 1 else []))
        if clause.startswith('M-') or (res['W'] == 1 and clause.startswith('P-ReportIsFunctionOfFile')):
            # serial run disagrees with the planted report: generator/probe-rule problem, not a statement about parallelism
            machinery.append((clause, pos, payload, cases[i]['events'][max(0, pos - 3):pos]))
            continue
        par = 'serial' if res['W'] == 1 else 'parallel'
        ctx.violation(f"{spec['scen']}:{par}:{clause}",
                      f"lint run rejected at event {pos} by clause {clause}: scenario={spec['scen']} max_workers={res['W']} "
                      f"files={[f['name'] for f in cases[i]['files']]} outputs={spec['outputs']} count={res['count']} err={res['err'][:120]!r}",
                      payload)
    mc_future.result()
    pool.shutdown()
    ctx.cover['model_mismatches'] = len(machinery)
    if machinery and not ctx.violations:
        raise MachineryError(f'{len(machinery)} real lint runs are not behaviours of the LintQueue model or the serial '
                             f'baseline disagrees with the planted reports; first: {machinery[0]}')
    if machinery:
        print(f'WARNING: {len(machinery)} recorded runs are not behaviours of the model (M clauses), first: {machinery[0][:2]}', file=sys.stderr)

    ctx.cover['lint_runs_per_scenario'] = {f'{a}:{b}': n for (a, b), n in sorted(per.items())}
    ctx.cover['events_validated'] = sum(len(c['events']) for c in cases)
    ctx.cover['unparsable_files_linted'] = nfail_files
    ctx.cover['planted_violations_checked'] = nviol
    ctx.cover['parallel_runs_with_reordered_reports'] = reorder
    if not ctx.replay and reorder < 3:
        raise MachineryError('vacuity: (almost) no parallel run reported files out of submission order')
    if cases:
        ctx.sample({'W': cases[0]['W'], 'files': cases[0]['files'][:3], 'events': cases[0]['events'][:6]})
        big = max(range(len(cases)), key=lambda i: (cases[i]['W'] > 1, len(cases[i]['events'])))
        ctx.sample({'W': cases[big]['W'], 'events': [{k: e[k] for k in ('a', 'f', 'w', 'seq')} for e in cases[big]['events'][:14]]})
    ctx.assumptions += [
        'real schedules are sampled (seed-derived delays in the probe rules/handler, max_workers in 1..8); only the model is explored exhaustively',
        'glob-based discovery path of lint_files (lint_files_glob); the scheduler-based path has no parallel mode',
        'fix mode is not exercised (files are only checked)',
        'per-file outputs are compared as sorted per-file item lists; JUnit time/elapsed attributes are timings and excluded',
        'the expected report Rep(f) of a parsable file is what the generator planted; a serial run that disagrees is a machinery error',
        'unparsable files: the report must be a single non-rule problem without location; its message is compared across runs only',
        'each file set is linted in a fresh python process (fork start method); at-return outputs are read inside that process, final outputs after it exited',
    ]


def selftest(ctx):
    """Sensitivity of Trace_LintQueue (no Loki involved): a hand-written good run is accepted, every
    corruption of a recorded field is rejected by the expected clause."""
    import copy
    rep = [['M1AssignRule', '4', 'assignment to viol_0']]
    err = [['FortranSyntaxError', '0', 'at line 1']]

    def ev(a, f, w, seq, items=(), ncoll=0):
        return {'a': a, 'f': f, 'w': w, 'seq': seq, 'items': [list(i) for i in items], 'ncoll': ncoll}
    outs = {'probe': [['a.F90', ['x']], ['b.F90', ['y']]], 'default': ['m1', 'm2'], 'junit': [['a.F90', ['t']]],
            'violations': [['a.F90', ['M1AssignRule']]]}
    good = {'scen': 'plain', 'W': 2, 'n': 2,
            'files': [{'name': 'a.F90', 'fails': False, 'rep': rep}, {'name': 'b.F90', 'fails': True, 'rep': []}],
            'rules': ['A0BeginRule', 'M1AssignRule', 'M2RoutineRule', 'Z9EndRule'],
            'events': [ev('begin', 1, 11, 1), ev('report', 2, 12, 1, err, 1), ev('end', 1, 11, 2),
                       ev('report', 1, 11, 3, rep, 1), ev('collect', 0, 0, 1)],
            'extra': 0, 'count': 1, 'base_count': 1, 'raised': False, 'base_raised': False,
            'outs': outs, 'base_outs': copy.deepcopy(outs), 'ret_outs': outs, 'base_ret_outs': copy.deepcopy(outs)}
    cases, expect = [good], ['ok']

    def add(clause, fn):
        c = copy.deepcopy(good)
        fn(c)
        cases.append(c)
        expect.append(clause)
    add('P-ReportIsFunctionOfFile:wrong-violations', lambda c: c['events'][3]['items'][0].__setitem__(1, '5'))
    add('P-ReportIsFunctionOfFile:wrong-violations', lambda c: c['events'][3].update(items=[]))
    add('P-ReportIsFunctionOfFile:parse-failure', lambda c: c['events'][1].update(items=[]))
    add('P-CollectedEqualsReported:lost-report', lambda c: c['events'][3].update(ncoll=0))
    add('P-CollectedEqualsReported:extra-entry', lambda c: c.update(extra=1))
    add('P-EachFileOnce:second-report', lambda c: c['events'].insert(4, ev('report', 2, 12, 2, err, 1)))
    add('P-EachFileOnce:second-begin', lambda c: c['events'].insert(4, ev('begin', 1, 12, 2)))
    add('P-EachFileOnce:file-not-checked', lambda c: c['events'].pop(1))
    add('P-EachFileOnce:unselected-file-checked', lambda c: c['events'].insert(4, ev('begin', 0, 12, 2)))
    add('P-OutputsSameAsSerial:junit:final', lambda c: c['outs'].update(junit=[]))
    add('P-OutputsSameAsSerial:probe:final', lambda c: c['outs'].update(probe=[['a.F90', ['x']]]))
    add('P-OutputsSameAsSerial:checked-count', lambda c: c.update(count=2))
    add('P-OutputsSameAsSerial:violations:at-return', lambda c: c.update(ret_outs=dict(c['ret_outs'], violations=[])))
    add('M-seq-not-monotone', lambda c: c['events'][3].update(seq=1))
    add('M-report-before-end', lambda c: c['events'].insert(2, c['events'].pop(3)))
    add('M-wrong-process', lambda c: c['events'][0].update(w=0))
    verdicts = ctx.validate('Trace_LintQueue', 'Trace_LintQueue', cases, timeout=300)
    bad = 0
    for i, exp in enumerate(expect):
        ok, clause, _ = verdicts[i]
        got = 'ok' if ok else clause
        flag = 'ok ' if got == exp else 'BAD'
        bad += got != exp
        print(f'selftest C42 {flag} case {i}: expected {exp}, TLC said {got}')
    return 1 if bad else 0
