"""C16 Analysis attach/detach leaves the IR unchanged.

spec: AttachDetach.tla (abstract IR with pragma nodes; canonical form Flat; facets attached by direct calls and
      context managers incl. exceptions; NothingLost, BalancedRestores), MC_AttachDetach (all small abstract IRs x
      all short operation sequences, reference semantics of the attach/detach algorithms + 3 design mutants),
      Gen_AttachDetach (TLC generates the operation sequences), Trace_AttachDetach (operation sequences executed on
      REAL generated routines; TLC validates the exported IR after every operation).
Real code: loki.ir.pragma_utils (attach_pragmas, detach_pragmas, pragmas_attached, attach_pragma_regions,
      detach_pragma_regions, pragma_regions_attached), loki.analyse (attach_dataflow_analysis,
      detach_dataflow_analysis, dataflow_analysis_attached).
"""
import concurrent.futures as cf
import hashlib
import json
import os
import random

from ..core import MachineryError, NCPU

MUTS = {'MutDetachForgetsPost': 'BalancedRestores', 'MutUnregDropsEnd': 'NothingLost', 'MutDfaSkipsAttached': 'DataflowFullyDetached'}


def _write(path, text):
    with open(path, 'w') as fh:
        fh.write(text)
    return path


def _consts(mut=None, **kw):
    lines = [f'CONSTANT {m} = {"TRUE" if m == mut else "FALSE"}' for m in MUTS]
    lines += [f'CONSTANT {k} = {v}' for k, v in kw.items()]
    return '\n'.join(lines) + '\n'


# ------------------------------------------------------------------------------------------------
# generated routines

MARKS = ['data', 'region', 'kernel', 'xyz']


def _block(rng, depth, ind, open_marks):
    """A list of source lines: statements, pragmas in all positions, (mis)matched region pairs."""
    lines = []
    n = rng.randint(2, 5) if depth else rng.randint(4, 8)
    for _ in range(n):
        r = rng.random()
        if r < 0.16:
            lines.append(f'{ind}x = x + {rng.randint(1, 9)}')
        elif r < 0.30:
            lines.append(ind + rng.choice(['!$loki foo', '!$omp parallel do', '!$acc loop gang', '!$loki bar baz(2)', '!$loki foo']))
        elif r < 0.40:   # well-formed region around a sub-block (maybe with the same marker nested)
            m = rng.choice(MARKS)
            lines.append(f'{ind}!$loki {m}')
            if rng.random() < 0.4:   # the region starts with a pragma that belongs to the following call / loop
                lines.append(ind + rng.choice(['!$acc kernels', '!$omp parallel do', '!$loki foo']))
                lines += [f'{ind}call ext(x, y)'] if rng.random() < 0.5 else [f'{ind}do i = 1, n', f'{ind}  x = x + i', f'{ind}end do']
            lines += _block(rng, depth + 1, ind, open_marks + [m]) if depth < 2 else [f'{ind}y = x']
            lines.append(f'{ind}!$loki end {m}')
        elif r < 0.46:   # unmatched start or end
            m = rng.choice(MARKS)
            lines.append(f'{ind}!$loki end {m}' if rng.random() < 0.5 else f'{ind}!$loki {m}')
        elif r < 0.64 and depth < 2:
            if rng.random() < 0.3:
                lines.append(ind + rng.choice(['!$loki foo', '!$omp parallel do', '!$loki data']))
            if rng.random() < 0.75:
                lines.append(f'{ind}do i = 1, n')
            else:
                lines.append(f'{ind}do while (x < {rng.randint(3, 30)})')
            body = _block(rng, depth + 1, ind + '  ', open_marks)
            if open_marks and rng.random() < 0.3:   # level-crossing: end of an enclosing region inside the loop body
                body.insert(rng.randint(0, len(body)), f'{ind}  !$loki end {rng.choice(open_marks)}')
            lines += body
            lines.append(f'{ind}end do')
            if rng.random() < 0.3:
                lines.append(ind + rng.choice(['!$loki foo', '!$omp end parallel do', '!$loki end data']))
        elif r < 0.74 and depth < 2:
            lines.append(f'{ind}if (x > {rng.randint(0, 9)}) then')
            lines += _block(rng, depth + 1, ind + '  ', open_marks)
            if rng.random() < 0.5:
                lines.append(f'{ind}else')
                lines += _block(rng, depth + 1, ind + '  ', open_marks)
            lines.append(f'{ind}end if')
        elif r < 0.88:
            if rng.random() < 0.4:
                lines.append(ind + rng.choice(['!$loki inline', '!$loki foo', '!$acc data']))
            lines.append(f'{ind}call ext(x, y)')
            if rng.random() < 0.2:
                lines.append(f'{ind}!$loki after_call')
        elif r < 0.94:
            lines.append(f'{ind}! just a comment')
        else:
            lines.append(f'{ind}y = y*2.0 + real(x)')
    return lines


def gen_routine(rng):
    decls = []
    for name, typ in (('n', 'integer, intent(in)'), ('x', 'integer, intent(inout)'), ('y', 'real, intent(inout)')):
        if rng.random() < 0.3:
            decls.append('  ' + rng.choice(['!$loki foo', '!$loki decl_note', '!$acc declare']))
        decls.append(f'  {typ} :: {name}')
    if rng.random() < 0.5:
        decls.append('  !$loki end decl_note' if rng.random() < 0.3 else '  !$loki local')
    decls.append('  integer :: i')
    if rng.random() < 0.3:
        decls.append('  !$loki trailing_spec_pragma')
    body = _block(rng, 0, '  ', [])
    if rng.random() < 0.2:
        body.append('  !$loki trailing')
    return '\n'.join(['subroutine gen(n, x, y)', '  implicit none'] + decls + body + ['end subroutine gen']) + '\n'


# ------------------------------------------------------------------------------------------------
# independent structural export of the real IR

BODY_FIELDS = ('body', 'else_body', 'bodies', 'default')


class Exporter:
    """Own recursion over the node fields; node identity = python object identity (objects are kept alive)."""

    def __init__(self):
        self.ids = {}
        self.keep = []

    def nid(self, o):
        k = id(o)
        if k not in self.ids:
            self.ids[k] = len(self.ids) + 1
            self.keep.append(o)
        return self.ids[k]

    def kind(self, o):
        n = type(o).__name__
        return {'Pragma': 'pragma', 'Loop': 'loop', 'WhileLoop': 'while', 'CallStatement': 'call',
                'VariableDeclaration': 'decl', 'ProcedureDeclaration': 'pdecl', 'PragmaRegion': 'region',
                'Conditional': 'cond', 'Assignment': 'stmt', 'Comment': 'comment', 'Section': 'section'}.get(n, n.lower())

    def kw(self, o):
        if type(o).__name__ != 'Pragma':
            return ''
        words = (o.content or '').lower().split()
        if 'end' in words:
            i = words.index('end')
            return 'e:' + (words[i + 1] if i + 1 < len(words) else '')
        return 's:' + (words[0] if words else '') if o.keyword.lower() == 'loki' and words else 'p'

    def seq(self, items):
        from loki.ir import Node
        out = []
        for it in items:
            if isinstance(it, Node):
                out.append(self.node(it))
            elif isinstance(it, (tuple, list)):
                out += self.seq(it)
        return out

    def node(self, o):
        from loki.ir import Node
        d = o.__dict__
        me = self.nid(o)
        pre = d.get('pragma')
        post = d.get('pragma_post')
        pre = [pre] if isinstance(pre, Node) else list(pre or ())
        post = [post] if isinstance(post, Node) else list(post or ())
        fields = [f for f in BODY_FIELDS if f in d and isinstance(d[f], (tuple, list))]
        if fields == ['body']:
            body = self.seq(d['body'])
        else:
            body = []
            k = 0
            for f in fields:
                subs = d[f] if f == 'bodies' else [d[f]]
                for j, sub in enumerate(subs):
                    k += 1
                    body.append({'id': -(me * 100 + k), 'kind': 'field', 'kw': f'{f}{j}', 'pre': [], 'post': [],
                                 'body': self.seq(sub if isinstance(sub, (tuple, list)) else [sub]), 'dfa': False})
        dfa = any(d.get(a) is not None for a in ('_live_symbols', '_defines_symbols', '_uses_symbols'))
        return {'id': me, 'kind': self.kind(o), 'kw': self.kw(o), 'pre': [self.node(p) for p in pre],
                'post': [self.node(p) for p in post], 'body': body, 'dfa': dfa}

    def routine(self, r):
        return [self.node(r.spec), self.node(r.body)]


def text_hash(r):
    from loki import fgen
    return hashlib.sha1(fgen(r).encode()).hexdigest()[:12]


# ------------------------------------------------------------------------------------------------
# executing an operation sequence with real `with` statements

class _Unwind(Exception):
    def __init__(self, n, idx):
        super().__init__('exception raised in the body of a context')
        self.n = n
        self.idx = idx


def _classes(types):
    from loki import ir
    m = {'loop': (ir.Loop,), 'call': (ir.CallStatement,), 'decl': (ir.VariableDeclaration,), 'while': (ir.WhileLoop,)}
    out = ()
    for t in types:
        out += m[t]
    return out


def _cm(routine, e):
    from loki.ir import pragmas_attached, pragma_regions_attached
    from loki.analyse import dataflow_analysis_attached
    if e['what'] == 'pragmas':
        return pragmas_attached(routine, _classes(e['types']), attach_pragma_post=e['post'])
    if e['what'] == 'regions':
        return pragma_regions_attached(routine)
    return dataflow_analysis_attached(routine)


def _direct(routine, e):
    from loki.ir import attach_pragmas, detach_pragmas, attach_pragma_regions, detach_pragma_regions
    from loki.analyse import attach_dataflow_analysis, detach_dataflow_analysis
    att = e['op'] == 'attach'
    if e['what'] == 'pragmas':
        cls = _classes(e['types'])
        for sec in ('spec', 'body'):
            if att:
                setattr(routine, sec, attach_pragmas(getattr(routine, sec), cls, attach_pragma_post=e['post']))
            else:
                setattr(routine, sec, detach_pragmas(getattr(routine, sec), cls, detach_pragma_post=e['post']))
    elif e['what'] == 'regions':
        for sec in ('spec', 'body'):
            setattr(routine, sec, (attach_pragma_regions if att else detach_pragma_regions)(getattr(routine, sec)))
    else:
        (attach_dataflow_analysis if att else detach_dataflow_analysis)(routine)


def execute(src, ops):
    """Run the operation sequence on a freshly parsed routine; returns the case for Trace_AttachDetach."""
    from loki import Subroutine
    routine = Subroutine.from_source(src)
    ex = Exporter()
    case = {'before': ex.routine(routine), 'text0': text_hash(routine)}
    steps = [None] * len(ops)

    def record(i):
        e = dict(ops[i])
        e['obs'] = ex.routine(routine)
        e['text'] = text_hash(routine)
        steps[i] = e

    def run(i):
        while i < len(ops):
            e = ops[i]
            if e['op'] == 'enter':
                try:
                    with _cm(routine, e):
                        record(i)
                        i = run(i + 1)
                    if i >= len(ops) or ops[i]['op'] != 'exit':
                        raise MachineryError('operation sequence is not well nested')
                    record(i)
                    i += 1
                except _Unwind as u:
                    u.n -= 1
                    if u.n > 0:
                        raise
                    record(u.idx)
                    i = u.idx + 1
            elif e['op'] == 'exit':
                return i
            elif e['op'] == 'raise':
                raise _Unwind(e['n'], i)
            else:
                _direct(routine, e)
                record(i)
                i += 1
        return i

    run(0)
    if any(s is None for s in steps):
        raise MachineryError('operation sequence was not executed completely')
    case['steps'] = steps
    return case


def concretise(ops, rng):
    """The generator fixes the shape of a sequence; node classes / post flag of nested pragma contexts are drawn here."""
    out = []
    for e in ops:
        e = dict(e)
        if e['what'] == 'pragmas' and sorted(e['types']) == ['call', 'decl', 'loop'] and rng.random() < 0.7:
            e['types'] = rng.choice([['loop'], ['call'], ['decl'], ['loop', 'while'], ['loop', 'call'], ['loop', 'call', 'decl', 'while']])
            e['post'] = rng.random() < 0.7
        out.append(e)
    # a direct detach / context exit must use the classes of its attach: pair them up for direct calls
    return out


def balance(ops):
    """Append the direct detach calls that make a sequence of direct calls Balanced again."""
    tail = [{'op': 'detach', 'what': 'regions', 'types': [], 'post': False, 'n': 0},
            {'op': 'detach', 'what': 'pragmas', 'types': ['loop', 'call', 'decl'], 'post': True, 'n': 0}]
    return list(ops) + tail


def _exec_chunk(chunk):
    res = []
    for src, ops in chunk:
        try:
            res.append(execute(src, ops))
        except MachineryError:
            raise
        except Exception as ex:  # pylint: disable=broad-except
            import traceback
            res.append({'error': f'{type(ex).__name__}: {ex}', 'tb': traceback.format_exc(), 'src': src, 'ops': ops})
    return res


def gen_ops(ctx, mode, depth, num=None, seed=0):
    cfg = _write(os.path.join(ctx.work, f'Gen_AttachDetach_{mode}.cfg'),
                 'SPECIFICATION GSpec\n' + _consts(MaxDepth=99, MaxStack=3, InitTrees='{}', GenDepth=depth, Mode=f'"{mode}"') +
                 'CHECK_DEADLOCK FALSE\n')
    if mode == 'walk':
        r = ctx.tlc('Gen_AttachDetach', cfg, simulate=f'num={num}', depth=depth + 20, seed=seed, timeout=600)
    else:
        r = ctx.tlc('Gen_AttachDetach', cfg, timeout=600)
    out = [json.loads(v[1]) for v in r.prints('OPS')]
    if not out:
        raise MachineryError(f'Gen_AttachDetach({mode}) produced nothing\n{r.tail()}')
    return out


def shrink_key(clause, case, pos):
    """Normal form: failing clause + the operation after which it failed (node classes and history abstracted;
    for exit/raise the kinds of the contexts that were closed)."""
    stack = []
    what = ''
    for e in case['steps'][:pos]:
        if e['op'] == 'enter':
            stack.append(e['what'])
            what = e['what']
        elif e['op'] == 'exit':
            what = stack.pop() if stack else '?'
        elif e['op'] == 'raise':
            closed = [stack.pop() for _ in range(min(e['n'], len(stack)))]
            what = '+'.join(sorted(set(closed)))
        else:
            what = e['what']
    return f"{clause}:{case['steps'][pos - 1]['op']}-{what}"


def run(ctx):
    quick = ctx.quick
    import loki  # noqa: F401  pylint: disable=unused-import,import-outside-toplevel
    workers = min(NCPU, 6 if quick else 14)
    pool = None if ctx.replay else cf.ProcessPoolExecutor(max_workers=workers)
    if pool is not None:
        list(pool.map(int, range(workers * 2)))    # fork the workers before any TLC thread exists
    try:
        with cf.ThreadPoolExecutor(max_workers=8) as tp:
            def main_mc():
                cfg = _write(os.path.join(ctx.work, 'MC_AttachDetach_run.cfg'),
                             'SPECIFICATION Spec\n' + _consts(MaxDepth=4 if quick else 5, MaxStack=2 if quick else 3,
                                                              TreeLen=2, InitTrees='MCInitTrees').replace('InitTrees = MCInitTrees', 'InitTrees <- MCInitTrees') +
                             'INVARIANT InitIsFlat\nINVARIANT NothingLost\nINVARIANT BalancedRestores\nINVARIANT DataflowFullyDetached\n'
                             'CHECK_DEADLOCK FALSE\n')
                return ctx.mc('MC_AttachDetach', cfg, timeout=2400, workers=4 if quick else NCPU)

            def mutant(m):
                mcfg = _write(os.path.join(ctx.work, f'MC_AttachDetach_{m}.cfg'),
                              'SPECIFICATION Spec\n' + _consts(mut=m, MaxDepth=4, MaxStack=2, TreeLen=2, InitTrees='MCInitTrees')
                              .replace('InitTrees = MCInitTrees', 'InitTrees <- MCInitTrees') +
                              f'INVARIANT {MUTS[m]}\nCHECK_DEADLOCK FALSE\n')
                r = ctx.tlc('MC_AttachDetach', mcfg, timeout=900, workers=2)
                if r.invariant_violated != MUTS[m]:
                    raise MachineryError(f'design mutant {m} was not rejected by {MUTS[m]} (got {r.invariant_violated})\n{r.tail(20)}')
            futs = [tp.submit(main_mc)] + [tp.submit(mutant, m) for m in (list(MUTS)[:1] if quick else MUTS)]
            rng = random.Random(ctx.seed * 104729 + 16)
            if ctx.replay:
                c = ctx.replay['case']
                tasks = [(c['src'], c['ops'])]
            else:
                f_nest = tp.submit(gen_ops, ctx, 'nest', 8)
                f_walk = tp.submit(gen_ops, ctx, 'walk', 8, 150 if quick else 3000, ctx.seed + 11)
                f_direct = tp.submit(gen_ops, ctx, 'direct', 4)
                nest, walk, direct = f_nest.result(), f_walk.result(), [balance(o) for o in f_direct.result()]
                ctx.cover['op_sequences_nested_exhaustive'] = len(nest)
                ctx.cover['op_sequences_random_walk'] = len(walk)
                ctx.cover['op_sequences_direct_calls_exhaustive_len<=4'] = len(direct)
                nrout = 12 if quick else 150
                routines = [gen_routine(rng) for _ in range(nrout)]
                tasks = []
                for ri, src in enumerate(routines):
                    # every well-nested combination on the first routines, a seeded share on the others
                    picks = nest if ri < (2 if quick else 20) else rng.sample(nest, 25 if quick else 40)
                    tasks += [(src, concretise(o, rng)) for o in picks]
                for i, o in enumerate(walk):
                    tasks.append((routines[i % nrout] if i % 3 else gen_routine(rng), o))
                # direct attach/detach calls in every order (incl. crossing): all of them on some routines
                for ri in range(1 if quick else 12):
                    src = routines[-1 - ri]
                    tasks += [(src, o) for o in (rng.sample(direct, 170) if quick else direct)]
                ctx.cover['routines'] = nrout
            # execute on real routines while the model-checking runs are going
            if pool is None or len(tasks) < 20:
                cases = _exec_chunk(tasks)
            else:
                n = workers * 4
                chunks = [tasks[i::n] for i in range(n)]
                cases = [None] * len(tasks)
                for ci, res in enumerate(pool.map(_exec_chunk, chunks)):
                    for j, r in enumerate(res):
                        cases[ci + j * n] = r
            for f in futs:
                f.result()
            ctx.cover['design_mutants_rejected'] = len(futs) - 1
    finally:
        if pool is not None:
            pool.shutdown(wait=True, cancel_futures=True)
    for c in cases:
        if 'error' in c:
            # an exception out of attach/detach itself is a failure of the operation under test
            ctx.violation('Exception:' + c['error'].split(':')[0], f"attach/detach raised {c['error']}\n{c['tb'][-600:]}",
                          {'src': c['src'], 'ops': c['ops']})
    good = [i for i, c in enumerate(cases) if 'error' not in c]
    verdicts = ctx.validate('Trace_AttachDetach', 'Trace_AttachDetach', [cases[i] for i in good], timeout=1800,
                            shards=max(1, min(4 if quick else 14, len(good) // 80)))
    nobs = nres = 0
    combos = set()
    for j, i in enumerate(good):
        c = cases[i]
        ok, clause, pos = verdicts[j]
        nobs += len(c['steps'])
        combos.add(tuple((e['op'], e['what']) for e in c['steps']))
        if ok:
            nres += clause == 'info:dataflow-residue'
            continue
        if clause.startswith('Fixture') or clause.startswith('Machinery'):
            raise MachineryError(f'{clause} at step {pos}\n{tasks[i][0]}\n{tasks[i][1]}')
        e = c['steps'][pos - 1]
        ctx.violation(shrink_key(clause, c, pos),
                      f"clause {clause} violated after step {pos} ({e['op']} {e['what']} {e['types']} post={e['post']} n={e['n']}); "
                      f"ops so far: {[(s['op'], s['what'], s['types'], s['post'], s['n']) for s in c['steps'][:pos]]}",
                      {'src': tasks[i][0], 'ops': tasks[i][1]})
    ctx.cover['cases'] = len(cases)
    ctx.cover['info_cases_with_dataflow_residue_on_pragma_nodes'] = nres
    ctx.cover['observations_validated'] = nobs
    ctx.cover['distinct_operation_shapes'] = len(combos)
    ctx.sample({'routine': tasks[0][0], 'ops': [(e['op'], e['what'], e['types'], e['post'], e['n']) for e in tasks[0][1]]})
    ctx.sample({'ops': [(e['op'], e['what'], e['types'], e['post'], e['n']) for e in tasks[-1][1]]})
    ctx.assumptions += [
        'routines: generated subroutines with pragmas before/after loops, while loops, declarations, calls, conditionals, '
        'comments; nested (also same-marker), unmatched and level-crossing `!$loki <m>` / `!$loki end <m>` pairs',
        'operation sequences come from TLC (AttachDetach state machine): all well-nested stacks of <= 3 of the three context '
        'managers closed normally or by an exception caught at any level, plus random walks with direct attach/detach calls',
        'Balanced = every attached facet (node class x pragma/pragma_post, regions, dataflow) has been detached again; only then '
        'identity/shape/text equality is demanded; at every other moment only Flat(observed) = original',
        'dataflow sets left on nodes are not part of C16 (structure, identities, text): counted as information, not a violation',
        'the export is an own recursion over node fields (body, else_body, bodies, default, pragma, pragma_post), ids = python identity',
    ]


def selftest(ctx):
    """Binding check of the trace validation: an honest case is accepted, corrupted recordings are rejected."""
    import copy
    src = gen_routine(random.Random(5))
    ops = [{'op': 'enter', 'what': 'pragmas', 'types': ['loop', 'call', 'decl'], 'post': True, 'n': 0},
           {'op': 'exit', 'what': '', 'types': [], 'post': False, 'n': 1}]
    good = execute(src, ops)
    bad1 = copy.deepcopy(good)
    bad1['steps'][1]['obs'][1]['body'][0]['id'] = 9999          # a node was rebuilt
    bad2 = copy.deepcopy(good)
    bad2['steps'][0]['obs'][1]['body'].pop()                    # a node got lost while attached
    bad3 = copy.deepcopy(good)
    bad3['steps'][1]['text'] = 'deadbeef0000'
    v = ctx.validate('Trace_AttachDetach', 'Trace_AttachDetach', [good, bad1, bad2, bad3])
    want = [(True, 'ok'), (False, 'NothingLost:ids'), (False, 'NothingLost:shape'), (False, 'BalancedRestores:text')]
    got = [(v[i][0], v[i][1]) for i in range(4)]
    print('selftest C16', 'PASS' if got == want else f'FAIL {got}')
    return 0 if got == want else 2
