"""C14 The tree transformer applies exactly the requested node mapping.

spec: TreeRewrite.tla (Apply for Transformer / NestedTransformer / MaskedTransformer /
      NestedMaskedTransformer, Legal = soundness preconditions, Verdict = acceptance clauses),
      TreeRewriteCases.tla (small universe), MC_TreeRewrite (properties of the contract on the whole
      universe), Gen_TreeRewrite (TLC enumerates the universe -> ndjson -> replayed into the real
      classes, spec -> code), Trace_TreeRewrite (observed result / original / rebuilt record judged by
      TLC, code -> spec).
Real objects: loki.ir.{Comment, Assignment, Loop, Section, Associate, Conditional, MultiConditional}
      and the four classes of loki/ir/transformer.py with inplace / rebuild_scopes on and off.
The python side only builds, drives and exports (harness/lib_irtree.py); it contains no oracle.
"""
import json
import os
import signal

from ..core import MachineryError
from .. import lib_irtree as T

CLS = {'T': 'Transformer', 'N': 'NestedTransformer', 'M': 'MaskedTransformer', 'NM': 'NestedMaskedTransformer'}


class _Timeout(Exception):
    pass


def _alarm(signum, frame):
    raise _Timeout()


# --------------------------------------------------------------------------------------------
# driving the real classes

def run_case(base, cls, inplace, rs, entry='node', share=False, foreign_keys=False):
    """Realise one abstract case, run the real transformer, export. Returns the Trace case dict."""
    from loki import ir as lir
    import loki.ir as irmod
    bld = T.Builder()
    root_abs = base['tree'][0]
    sharing = {} if share else None
    root = bld.build(root_abs, sharing)
    table, keep = T.object_table(root)
    # objects by term for keys / masks: the tree's own first occurrence, or an equal foreign object
    byterm = {}

    def collect(o, a):
        byterm.setdefault(T.term_key(T.strip(a)), o)
        t = type(o)
        if t in (lir.Loop, lir.Section, lir.Associate):
            bodies = [o.body]
        elif t is lir.Conditional:
            bodies = [o.body, o.else_body]
        elif t is lir.MultiConditional:
            bodies = list(o.bodies) + [o.else_body]
        else:
            bodies = []
        for body, slot in zip(bodies, a['b']):
            for co, ca in zip(body, slot):
                collect(co, ca)
    collect(root, root_abs)

    def obj_of(term):
        if foreign_keys:
            return bld.build(term)          # equal by value, not the tree's object
        return byterm[T.term_key(term)]

    mapper = {}
    for e in base['map']:
        kobjs = [obj_of(k) for k in e['key']]
        key = kobjs[0] if len(kobjs) == 1 else tuple(kobjs)
        if e['typ'] == 'none':
            mapper[key] = None
            continue
        vals = []
        for v in e['val']:
            sv = T.strip(v)
            if len(e['key']) == 1 and sv == e['key'][0]:
                vals.append(kobjs[0])                                   # the key itself
            elif (len(e['key']) == 1 and e['typ'] == 'node' and sv['k'] == e['key'][0]['k'] and sv['b'] == e['key'][0]['b']
                  and sv['b']):
                vals.append(bld.relabel(kobjs[0], sv['t']))             # relabel: same children objects
            elif len(e['key']) > 1 and len(sv['b']) == 1 and sv['b'][0] == e['key'] and sv['k'] == 'sec':
                vals.append(lir.Section(body=tuple(kobjs), label=sv['t']))  # wrap around the window's own nodes
            else:
                vals.append(bld.build(sv))                              # fresh material
        mapper[key] = vals[0] if e['typ'] == 'node' else tuple(vals)
    kwargs = {}
    if cls in ('M', 'NM'):
        kwargs = dict(start=[obj_of(s) for s in base['start']] or None, stop=[obj_of(s) for s in base['stop']] or None,
                      active=base['active'], require_all_start=base['ras'], greedy_stop=base['gs'])
    tr = getattr(irmod, CLS[cls])(mapper=mapper, inplace=inplace, rebuild_scopes=rs, **kwargs)
    target = root if entry == 'node' else root.body
    if entry == 'node':
        tree_abs = [_with_oids(root_abs, root, table)]
        orig_objs = [root]
    else:
        tree_abs = [_with_oids(a, o, table) for a, o in zip(root_abs['b'][0], target)]
        orig_objs = list(target)
    # terms of the (possibly foreign) key / handle objects and of everything below them, taken BEFORE the visit: a
    # scoped node below a foreign key is updated in place (no rebuild_scopes), which would change the exported
    # term of every foreign ancestor afterwards and make the record look as if it had no key in the original
    pre_terms = {}
    for mk, mv in mapper.items():
        for top in list(mk if isinstance(mk, tuple) else (mk,)) + list(mv if isinstance(mv, tuple) else ((mv,) if mv is not None else ())):
            try:
                nodes = irmod.FindNodes(irmod.Node).visit(top)
            except Exception:  # pylint: disable=broad-except
                nodes = []
            for n in [top] + list(nodes):
                if id(n) not in pre_terms:
                    pre_terms[id(n)] = T.strip(T.Exporter().node(n))
    outcome = 'ok'
    ret = None
    old = signal.signal(signal.SIGALRM, _alarm)
    signal.setitimer(signal.ITIMER_REAL, 5.0)
    try:
        ret = tr.visit(target)
    except _Timeout:
        outcome = 'Timeout'
    except RecursionError:
        outcome = 'RecursionError'
    except Exception as ex:  # pylint: disable=broad-except
        outcome = type(ex).__name__
    finally:
        signal.setitimer(signal.ITIMER_REAL, 0)
        signal.signal(signal.SIGALRM, old)
    result, rebuilt = [], []
    if outcome == 'ok':
        ex = T.Exporter(table)
        result = ex.seq(T.flatten_top(ret))
        if cls in ('T', 'N'):
            for k, v in tr.rebuilt.items():
                # key: the id of the original object, or (for an equal object that is not part of the tree, e.g. a
                # foreign key object spliced in by a self-containing handle) its own exported term
                rebuilt.append({'ko': table.get(id(k), 0), 'kt': pre_terms.get(id(k)) or T.strip(T.Exporter().node(k)),
                                'v': ex.index.get(id(v), 0) if v is not None else 0})
    orig = T.Exporter(table).seq(orig_objs)
    case = {
        'cls': cls, 'entry': entry, 'inplace': inplace, 'rs': rs,
        'tree': tree_abs, 'map': base['map'], 'start': base['start'], 'stop': base['stop'],
        'active': base['active'], 'ras': base['ras'], 'gs': base['gs'],
        'outcome': outcome, 'result': result, 'orig': orig, 'rebuilt': rebuilt,
    }
    del keep
    return case


def _with_oids(a, o, table):
    """The abstract input tree annotated with the ids of the objects that realise it (by construction)."""
    from loki import ir as lir
    t = type(o)
    if t in (lir.Loop, lir.Section, lir.Associate):
        bodies = [o.body]
    elif t is lir.Conditional:
        bodies = [o.body, o.else_body]
    elif t is lir.MultiConditional:
        bodies = list(o.bodies) + [o.else_body]
    else:
        bodies = []
    return {'k': a['k'], 't': a['t'], 'o': table[id(o)],
            'b': [[_with_oids(ca, co, table) for ca, co in zip(slot, body)] for slot, body in zip(a['b'], bodies)]}


# --------------------------------------------------------------------------------------------
# seeded random cases over the spec's vocabulary (larger than the TLC-enumerated universe)

ALL_KINDS = ('leaf', 'asg', 'loop', 'sec', 'assoc', 'cond', 'multi')


def random_base(rng, family, maxnodes):
    cnt = [0]

    def tag():
        cnt[0] += 1
        return f'n{cnt[0]}'
    n = rng.randint(1, maxnodes)
    pool = []
    body = T.random_forest(rng, n, 4, ALL_KINDS, tag, pool, dup_p=0.2)
    root = T.node('sec', 'root', [body])
    nodes = []
    for b in body:
        T.subterms(b, nodes)
    terms = {}
    for x in nodes:
        terms.setdefault(T.term_key(x), x)
    terms = list(terms.values())
    fcnt = [0]

    def fresh(kind=None):
        fcnt[0] += 1
        kind = kind or rng.choice(('leaf', 'leaf', 'asg', 'sec', 'loop', 'cond'))
        t = f'f{fcnt[0]}'
        if kind in ('leaf', 'asg'):
            return T.with_o(T.node(kind, t))
        inner = T.node('leaf', t + 'i')
        return T.with_o(T.node(kind, t, [[inner]] if kind != 'cond' else [[inner], []]))

    def entry_for(k):
        kn = T.with_o(k)
        r = rng.random()
        if r < 0.2:
            return {'key': [k], 'typ': 'none', 'val': []}
        if r < 0.45:
            return {'key': [k], 'typ': 'node', 'val': [fresh()]}
        if r < 0.55 and k['b']:
            rl = dict(kn)
            rl['t'] = k['t'] + '@r'
            return {'key': [k], 'typ': 'node', 'val': [rl]}
        shape = rng.choice(['', 'f', 'ff', 'k', 'fk', 'kf', 'kk', 'fkf', 'fff'])
        return {'key': [k], 'typ': 'tuple', 'val': [kn if ch == 'k' else fresh() for ch in shape]}

    def windows():
        out = []

        def walk(seq):
            for i in range(len(seq) - 1):
                for m in (2, 3):
                    if i + m <= len(seq):
                        out.append(seq[i:i + m])
            for x in seq:
                for s in x['b']:
                    walk(s)
        walk(body)
        return out
    base = {'tree': [root], 'map': [], 'start': [], 'stop': [], 'active': False, 'ras': False, 'gs': False}
    if family == 'selfnest':
        # a self-containing one-to-many entry on an internal node plus 0-2 entries (remove / replace / splice) below it
        internal = [t for t in terms if any(t['b'])]
        if internal:
            k = rng.choice(internal)
            shape = rng.choice(['fk', 'kf', 'fkf', 'k', 'kk'])
            base['map'].append({'key': [k], 'typ': 'tuple', 'val': [T.with_o(k) if ch == 'k' else fresh() for ch in shape]})
            below = {}
            for x in T.subterms(k)[1:]:
                below.setdefault(T.term_key(x), x)
            below = list(below.values())
            for d in rng.sample(below, min(len(below), rng.choice((0, 1, 1, 2)))):
                e = entry_for(d)
                if not any(T.strip(v) == d for v in e['val']):      # (no second self-containing entry)
                    base['map'].append(e)
        return base
    if family == 'map':
        nkeys = rng.choice((0, 1, 1, 2, 2, 3))
        for k in rng.sample(terms, min(nkeys, len(terms))):
            base['map'].append(entry_for(k))
        wins = windows()
        if wins and rng.random() < 0.3:
            w = rng.choice(wins)
            r = rng.random()
            if r < 0.25:
                e = {'key': w, 'typ': 'none', 'val': []}
            elif r < 0.5:
                e = {'key': w, 'typ': 'node', 'val': [fresh()]}
            elif r < 0.75:
                e = {'key': w, 'typ': 'tuple', 'val': [fresh(), fresh()]}
            else:
                e = {'key': w, 'typ': 'node', 'val': [T.with_o(T.node('sec', 'w', [w]))]}
            base['map'].append(e)
    else:
        allt = terms + [T.strip(root)]
        base['start'] = rng.sample(allt, min(len(allt), rng.choice((0, 1, 1, 2, 3))))
        base['stop'] = rng.sample(terms, min(len(terms), rng.choice((0, 0, 1, 1, 2))))
        base['active'] = rng.random() < 0.4
        base['ras'] = rng.random() < 0.3
        base['gs'] = rng.random() < 0.3
        if rng.random() < 0.3 and terms:
            k = rng.choice(terms)
            base['map'] = [rng.choice([{'key': [k], 'typ': 'none', 'val': []},
                                       {'key': [k], 'typ': 'node', 'val': [fresh('leaf')]},
                                       {'key': [k], 'typ': 'tuple', 'val': [fresh('leaf'), fresh('asg')]}])]
    return base


# --------------------------------------------------------------------------------------------
# normal forms

def _val_abs(e):
    out = []
    for v in e['val']:
        sv = T.strip(v)
        if len(e['key']) == 1 and sv == e['key'][0]:
            out.append('self')
        elif len(e['key']) == 1 and e['typ'] == 'node' and sv['k'] == e['key'][0]['k'] and sv['b'] == e['key'][0]['b'] and sv['b']:
            out.append('relabel')
        elif len(e['key']) > 1 and len(sv['b']) == 1 and sv['b'][0] == e['key']:
            out.append('wrap')
        else:
            out.append(sv['k'])
    return out


def map_abs(m):
    parts = []
    for e in m:
        key = e['key'][0]['k'] if len(e['key']) == 1 else 'win' + str(len(e['key']))
        if e['typ'] == 'none':
            parts.append(f'{key}>none')
        elif e['typ'] == 'node':
            parts.append(f'{key}>{_val_abs(e)[0]}')
        else:
            parts.append(f'{key}>({",".join(_val_abs(e))})')
    return '+'.join(sorted(parts)) or '-'


def norm_key(case, clause):
    return f"{case['cls']}:{clause}:map={map_abs(case['map'])}"


# --------------------------------------------------------------------------------------------

def _write_cfg(ctx, name, consts):
    path = os.path.join(ctx.work, name)
    with open(path, 'w') as fh:
        fh.write(consts)
    return path


def _consts(maxnodes, family, leaf='LeafTerms2', multi=False, rich=False):
    return (f'CONSTANT MaxNodes = {maxnodes}\nCONSTANT MaxDepth = 3\nCONSTANT LeafTerms <- {leaf}\n'
            'CONSTANT OneSlotKinds = {"loop", "assoc"}\nCONSTANT WithCond = TRUE\n'
            f'CONSTANT WithMulti = {"TRUE" if multi else "FALSE"}\nCONSTANT MaskRich = {"TRUE" if rich else "FALSE"}\n'
            f'CONSTANT Family = "{family}"\n')


MC_INVS = ''.join(f'INVARIANT {i}\n' for i in ('InvExactlyMapped', 'InvOthersKeep', 'InvNestedAgrees', 'InvIdentityMap',
                                               'InvMaskAllOn', 'InvMaskSameLeaves', 'InvMaskSubseq', 'InvWellFormed'))


def generate(ctx, family, maxnodes, **kw):
    cfg = _write_cfg(ctx, f'Gen_TreeRewrite_{family}.cfg', _consts(maxnodes, family, **kw))
    out = os.path.join(ctx.work, f'gen_{family}.ndjson')
    r = ctx.tlc('Gen_TreeRewrite', cfg, env={'OUT': out}, timeout=1500)
    g = r.prints('GENERATED')
    if not r.ok or not g:
        raise MachineryError(f'Gen_TreeRewrite({family}) failed:\n{r.tail()}')
    with open(out) as fh:
        bases = [json.loads(l) for l in fh if l.strip()]
    if len(bases) != g[0][1]:
        raise MachineryError(f'Gen_TreeRewrite({family}): {len(bases)} lines for {g[0][1]} cases')
    return bases


def variants(i, thorough):
    """(inplace, rebuild_scopes, share, foreign_keys) combinations for the i-th base case."""
    allv = [(False, False), (True, False), (False, True), (True, True)]
    if thorough:
        return [(ip, rs, (i + j) % 5 == 0, (i + j) % 7 == 3) for j, (ip, rs) in enumerate(allv) if (i + j) % 2 == 0]
    ip, rs = allv[i % 4]
    return [(ip, rs, i % 5 == 0, i % 7 == 3)]


def run(ctx):
    quick = ctx.quick
    if ctx.replay:
        c = ctx.replay['case']
        case = run_case(c['base'], c['cls'], c['inplace'], c['rs'], c.get('entry', 'node'), c.get('share', False), c.get('foreign', False))
        verdicts = ctx.validate('Trace_TreeRewrite', 'Trace_TreeRewrite', [case])
        ok, clause, _ = verdicts[0]
        if not ok:
            ctx.violation(norm_key(case, clause), f'replayed case rejected: {clause}', c)
        ctx.cover['replayed'] = clause
        return
    # 1. design-level model checking of the contract on the small universe
    for family, n in (('map', 2), ('mask', 2)) if quick else (('map', 3), ('mask', 2)):
        cfg = _write_cfg(ctx, f'MC_TreeRewrite_{family}.cfg',
                         'SPECIFICATION Spec\nCHECK_DEADLOCK FALSE\n' + MC_INVS +
                         _consts(n, family, rich=not quick))
        ctx.mc('MC_TreeRewrite', cfg, timeout=3000, coverage=False)
    # 2. cases: the TLC-enumerated universe (spec -> code) ...
    bases = []
    gen_map = generate(ctx, 'map', 2 if quick else 3)
    gen_mask = generate(ctx, 'mask', 2, rich=not quick)
    ctx.cover['tlc_enumerated_map_cases'] = len(gen_map)
    ctx.cover['tlc_enumerated_mask_cases'] = len(gen_mask)
    if quick:
        # stratified: enumerated cases whose mapping has a self-containing tuple on an INTERNAL node with a second entry
        # (keys below / beside it), with the self entry alone, and a random sample of the rest
        selfint = [b for b in gen_map if _self_internal(b)]
        two = [b for b in selfint if len(b['map']) > 1]
        one = [b for b in selfint if len(b['map']) == 1]
        rest = [b for b in gen_map if not _self_internal(b)]
        gen_map = (ctx.rng.sample(two, min(len(two), 220)) + ctx.rng.sample(one, min(len(one), 80)) +
                   ctx.rng.sample(rest, min(len(rest), 400)))
        gen_mask = ctx.rng.sample(gen_mask, min(len(gen_mask), 400))
    else:
        gen_map = ctx.rng.sample(gen_map, min(len(gen_map), 8000))
        gen_mask = ctx.rng.sample(gen_mask, min(len(gen_mask), 6000))
    bases += [('map', b, 'tlc') for b in gen_map] + [('mask', b, 'tlc') for b in gen_mask]
    # ... plus seeded random larger cases over the same vocabulary (all kinds, windows of 3, 3 keys)
    nrand = 300 if quick else 6000
    for i in range(nrand):
        fam = ('map', 'selfnest', 'map', 'mask', 'mask')[i % 5]
        bases.append(('map' if fam == 'selfnest' else fam, random_base(ctx.rng, fam, 5 if i % 2 else 8), 'rand'))
    cases, meta = [], []
    for i, (fam, b, src) in enumerate(bases):
        for cls in (('T', 'N') if fam == 'map' else ('M', 'NM')):
            for ip, rs, share, foreign in variants(i, not quick):
                if ip or (not rs and _has_kind(b['tree'][0], 'assoc')):
                    share = False        # one object visited twice and updated in place twice: not a legal input
                entry = 'tuple' if (i % 9 == 4 and src == 'rand') else 'node'
                case = run_case(b, cls, ip, rs, entry, share, foreign)
                cases.append(case)
                meta.append({'base': {k: b[k] for k in ('tree', 'map', 'start', 'stop', 'active', 'ras', 'gs')},
                             'cls': cls, 'inplace': ip, 'rs': rs, 'entry': entry, 'share': share, 'foreign': foreign, 'src': src})
    verdicts = ctx.validate('Trace_TreeRewrite', 'Trace_TreeRewrite', cases, timeout=3000, per_shard_min=50)
    _report(ctx, cases, meta, verdicts)
    ctx.assumptions += [
        'IR nodes compare structurally (frozen dataclasses): a mapping key denotes every equal node (duplicates)',
        'replacement nodes are fresh (share no sub-term with the tree) except: the key inside its own tuple, a relabelled '
        'copy of the key, a wrapper around a window (NestedTransformer only) - so that "is the replacement revisited" cannot matter',
        'skipped as under-specified (Legal): overlapping windows, start/stop nodes that are keys, '
        'start and stop sharing a node, mapped nodes met while a masked transformer is switched off, partially vanishing '
        'MultiConditional branches under NestedMaskedTransformer, NestedTransformer images that collide with a key',
        'OriginalUntouched is required below scoped nodes only with rebuild_scopes=True (documented: scoped nodes are updated in place otherwise)',
        'RebuiltCoversOriginal is required for kept nodes of Transformer / NestedTransformer without inplace; a key inside its own '
        'one-to-many handle is the node itself rebuilt with its children transformed: it and its sub-tree count as kept',
        'without inplace every image of an original node is a new object (NoShare), scoped nodes excepted unless rebuild_scopes',
        'universe: TLC-enumerated trees with <= 2 (quick) / 3 (thorough) nodes below the root over {Comment, Loop, Associate, Conditional}, '
        '<= 2 mapping entries, all replacement shapes; seeded random trees <= 8 nodes over all 7 kinds, <= 3 keys + a window',
    ]


def _self_entries(base):
    return [e for e in base['map'] if len(e['key']) == 1 and e['typ'] == 'tuple' and e['key'][0]['b']
            and any(T.strip(v) == e['key'][0] for v in e['val'])]


def _self_internal(base):
    return bool(_self_entries(base))


def _keys_below_self(base):
    """Is some other key a proper sub-term of a self-containing internal key?"""
    keys = [T.term_key(k) for e in base['map'] for k in e['key']]
    for e in _self_entries(base):
        below = {T.term_key(x) for x in T.subterms(e['key'][0])[1:]}
        if below & set(keys):
            return True
    return False


def _has_kind(n, k):
    return n['k'] == k or any(_has_kind(c, k) for s in n['b'] for c in s)


def _report(ctx, cases, meta, verdicts):
    from collections import Counter
    cnt = Counter()
    percls = Counter()
    groups = {}
    for i, (case, m) in enumerate(zip(cases, meta)):
        ok, clause, _ = verdicts[i]
        if clause == 'skip:illegal':
            cnt['skipped_illegal'] += 1
            continue
        percls[(case['cls'], 'inplace' if case['inplace'] else 'rebuild', 'rs' if case['rs'] else 'nors')] += 1
        cnt['judged'] += 1
        cnt['judged_' + m['src']] += 1
        if case['map']:
            cnt['judged_with_mapping'] += 1
        if any(len(e['key']) > 1 for e in case['map']):
            cnt['judged_with_window'] += 1
        if any(v for e in case['map'] for v in _val_abs(e) if v == 'self'):
            cnt['judged_with_self_tuple'] += 1
        if case['cls'] == 'T' and _self_internal(case):
            cnt['judged_T_self_internal_keys_below' if _keys_below_self(case) else 'judged_T_self_internal_no_keys_below'] += 1
        if case['entry'] == 'tuple':
            cnt['judged_tuple_entry'] += 1
        if m['share']:
            cnt['judged_shared_objects'] += 1
        if m['foreign']:
            cnt['judged_foreign_key_objects'] += 1
        if not ok:
            groups.setdefault(norm_key(case, clause), []).append((T.size(m['base']['tree'][0]), i, clause))
    # entry-level shrinking: does a single entry of a multi-entry mapping reproduce the same clause?
    renamed = _shrink(ctx, groups, cases, meta)
    for key, lst in groups.items():
        lst.sort()
        for _, i, clause in lst:
            m = meta[i]
            case = cases[i]
            what = (f"{CLS[case['cls']]}(inplace={case['inplace']}, rebuild_scopes={case['rs']}) on {json.dumps(T.strip(m['base']['tree'][0]))[:300]} "
                    f"with mapping {map_abs(case['map'])}: clause {clause}; outcome={case['outcome']}; "
                    f"result={json.dumps([T.strip(r) for r in case['result']])[:300]}")
            ctx.violation(renamed.get(key, key), what, m)
    ctx.cover.update({k: v for k, v in cnt.items()})
    ctx.cover['judged_per_class_mode'] = {'/'.join(k): v for k, v in sorted(percls.items())}
    ctx.cover['violation_groups'] = {renamed.get(k, k): len(v) for k, v in groups.items()}
    if not ctx.replay and min(cnt['judged_T_self_internal_keys_below'], cnt['judged_T_self_internal_no_keys_below']) < 20:
        raise MachineryError('vacuity: self-containing keys on internal nodes (with / without keys below) are not exercised')
    if cnt['judged'] < 0.3 * len(cases):
        raise MachineryError(f"vacuity: only {cnt['judged']} of {len(cases)} cases are legal inputs")
    for i in (0, len(cases) // 2, len(cases) - 1):
        ctx.sample({'cls': cases[i]['cls'], 'tree': T.strip(cases[i]['tree'][0]), 'map': map_abs(cases[i]['map']),
                    'verdict': verdicts[i][1]})


def _shrink(ctx, groups, cases, meta):
    cand, owner = [], []
    for key, lst in groups.items():
        lst.sort()
        for _, i, clause in lst[:2]:
            m = meta[i]
            if not m['base']['map']:
                continue
            subs = [[]] + ([[e] for e in m['base']['map']] if len(m['base']['map']) > 1 else [])
            for sub in subs:
                b = dict(m['base'])
                b['map'] = sub
                cand.append(run_case(b, m['cls'], m['inplace'], m['rs'], m['entry'], False, False))
                owner.append((key, i, clause))
    if not cand:
        return {}
    verdicts = ctx.validate('Trace_TreeRewrite', 'Trace_TreeRewrite', cand, timeout=1500, per_shard_min=50)
    reduced = {}
    for j, (key, i, clause) in enumerate(owner):
        ok, cl, _ = verdicts[j]
        if not ok and cl.split(':')[0] == clause.split(':')[0]:
            reduced.setdefault((key, i), norm_key(cand[j], cl))
    renamed = {}
    for key, lst in groups.items():
        tried = [i for _, i, _ in lst[:2] if meta[i]['base']['map']]
        if tried and all((key, i) in reduced for i in tried):
            names = {reduced[(key, i)] for i in tried}
            if len(names) == 1:
                renamed[key] = names.pop()
    return renamed
