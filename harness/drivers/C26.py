"""C26 Dataflow def/use/live sets over-approximate actual reads and writes.

spec: FMachineLog (instrumented MiniFortran reference machine: Enter/Exit/Iter/R/W event log of an execution,
      element granularity, callee accesses attributed to the actual arguments) + Trace_Dataflow (judgement):
      for every execution instance of every IR node  Writes <= defines_symbols,  ReadsBeforeWrite <= uses_symbols,
      ReadsBeforeWrite holding an earlier value <= live_symbols.
code: loki.analyse.dataflow_analysis_attached on every routine of the parsed module (calls enriched by the
      module's own procedures); sets exported per node, nodes matched to generator statements positionally.
Pre-flight: gfortran(original text) = FMachineLog output (= FMachine output for programs without WHERE).
"""
from .. import lib_fm_dataflow as D

CLAUSES = ('D', 'U', 'L')


def run(ctx, clauses=CLAUSES, label='dataflow'):
    # design level: judgement + instrumented machine, exhaustive over a small universe (Sound, Agrees, Detects)
    if not ctx.replay:
        ctx.mc('MC_Dataflow', 'MC_Dataflow', timeout=1800, coverage=False, workers=8)
    if ctx.replay:
        c = ctx.replay['case']
        cases = [(c['prog'], c['inputs'])]
    else:
        cases = D.directed(ctx.rng, ctx.seed) + D.gen_cases(ctx.rng, 24 if ctx.quick else 450, 3 if ctx.quick else 4)
    progs, runs = D.run_cases(ctx, label, cases)
    groups = D.report(ctx, label, clauses, cases, progs, runs)
    D.cover(ctx, label, clauses, cases, progs, runs)
    ctx.assumptions += [
        'MiniFortran subset (see C01) + WHERE/ELSEWHERE over whole arrays (only in FMachineLog; such programs are pre-flighted by gfortran alone); helper routines with dummies of every intent including none',
        'granularity: locations are scalars and single array elements, the recorded sets name variables; a read counts as "before written" iff the same element was not written earlier in the node',
        'only the over-approximation direction is checked (extra names in a set are never flagged)',
        'exempt: the definition of a DO variable by its own DO construct (Loki documents that it hides the induction variable outside the loop); DO variables are not read after their loop',
        'ASSOCIATE names bound to an expression are values, not variables (no events); names in sets are resolved through the enclosing associations; an expression put into a set by visit_Associate counts for every variable in it',
        'masked ELSEWHERE masks are read for the pending positions only',
        'intent(out) dummies are defined by the callee before any return (generator)',
    ]
