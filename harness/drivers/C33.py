"""C33 Region outlining and procedure extraction preserve behaviour.

spec: FMachine (MiniFortran reference machine, TLC) + Trace_FMachine: kernels with `!$loki outline` regions
      (reads / writes / read-and-write of scalars and arrays, calls and function references inside, regions in
      loops and branches, name / in / out / inout options) and kernels with internal procedures that use host
      associated variables and shadow host names; the stdout of the gfortran build of the module after
      outline_pragma_regions / extract_internal_procedures / ExtractTransformation must equal
      Run(original program, input).out.
"""
from .. import lib_fm_inline as X

BASE = ('select', 'while', 'exitcycle', 'section')


def ap_internal(p):
    return X.calls_to(p, lambda u: u['host'] and not u.get('stmtfunc'), {'kernel'}) > 0


def ap_both(p):
    return X.has_region(p) and ap_internal(p)


# label: (features, transform, applicable, weight, post)
SLICES = {
    'outline': (BASE + ('modsubs',), X.tf_outline('function'), X.has_region, 4, X.regions_post()),
    'outline-xform': (BASE + ('modsubs',), X.tf_outline('xform'), X.has_region, 2, X.regions_post()),
    'outline-plain': (BASE, X.tf_outline('function'), X.has_region, 2, X.regions_post(overrides=False, names=False)),
    'outline-fn': (('functions', 'select'), X.tf_outline('function'), X.has_region, 1, X.regions_post()),
    'outline-consts': (('consts', 'localconst', 'select'), X.tf_outline('function'), X.has_region, 1, X.regions_post()),
    'outline-ovarray': (BASE, X.tf_outline('function'), X.need(X.has_region, 'region-array-option'), 1, X.regions_post(ovarray=True)),
    'outline-print': (BASE, X.tf_outline('function'), X.need(X.has_region, 'region-print-array'), 1, X.regions_post(allow_print=True)),
    'outline-assoc': (('assoc', 'select'), X.tf_outline('function'), X.need(X.has_region, 'region-in-assoc'), 1, X.regions_post(allow_assoc=True)),
    # regions inside loops that define loop-carried plain locals (read by the next iteration before the region)
    'outline-loopcarried': (('select', 'loopcarried'), X.tf_outline('function'), X.need(X.has_region, 'region-loop-carried'), 4),
    'outline-loopcarried-xform': (('modsubs', 'loopcarried'), X.tf_outline('xform'), X.need(X.has_region, 'region-loop-carried'), 1, X.regions_post()),
    'outline-casemix': (BASE + ('modsubs',), X.tf_outline('function'), X.has_region, 2, X.casemix_post(X.regions_post())),
    'extract-casemix': (BASE + ('internal', 'modsubs', 'nohostarrays'), X.tf_extract('function'), ap_internal, 2, X.casemix_post()),
    'extract': (BASE + ('internal', 'modsubs', 'nohostarrays'), X.tf_extract('function'), ap_internal, 4),
    'extract-hostarrays': (('internal', 'select'), X.tf_extract('function'), X.need(ap_internal, 'host-array-2refs'), 1),
    'extract-xform': (BASE + ('internal', 'nohostarrays'), X.tf_extract('xform'), ap_internal, 2),
    'extract-fn': (('internal', 'internalfn', 'select', 'nohostarrays'), X.tf_extract('function'), ap_internal, 2),
    'extract-consts': (('internal', 'consts', 'localconst', 'constinternal', 'nohostarrays'), X.tf_extract('function'), X.need(ap_internal, 'const-internal'), 1),
    'extract-outline': (('internal', 'select', 'while', 'nohostarrays'), X.tf_outline('both'), ap_both, 2, X.regions_post()),
}


def run(ctx):
    X.run_slices(ctx, SLICES, 90 if ctx.quick else 800, [
        'MiniFortran subset (see C01); regions are statement ranges that control can only leave by falling through (no EXIT/CYCLE/RETURN out of the region)',
        'in()/inout()/out() options are only generated when they are consistent with the region (promotion of read-only to in, of anything definable to inout, of a variable assigned first to out)',
        'regions that call internal procedures are only generated together with extract_internals=True',
        'internal procedures: subroutines and functions with host association, own loop variables, optional shadowing of host scalars; sibling calls between internal procedures are not generated',
        'not generated: derived types, allocatables, assumed-shape arrays, imports of variables'],
        minimums={'region-loop-carried': 8 if ctx.quick else 40})
