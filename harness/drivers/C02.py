"""C02 Read-write of generated Fortran is a fixpoint.

spec: RoundTrip.tla     t1 = fgen(parse(src)), t2 = fgen(parse(t1)):  t2 = t1 line by line, and the structural export
                        of parse(t1) equals that of parse(src) (node kinds, nesting, attributes, expression trees)
      MC_RoundTrip      design level: a normalising writer is accepted, drifting / lossy writers are rejected
      Trace_RoundTrip   TLC compares the recorded texts and exports and names the first difference
Real code: Sourcefile.from_source(text, frontend=FP) and Sourcefile.to_fortran() (FortranCodegen, FCodeMapper).
Corpus: lib_fm.Gen programs with all features, lib_fm_long.LongGen programs (long / wrapped constructs), every
        Fortran source under {REPO}/loki, example, lint_rules, scripts that FP accepts without preprocessing.
"""
import os
import re
import time

from .. import core
from ..core import MachineryError
from .. import lib_fm as F
from .. import lib_text as T

FEATURES = ('select', 'while', 'call', 'exitcycle', 'section', 'fcall', 'twod', 'assoc', 'labelled')


def roundtrip(text):
    """Record t1, t2 (lines), the structural exports of the two IRs and rb = "the written text was read back"."""
    from loki import Sourcefile
    from loki.frontend import FP
    sf1 = Sourcefile.from_source(text, frontend=FP)
    ir1 = T.export_ir(sf1)
    t1 = sf1.to_fortran()
    rec = {'t1': [T._ascii(l) for l in t1.split('\n')], 't2': [], 'ir1': ir1, 'ir2': [], 'rb': True, 'gf': True, '_t1': t1, '_err': ''}
    try:
        sf2 = Sourcefile.from_source(t1, frontend=FP)
    except Exception as e:  # pylint: disable=broad-except
        rec['rb'] = False
        rec['_err'] = f'{type(e).__name__}: {e}'
        return rec
    rec['ir2'] = T.export_ir(sf2)
    rec['t2'] = [T._ascii(l) for l in sf2.to_fortran().split('\n')]
    return rec


# minimum number of named constructs a run must have taken through the round trip (vacuity guard)
NAMED_MINIMUM = {'named-if:elseif>=2': 16, 'named-if': 32, 'named-do': 3, 'named-select': 2, 'named-associate': 1, 'nested-named': 1}


def gen_texts(ctx, n_fm, n_long):
    from .. import lib_fm_long as G
    out = []
    for i in range(n_fm):
        g = F.Gen(ctx.rng, FEATURES)
        prog = g.program(nstmts=ctx.rng.randint(4, 9), depth=2)
        out.append(('generated:fm', F.render(prog)))
    for i in range(n_long):
        # most programs without apostrophes in literals: the C04 defect (a literal with a doubled quote broken across
        # lines) makes the generated text unreadable and would hide everything else in the program
        g = G.LongGen(ctx.rng, FEATURES, apostrophes=(i % 4 == 3))
        prog = g.program(nstmts=ctx.rng.randint(5, 9), depth=2, nest_levels=ctx.rng.choice([0, 4]))
        out.append(('generated:long', G.long_program_text(prog, ctx.rng)))
    return out


def named_texts(ctx):
    """The deterministic universe of named constructs (lib_text.named_construct_texts); thorough: three rounds with other
    conditions."""
    return [('generated:' + tag, text) for tag, text in T.named_construct_texts(ctx.rng, rounds=1 if ctx.quick else 3)]


def kind_of_line(line):
    s = line.strip()
    if not s:
        return 'blank-line'
    if s.startswith('!'):
        return 'comment'
    m = re.match(r'^(\d+\s+)?([A-Za-z_]+)', s.lstrip('&').strip())
    w = m.group(2).upper() if m else '?'
    known = ('CALL', 'PRINT', 'WRITE', 'IF', 'ELSE', 'DO', 'SELECT', 'CASE', 'WHERE', 'FORALL', 'ALLOCATE', 'USE', 'ASSOCIATE', 'SUBROUTINE',
             'FUNCTION', 'INTEGER', 'REAL', 'LOGICAL', 'CHARACTER', 'TYPE', 'DATA', 'FORMAT', 'END', 'CONTAINS', 'MODULE', 'INTERFACE',
             'PROCEDURE', 'IMPLICIT', 'PUBLIC', 'PRIVATE', 'CLASS', 'GENERIC', 'ENUM', 'ENUMERATOR', 'IMPORT', 'READ', 'OPEN', 'CLOSE')
    return w if w in known else ('ASSIGNMENT' if '=' in s else 'other')


def ir_kind(entry):
    p = entry.split(' ')
    return p[1] if len(p) > 1 else entry


def first_expr_diff(a, b):
    """The differing expression class at the first difference of two node images (for the normal-form key)."""
    i = 0
    while i < min(len(a), len(b)) and a[i] == b[i]:
        i += 1
    # walk back to the start of the class name that contains position i
    def cls_at(s):
        j = i
        while j > 0 and (s[j - 1].isalnum() or s[j - 1] == '_'):
            j -= 1
        k = i
        while k < len(s) and (s[k].isalnum() or s[k] == '_'):
            k += 1
        return s[j:k] or ('None' if s[i:i + 1] == '-' else '?')
    return cls_at(a), cls_at(b)


def key_tag(origin):
    """Normal form of the origin of a case for violation keys (read-back / written-text-compiles)."""
    if not origin.startswith('generated:'):
        return 'repo'
    tag = origin.split(':', 1)[1]
    m = re.match(r'named-if:elseif=(\d):else=\d:(.*)$', tag)
    if m:
        return 'named-if:elseif' + ('>=2' if int(m.group(1)) >= 2 else '<2') + (':' + m.group(2) if m.group(2) == 'in-named-if-branch' else '')
    return tag


def only_logical_nesting(a, b):
    """Key naming only: the two node images differ just in how .and. / .or. operands are grouped."""
    def flat(x):
        for t in ('LogicalAnd(<', 'LogicalOr(<', '>)'):
            x = x.replace(t, '')
        return x
    return ('LogicalAnd(<' in a or 'LogicalOr(<' in a) and flat(a) == flat(b)


def only_quote_doubling(a, b):
    """Key naming only: the two node images differ just in doubled quote characters inside StringLiteral values."""
    def flat(x):
        while "''" in x or '""' in x:
            x = x.replace("''", "'").replace('""', '"')
        return x
    return 'StringLiteral[' in a and a != b and flat(a) == flat(b)


def run(ctx):
    quick = ctx.quick
    if not ctx.replay:
        ctx.mc('MC_RoundTrip', 'MC_RoundTrip', timeout=600, workers=2, coverage=False)
    items = []
    skipped_cpp = 0
    if ctx.replay:
        c = ctx.replay['case']
        items.append((c['origin'], c['text']))
    else:
        nfm, nlong = (40, 8) if quick else (600, 120)
        if os.environ.get('C02_N'):          # development: smaller generated corpus
            nfm, nlong = int(os.environ['C02_N']), max(1, int(os.environ['C02_N']) // 4)
        items += gen_texts(ctx, nfm, nlong)
        items += named_texts(ctx)
        files = T.repo_fortran_sources()
        for p in files:
            with open(p, errors='replace') as fh:
                text = fh.read()
            if T.needs_cpp(text):
                skipped_cpp += 1
                continue
            items.append(('repo:' + os.path.relpath(p, core.REPO), text))
        ctx.cover['repo_sources_found'] = len(files)
        ctx.cover['repo_sources_skipped_need_cpp'] = skipped_cpp
    cases, meta = [], []
    rejected_by_frontend = []
    t0 = time.time()
    for origin, text in items:
        try:
            from loki import Sourcefile
            from loki.frontend import FP
            Sourcefile.from_source(text, frontend=FP)
        except Exception as e:  # pylint: disable=broad-except
            if origin.startswith('generated') and not origin.startswith('generated:probe'):
                raise MachineryError(f'C02 generator produced a program the FP frontend rejects: {e}\n{text[:2000]}') from e
            rejected_by_frontend.append(origin + (f' ({type(e).__name__})' if origin.startswith('generated:probe') else ''))
            continue
        try:
            rec = roundtrip(text)
        except Exception as e:  # pylint: disable=broad-except
            # the frontend accepted the source but writing it (or writing what was read back) raises
            first = re.sub(r'\d+', 'N', str(e).strip().split('\n')[0])[:60]
            ctx.violation(f'roundtrip:raises:{type(e).__name__}:{first}', f'{origin}: writing the IR (first or second pass) raised '
                          f'{type(e).__name__}: {str(e)[:600]}', {'origin': origin, 'text': text})
            continue
        cases.append(rec)
        meta.append((origin, text))
    ctx.cover['loki_wall_s'] = round(time.time() - t0, 1)
    # a compiler's opinion on the written text, for the self-contained generated sources whose original it accepts
    import concurrent.futures as cf
    gen_idx = [i for i, (o, _t) in enumerate(meta) if o.startswith('generated')]

    def compile_pair(i):
        ok0, err0 = T.gfortran_syntax(ctx.work, f'gf-{i}-orig', [('orig.f90', meta[i][1])], width='none')
        if not ok0:
            return i, None, err0
        ok1, err1 = T.gfortran_syntax(ctx.work, f'gf-{i}-t1', [('t1.f90', cases[i]['_t1'])], width='none')
        return i, ok1, err1
    with cf.ThreadPoolExecutor(max_workers=8) as ex:
        for i, ok, err in ex.map(compile_pair, gen_idx):
            if ok is None and not meta[i][0].startswith('generated:probe'):
                raise MachineryError(f'C02 generator produced a program gfortran rejects:\n{err}\n{meta[i][1][:2000]}')
            if ok is not None:
                cases[i]['gf'] = bool(ok)
                cases[i]['_gferr'] = err
    ctx.cover['written_texts_compiled'] = sum(1 for i in gen_idx if '_gferr' in cases[i])
    # vacuity guard: named constructs that went through the round trip
    named = {}
    for o, _t in meta:
        if not o.startswith('generated:named') and not o.startswith('generated:nested'):
            continue
        tag = o.split(':', 1)[1]
        fam = tag.split(':')[0]
        fam = 'named-do' if fam.startswith('named-do') else fam
        named[fam] = named.get(fam, 0) + 1
        m = re.search(r'elseif=(\d)', tag)
        if m and int(m.group(1)) >= 2:
            named['named-if:elseif>=2'] = named.get('named-if:elseif>=2', 0) + 1
    ctx.cover['named_constructs_round_tripped'] = named
    if not ctx.replay and not os.environ.get('C02_SKIP_GUARD'):
        short = {k: (named.get(k, 0), v) for k, v in NAMED_MINIMUM.items() if named.get(k, 0) < v}
        if short:
            raise MachineryError(f'vacuity guard: too few named constructs went through the round trip (have, need): {short}')
    verdicts = ctx.validate('Trace_RoundTrip', 'Trace_RoundTrip', [{k: v for k, v in c.items() if not k.startswith('_')} for c in cases],
                            timeout=1800, per_shard_min=8)
    stats = {'text-fixpoint': 0, 'ir-identical': 0, 'read-back': 0, 'written-text-compiles': 0}
    for i, (origin, text) in enumerate(meta):
        ok, _clause, n = verdicts[i][:3]
        if ok:
            continue
        c = cases[i]
        for k in range(1, n + 1):
            _f, clause, pos = verdicts[f'{i}#{k}'][:3]
            stats[clause] += 1
            tag = key_tag(origin)
            if clause == 'read-back':
                first = re.sub(r'\d+', 'N', c['_err'].split('\n')[0])[:70]
                ctx.violation(f'read-back:{tag}:{first}',
                              f'{origin}: the text written by fgen is not read back by the frontend: {c["_err"][:600]}\n--- written text ---\n'
                              + c['_t1'][:2500], {'origin': origin, 'text': text})
            elif clause == 'written-text-compiles':
                first = next((l.strip() for l in c.get('_gferr', '').splitlines() if l.startswith('Error')), '')
                ctx.violation(f'written-text-compiles:{tag}:' + re.sub(r'\d+', 'N', first)[:70],
                              f'{origin}: gfortran accepts the original text but rejects the text written by fgen:\n{c.get("_gferr", "")[:1200]}\n'
                              f'--- written text ---\n' + c['_t1'][:2500], {'origin': origin, 'text': text})
            elif clause == 'text-fixpoint':
                a = c['t1'][pos - 1] if pos <= len(c['t1']) else '<end of text>'
                b = c['t2'][pos - 1] if pos <= len(c['t2']) else '<end of text>'
                ka, kb = kind_of_line(a) if pos <= len(c['t1']) else 'end', kind_of_line(b) if pos <= len(c['t2']) else 'end'
                ctx_lines = '\n'.join(c['t1'][max(0, pos - 4):pos + 2])
                ctx.violation(f'text-fixpoint:{ka}->{kb}',
                              f'{origin}: second pass differs from the first at line {pos}: {a!r} became {b!r} '
                              f'({len(c["t1"])} / {len(c["t2"])} lines)\n--- first pass around the line ---\n{ctx_lines}',
                              {'origin': origin, 'text': text})
            else:
                a = c['ir1'][pos - 1] if pos <= len(c['ir1']) else '<end>'
                b = c['ir2'][pos - 1] if pos <= len(c['ir2']) else '<end>'
                ka, kb = ir_kind(a), ir_kind(b)
                detail = ''
                if ka == kb and a != '<end>' and b != '<end>':
                    ea, eb = first_expr_diff(a, b)
                    detail = f':{ea}->{eb}'
                    if only_logical_nesting(a, b):
                        detail = ':logical-operands-regrouped'
                    elif only_quote_doubling(a, b):
                        detail = ':string-literal-quote-doubling'
                ctx.violation(f'ir-identical:{ka}->{kb}{detail}',
                              f'{origin}: the IR read back from the generated text differs from the IR it was written from at node '
                              f'{pos}:\n  written from: {a[:700]}\n  read back:    {b[:700]}', {'origin': origin, 'text': text})
    ctx.cover['sources_round_tripped'] = len(cases)
    ctx.cover['generated_programs'] = sum(1 for o, _ in meta if o.startswith('generated'))
    ctx.cover['repo_sources_round_tripped'] = sum(1 for o, _ in meta if o.startswith('repo'))
    ctx.cover['repo_sources_rejected_by_frontend'] = rejected_by_frontend
    ctx.cover['findings_by_clause'] = stats
    ctx.cover['ir_nodes_compared'] = sum(len(c['ir1']) for c in cases)
    ctx.cover['text_lines_compared'] = sum(len(c['t1']) for c in cases)
    ctx.cover['violation_keys'] = sorted({v.key for v in ctx.violations})
    if cases:
        ctx.sample({'origin': meta[0][0], 't1_head': cases[0]['t1'][:6], 'ir1_head': [x[:120] for x in cases[0]['ir1'][:6]]})
    ctx.assumptions += [
        'read = Sourcefile.from_source(frontend=FP), write = Sourcefile.to_fortran() (default FortranStyle)',
        'clauses: the written text is read back by the frontend (read-back); gfortran -fsyntax-only accepts the written text of '
        'self-contained generated sources whose original it accepts (written-text-compiles); text-fixpoint; ir-identical',
        'named constructs: deterministic universe (named IF with 0..3 ELSE IF, with/without ELSE, in four contexts; named DO / DO WHILE '
        'with EXIT/CYCLE; named SELECT CASE, ASSOCIATE, WHERE; nested) with a minimum per run; EXIT/CYCLE <name> and BLOCK are probes '
        'that the FP frontend may reject (counted)',
        'structural export: node kinds, nesting, dataclass attributes (labels, names, flags, comment/pragma text), expression trees by '
        'class and constructor arguments, declared symbol attributes; exempt: Source objects, symbol tables, parent links',
        'exempt: empty lines at the two ends of a text / empty-line comments at the end of an IR (the frontend strips the text it '
        'reads); blanks inside pragma text (the backend re-assembles pragmas from their parameters)',
        'out of scope: sources with preprocessor directives (cpp needed) and sources the FP frontend rejects (both counted)',
    ]


def selftest(ctx):
    """Binding demonstration: corrupt single recorded fields of an accepted case; TLC must reject with the matching clause."""
    import copy
    src = "subroutine s(a, b)\n  integer, intent(inout) :: a, b\n\n  ! a comment\n  do a = 1, 3\n    if (a > 1 .and. b < 2) b = b + a*2\n  end do\nend subroutine s\n\n\n"
    good = roundtrip(src)
    b = []
    c = copy.deepcopy(good); c['t2'][3] += ' '; b.append(('one line of the second pass changed', c, 'text-fixpoint'))
    c = copy.deepcopy(good); c['t2'].insert(2, ''); b.append(('blank line grown inside the text', c, 'text-fixpoint'))
    c = copy.deepcopy(good)
    k = next(i for i, e in enumerate(c['ir2']) if ' Assignment ' in e)
    c['ir2'][k] = c['ir2'][k].replace('IntLiteral[2]', 'IntLiteral[3]')
    b.append(('expression tree of the re-read IR changed', c, 'ir-identical'))
    c = copy.deepcopy(good); del c['ir2'][len(c['ir2']) // 2]; b.append(('node missing in the re-read IR', c, 'ir-identical'))
    c = copy.deepcopy(good); c['rb'] = False; c['t2'] = []; c['ir2'] = []; b.append(('written text not read back', c, 'read-back'))
    c = copy.deepcopy(good); c['gf'] = False; b.append(('compiler verdict on the written text flipped', c, 'written-text-compiles'))
    ok_pad = copy.deepcopy(good); ok_pad['t2'] = [''] + ok_pad['t2'] + ['', '']; ok_pad['ir2'] = ok_pad['ir2'] + ['BLANK']
    strip = lambda c_: {k_: v_ for k_, v_ in c_.items() if not k_.startswith('_')}
    v = ctx.validate('Trace_RoundTrip', 'Trace_RoundTrip', [strip(x) for x in [good, ok_pad] + [x[1] for x in b]], shards=1)
    if not v[0][0] or not v[1][0]:
        raise MachineryError(f'selftest: an uncorrupted / exempt case is rejected: {v[0]} {v[1]}')
    missed = []
    for i, (name, _c, want) in enumerate(b, 2):
        hit = (not v[i][0]) and v[i][1] == want
        print(f"  {'rejected' if hit else 'MISSED (!)'}: {name}: {v[i][1]}")
        if not hit:
            missed.append(name)
    print(f'SELFTEST-FAILED C02: {missed}' if missed else f'SELFTEST-OK C02: {len(b)} corruptions rejected, padding with empty lines accepted')
    return 1 if missed else 0
