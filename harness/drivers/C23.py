"""C23 Batch processing does not depend on the letter case of names.

spec: SchedCase.tla        part 1: projection of a batch run (items, edges, probe order, generated code as token
                           sequences, all spellings as character codes) and Compare(base, permuted) after folding;
                           part 2: the abstract collection of items (set of folded names) ApplyC
      MC_SchedCase         a hash-bucket collection refines the abstract one iff the hash is a function of the folded
                           name (MC_SchedCase_raw = negative control: hash of the raw spelling must be rejected)
      Gen_SchedCase        TLC-side generation of collection histories (spec -> code)
      Trace_SchedCase      batch validation of recorded run pairs and collection histories (code -> spec)
Real objects: loki.batch.Scheduler + DuplicateKernel / RemoveKernel / DependencyTransformation /
ModuleWrapTransformation + the probe of C22, on two renderings of one abstract project (harness/lib_sched.py,
ClassLayout); python sets / dicts / networkx graphs / SGraph of loki.batch.ProcedureItem objects.
"""
import json
import os
import random
import shutil
import time

from .. import core
from .. import lib_sched as L
from ..core import MachineryError
from . import C21, C22

CLASSES = ('def', 'use', 'cfg', 'seed', 'file', 'sfx', 'opt')
#  def/use/cfg/seed/file: see lib_sched.ClassLayout;  sfx: file suffix .f90 -> .F90;
#  opt: name-valued transformation options (kernel names, duplication / dependency / module suffixes)
PROBE = {'filter': ['proc', 'mod'], 'reverse': False, 'filegraph': False, 'procign': False, 'plan': False}


def cased_op(op, mode):
    return dict(op, k=L.apply_case(op['k'], mode), sfx=L.apply_case(op['sfx'], mode), msfx=L.apply_case(op['msfx'], mode))


def run_once(project, config, ops, classes, root, iface=False, renames=None, lseed=0):
    """One batch run on the rendering selected by `classes` -> projection (SchedCase part 1).
    renames: imported callees rendered under local aliases (lib_sched.render_project); lseed: seed of the per-occurrence
    case choices (class mode 'each')."""
    names, toks = L.Interner(), L.Interner()
    run = {'names': names.table, 'items': [], 'edges': [], 'visits': [], 'files': [], 'toks': toks.table, 'raised': ''}
    shutil.rmtree(root, ignore_errors=True)
    os.makedirs(root)
    stage = 'build'
    try:
        lay = L.ClassLayout(classes, lseed)
        fids = list(dict.fromkeys([m['file'] for m in project['mods']] + [p['file'] for p in project['procs']]))
        suf = '.F90' if classes.get('sfx', 'lower') != 'lower' else '.f90'
        paths = L.render_project(project, root, layout=lay, suffixes={f: suf for f in fids}, iface=iface, renames=renames)
        cfg_dict, seeds = L.render_config(config, lay, enable_imports=True)
        sched = L.build_scheduler(root, cfg_dict, seeds, True)
        for n, op in enumerate(ops):
            stage = f'op{n + 1}-{op["op"]}'
            sched.process(L.make_transformation(cased_op(op, classes.get('opt', 'lower'))))
        stage = 'probe'
        graph = L.project_graph(sched, paths)
        visits, raised = C22.process_case(sched, graph, paths, PROBE)
        if raised:
            run['raised'] = f'probe:{raised.split(":")[0]}'
            return run
        stage = 'codegen'
        run['items'] = [{'n': names(i['name']), 'kind': i['kind'], 'ign': i['ignored']} for i in graph['items']]
        run['edges'] = [[names(a), names(b)] for a, b in graph['edges']]
        run['visits'] = [names(v['item']) for v in visits]
        for src in L.graph_files(sched):
            stem = os.path.basename(str(src.path)).split('.')[0]
            run['files'].append({'n': names(stem), 'toks': [toks(t) for t in L.tokens(src.to_fortran())]})
    except Exception as e:  # pylint: disable=broad-except
        cause = e.__cause__ or e
        run['raised'] = f'{stage}:{type(cause).__name__}'
        run['detail'] = str(e)[:300]
    return run


# --------------------------------------------------------------------------------------------
# pipelines (name-valued options) for a project

def callees(project):
    return list(dict.fromkeys(c for p in project['procs'] for c in p['calls'] if c != p['name']))


def pipelines(rng, project, n):
    ks = callees(project)
    out = [[]]
    cands = []
    if ks:
        k = rng.choice(ks)
        cands += [[L.op_record('dup', k, '_d', rng.choice(['', '_dm']))], [L.op_record('rm', rng.choice(ks))],
                  [L.op_record('dup', rng.choice(ks), '_d', '', True)],
                  [L.op_record('dup', k, '_d'), L.op_record('dep', '', '_x', '_mod')]]
    cands += [[L.op_record('dep', '', '_x', rng.choice(['', '_mod']))],
              [L.op_record('wrap', '', '', '_mod'), L.op_record('dep', '', '_x', '_mod')]]
    rng.shuffle(cands)
    return out + cands[:max(0, n - 1)]


def pipe_sig(ops):
    return '+'.join(o['op'] + ('s' if o['sub'] else '') + ('m' if o['msfx'] and o['op'] in ('dup', 'dep') else '') for o in ops) or 'none'


def class_sig(classes):
    return ','.join(f'{c}={classes[c]}' for c in CLASSES if classes.get(c, 'lower') != 'lower') or 'none'


def permutations(rng, n, idx):
    """n class assignments; single classes first (rotating) so that every class is exercised alone."""
    out = [{CLASSES[(idx + j) % len(CLASSES)]: rng.choice(['upper', 'mixed', 'cap'])} for j in range(min(n, 2))]
    while len(out) < n:
        sel = [c for c in CLASSES if rng.random() < 0.5] or [rng.choice(CLASSES)]
        out.append({c: rng.choice(['upper', 'mixed', 'cap']) for c in sel})
    return out


# --------------------------------------------------------------------------------------------
# renamed imports: `use m, only: alias => k` and `use m, alias => k` (no ONLY list), calls by the alias

def rename_requests(rng, project, p_each=0.8):
    """{"mod#proc": {callee: alias}} for the callees a procedure reaches through its OWN imports."""
    req = {}
    for p in project['procs']:
        m = {c: f'{c}_al' for c in dict.fromkeys(p['calls']) if c != p['name'] and rng.random() < p_each}
        if m and L.proc_renames(project, p, {L.full_name(p): m}):
            req[L.full_name(p)] = {c: a for im in L.proc_renames(project, p, {L.full_name(p): m}).values() for c, a in im.items()}
    return req


def rename_styles(project, renames):
    """Which kinds of renaming imports a rendering contains: 'unq' (rename list without ONLY) / 'only'."""
    st = set()
    for p in project['procs']:
        for n, _ in L.proc_renames(project, p, renames).items():
            st.add('only' if p['imports'][n]['only'] else 'unq')
    return st


def rename_family(rng, n):
    """Small projects built around renamed imports: a module m1 (k1 -> k2, k3), optionally m2 (k4); callers (free or in a
    module m3) import through `use m` (no ONLY list) or `use m, only: ...` at routine level and call 1..3 of the kernels."""
    out = []
    for i in range(n):
        mods = [{'name': 'm1', 'file': 'm1', 'vars': ['v_m1']}]
        procs = [{'name': 'k1', 'mod': 'm1', 'calls': ['k2'] if rng.random() < 0.5 else []}, {'name': 'k2', 'mod': 'm1', 'calls': []},
                 {'name': 'k3', 'mod': 'm1', 'calls': []}]
        two = rng.random() < 0.4
        if two:
            mods.append({'name': 'm2', 'file': 'm2', 'vars': ['v_m2']})
            procs.append({'name': 'k4', 'mod': 'm2', 'calls': []})
        callers = []
        for j in range(rng.choice([1, 2, 2])):
            inmod = rng.random() < 0.4
            ks = rng.sample(['k1', 'k2', 'k3'], rng.randint(1, 3))
            unq = (i + j) % 2 == 0
            imps = [{'mod': 'm1', 'only': [] if unq else ks + (['v_m1'] if rng.random() < 0.3 else [])}]
            if two and rng.random() < 0.6:
                imps.append({'mod': 'm2', 'only': [] if rng.random() < 0.5 else ['k4']})
                ks = ks + ['k4']
            name = f'c{j + 1}'
            if inmod:
                mods.append({'name': f'm{j + 3}', 'file': f'm{j + 3}', 'vars': [f'v_m{j + 3}']})
            callers.append({'name': name, 'mod': f'm{j + 3}' if inmod else '', 'file': f'm{j + 3}' if inmod else name, 'imports': imps, 'calls': ks})
        P = L.normalize_project({'mods': mods, 'procs': callers + procs})
        seeds = [c['name'] for c in callers]
        C = L.make_config(seeds, routines=[L.routine_entry(s, role='driver') for s in seeds] if rng.random() < 0.5 else [])
        out.append((P, C))
    return out


def simple_config(rng, project, pruned_ok):
    """Seeds = the roots of the call graph; the first seed is a driver in most cases (it keeps its name under dep)."""
    called = {c for p in project['procs'] for c in p['calls'] if c != p['name']}
    names = [p['name'] for p in project['procs']]
    roots = [p for p in project['procs'] if p['name'] not in called and names.count(p['name']) == 1] or \
            [p for p in project['procs'] if names.count(p['name']) == 1][:1]
    if not roots:
        return None
    seeds = [r['name'] for r in roots[:2]]
    routines = [L.routine_entry(s, role='driver') for s in seeds] if rng.random() < 0.8 else []
    return L.make_config(seeds, routines=routines)


# --------------------------------------------------------------------------------------------
# part 2: collections of items

CONTAINERS = ('set', 'dict', 'nxgraph', 'sgraph', 'tuple')


def replay_history(events, container):
    """Replay collection events on a real container of ProcedureItem objects; returns events with `ret`."""
    import networkx as nx
    from loki.batch import ProcedureItem, SGraph
    mk = lambda c: ProcedureItem(''.join(chr(x) for x in c), source=None)   # noqa: E731
    st = {'set': set(), 'dict': {}, 'nxgraph': nx.DiGraph(), 'sgraph': SGraph(), 'tuple': ()}[container]
    b = lambda x: 'true' if x else 'false'   # noqa: E731
    out = []
    for e in events:
        op = e['op']
        ret = 'none'
        if op in ('add', 'del', 'has'):
            it = mk(e['a'])
        if op == 'add':
            if container == 'set':
                st.add(it)
            elif container == 'dict':
                st.setdefault(it, True)
            elif container == 'nxgraph':
                st.add_node(it)
            elif container == 'sgraph':
                st.add_node(it)
            else:
                st = st if it in st else st + (it,)
        elif op == 'del':
            if container == 'set':
                ret = b(it in st)
                st.discard(it)
            elif container == 'dict':
                ret = b(st.pop(it, None) is not None)
            elif container in ('nxgraph', 'sgraph'):
                g = st if container == 'nxgraph' else st._graph   # pylint: disable=protected-access
                ret = b(it in g)
                if it in g:
                    g.remove_node(it)
            else:
                ret = b(it in st)
                st = tuple(x for x in st if not x == it)
        elif op == 'has':
            ret = b(it in (st._graph if container == 'sgraph' else st))   # pylint: disable=protected-access
        elif op == 'hasstr':
            s = ''.join(chr(x) for x in e['a'])
            ret = b(s in (st._graph if container == 'sgraph' else st))   # pylint: disable=protected-access
        elif op == 'size':
            ret = str(len(st.items) if container == 'sgraph' else len(st))
        elif op == 'eq':
            ret = b(mk(e['a']) == mk(e['b']))
        elif op == 'hasheq':
            ret = b(hash(mk(e['a'])) == hash(mk(e['b'])))
        out.append(dict(e, ret=ret))
    return out


def gen_histories(ctx, n, length):
    cfg = os.path.join(ctx.work, 'Gen_SchedCase_run.cfg')
    with open(os.path.join(core.SPEC, 'Gen_SchedCase.cfg')) as fh:
        text = fh.read().replace('N = 8', f'N = {length}')
    with open(cfg, 'w') as fh:
        fh.write(text)
    r = ctx.tlc('Gen_SchedCase', cfg, simulate=f'num={n}', depth=length + 2, seed=ctx.seed + 23, timeout=600)
    hs = [json.loads(v[1]) for v in r.prints('HIST')]
    distinct = {json.dumps(h) for h in hs}
    if len(distinct) < 0.7 * n:
        raise MachineryError(f'Gen_SchedCase produced only {len(distinct)} distinct histories of {n}\n{r.tail()}')
    return [json.loads(h) for h in sorted(distinct)]


# --------------------------------------------------------------------------------------------

EMPTY_RUN = {'names': [], 'items': [], 'edges': [], 'visits': [], 'files': [], 'toks': [], 'raised': ''}


def perm_case(b, p):
    strip = lambda r: {k: v for k, v in r.items() if k != 'detail'}   # noqa: E731
    return {'kind': 'perm', 'b': strip(b), 'p': strip(p), 'events': []}


def law_case(events):
    return {'kind': 'law', 'b': EMPTY_RUN, 'p': EMPTY_RUN, 'events': events}


def run(ctx):
    quick = ctx.quick
    phases = {}
    ctx.cover['phase_wall_s'] = phases
    # ---- 1. design level
    if not (os.environ.get('VERIF_SKIP_MC') or ctx.replay):
        ctx.mc('MC_SchedCase', 'MC_SchedCase', timeout=900, workers=4)
        r = ctx.tlc('MC_SchedCase', 'MC_SchedCase_raw', workers=2, timeout=600)
        if r.ok or not r.invariant_violated:
            raise MachineryError(f'negative control (hash of the raw spelling) not rejected by MC_SchedCase:\n{r.tail()}')
        ctx.cover['negative_control_rejected'] = r.invariant_violated
    phases['model_checking'] = round(ctx.elapsed(), 1)

    runs = []       # (replay payload, trace case)
    budget = time.time() + (70 if quick else 540)
    max_pairs = 90 if quick else 700

    def add_perm(P, C, ops, classes, iface, origin, base=None, renames=None, lseed=0):
        root = os.path.join(ctx.work, f'r{len(runs)}')
        b = base or run_once(P, C, ops, {}, root + 'b', iface, renames)
        p = run_once(P, C, ops, classes, root + 'p', iface, renames, lseed)
        if not os.environ.get('VERIF_KEEP'):
            shutil.rmtree(root + 'b', ignore_errors=True)
            shutil.rmtree(root + 'p', ignore_errors=True)
        runs.append(({'kind': 'perm', 'P': P, 'C': C, 'ops': ops, 'classes': classes, 'iface': iface, 'origin': origin,
                      'renames': renames or {}, 'lseed': lseed,
                      'detail': p.get('detail', ''), 'base_detail': b.get('detail', '')}, perm_case(b, p)))
        return b

    if ctx.replay:
        c = ctx.replay['case']
        if c['kind'] == 'perm':
            add_perm(L.normalize_project(c['P']), L.normalize_config(c['C']), c['ops'], c['classes'], c['iface'], 'replay',
                     renames=c.get('renames') or None, lseed=c.get('lseed', 0))
        else:
            runs.append((c, law_case(replay_history(c['events'], c['container']))))
    else:
        # ---- 2. run pairs: TLC-sampled small projects and seeded larger ones x pipelines x class permutations
        small = []
        for np_, n in (((4, 24),) if quick else ((3, 60), (4, 120))):
            small += L.gen_small(ctx, n, np_)
        pool = [(L.normalize_project(c['P']), L.normalize_config(c['C']), 'tlc') for c in small]
        legal, yield_ = L.seeded_pairs(ctx, 14 if quick else 100)
        pool += [(P, Cf, 'seeded') for P, Cf in legal]
        ctx.cover['seeded_candidates_legal'] = yield_
        ctx.rng.shuffle(pool)
        npairs = 0
        for i, (P, Cfull, origin) in enumerate(pool):
            if (time.time() > budget and npairs >= 40) or npairs >= max_pairs:
                ctx.cover['stopped_by_budget_after_projects'] = i
                break
            Csimple = simple_config(ctx.rng, P, False)
            iface = i % 3 == 0
            for ops in pipelines(ctx.rng, P, 2 if quick else 3):
                # without transformations: the full configuration lattice of C21 (disable / block / ignore lists, routine
                # entries, qualified seeds); with transformations: plain configurations (seeds = roots, drivers)
                C = Csimple if ops else Cfull
                if C is None:
                    continue
                base = None
                for classes in permutations(ctx.rng, 3 if quick else 4, npairs):
                    if not any(o['k'] or o['sfx'] or o['msfx'] for o in ops):
                        classes = {c: m for c, m in classes.items() if c != 'opt'} or {'def': 'upper'}
                    base = add_perm(P, C, ops, classes, iface, origin, base)
                    npairs += 1
                    if base['raised']:
                        break       # pipeline not applicable to this project (C25's business)
        # ---- 2b. renamed imports (ONLY-list renames and rename lists without ONLY), case chosen PER OCCURRENCE: the alias
        #          in the USE statement and every call site are spelled independently
        fam = L.prefilter(ctx, rename_family(ctx.rng, 16 if quick else 80))
        cand = [(P, C, 'rename-family') for P, C in fam]
        for P, Cfull, origin in pool:
            Cs = simple_config(ctx.rng, P, False)
            if Cs is not None and len(cand) < (24 if quick else 200):
                cand.append((P, Cs, origin))
        nren = {'unq': 0, 'only': 0}
        for j, (P, C, origin) in enumerate(cand):
            ren = rename_requests(ctx.rng, P)
            styles = rename_styles(P, ren)
            if not styles:
                continue
            base = None
            for k in range(2 if quick else 3):
                classes = {'use': 'each'}
                if k:
                    classes.update({c: ctx.rng.choice(['upper', 'mixed', 'cap', 'each']) for c in ('def', 'seed', 'cfg', 'file') if ctx.rng.random() < 0.4})
                base = add_perm(P, C, [], classes, False, origin, base, renames=ren, lseed=ctx.seed * 131 + j * 7 + k + 1)
                if base['raised']:
                    break
                for st in styles:
                    nren[st] += 1
        ctx.cover['renamed_import_run_pairs'] = nren
        need = 10 if quick else 60
        if min(nren.values()) < need:
            raise MachineryError(f'vacuity: only {nren} run pairs with renamed imports (at least {need} of each kind required)')
        # ---- 3. collection histories (TLC generated) on real containers of items
        hists = gen_histories(ctx, 40 if quick else 300, 10)
        for h in hists:
            for cont in CONTAINERS:
                runs.append(({'kind': 'law', 'container': cont, 'events': h, 'origin': 'tlc'}, law_case(replay_history(h, cont))))
    phases['generate_and_run_loki'] = round(ctx.elapsed() - sum(phases.values()), 1)

    # ---- 4. TLC decides
    verdicts = ctx.validate('Trace_SchedCase', 'Trace_SchedCase', [t for _, t in runs], per_shard_min=40,
                            shards=4 if quick else None, extra_env={'JAVA_TOOL_OPTIONS': '-Xss256m'})
    phases['trace_validation'] = round(ctx.elapsed() - sum(phases.values()), 1)
    clauses, pipes, classes_seen, conts = {}, {}, {}, {}
    accepted_perm = 0
    failing = []
    for i, (case, t) in enumerate(runs):
        ok, clause, pos = verdicts[i]
        cl = clause.split(':exp=')[0]
        clauses[cl] = clauses.get(cl, 0) + 1
        if case['kind'] == 'perm':
            pipes[pipe_sig(case['ops'])] = pipes.get(pipe_sig(case['ops']), 0) + 1
            for c in case['classes']:
                classes_seen[c] = classes_seen.get(c, 0) + 1
            accepted_perm += ok and clause == 'ok'
        else:
            conts[case['container']] = conts.get(case['container'], 0) + 1
        if not ok:
            failing.append(i)

    # ---- 5. shrink: does a single class of the failing combination reproduce the clause? (one TLC batch); report
    def full_key(i):
        case, t = runs[i]
        clause = verdicts[i][1]
        stage = t['p']['raised'] if clause == 'raised' else ''
        ren = '+'.join(sorted(rename_styles(case['P'], case['renames']))) if case.get('renames') else 'none'
        return f"perm:{clause}{'[' + stage + ']' if stage else ''}:pipe={pipe_sig(case['ops'])}:ren={ren}"

    trials, owner, per_key = [], [], {}
    for i in failing:
        case, t = runs[i]
        if case['kind'] != 'perm' or ctx.replay or len(case['classes']) < 2:
            continue
        fk = full_key(i)
        per_key[fk] = per_key.get(fk, 0) + 1
        if per_key[fk] > (2 if quick else 4):
            continue
        root = os.path.join(ctx.work, f'shr{i}')
        b = run_once(case['P'], case['C'], case['ops'], {}, root + 'b', case['iface'], case['renames'] or None)
        for c in CLASSES:
            if c in case['classes']:
                p = run_once(case['P'], case['C'], case['ops'], {c: case['classes'][c]}, root + 'p', case['iface'],
                             case['renames'] or None, case['lseed'])
                trials.append(perm_case(b, p))
                owner.append((i, c))
        shutil.rmtree(root + 'b', ignore_errors=True)
        shutil.rmtree(root + 'p', ignore_errors=True)
    single = {}
    if trials:
        tv, _ = core.validate_batch('Trace_SchedCase', 'Trace_SchedCase', trials, workdir=ctx.work, per_shard_min=40,
                                    extra_env={'JAVA_TOOL_OPTIONS': '-Xss256m'})
        for n, (i, c) in enumerate(owner):
            if not tv[n][0] and tv[n][1] == verdicts[i][1] and (tv[n][1] != 'raised' or trials[n]['p']['raised'] == runs[i][1]['p']['raised']):
                single.setdefault(i, c)
    for i in failing:
        case, t = runs[i]
        ok, clause, pos = verdicts[i]
        if case['kind'] == 'law':
            ev = t['events'][pos - 1]
            op = clause.split(':exp=')[0].split(':', 1)[1]
            key = f"itemlaw:{op}" + (f":{case['container']}" if op in ('has', 'hasstr', 'del', 'size', 'add') else '')
            what = (f'collection history on a real {case["container"]} of loki.batch.ProcedureItem objects rejected by '
                    f'Trace_SchedCase: event {pos} {ev["op"]}({"".join(map(chr, ev["a"]))}'
                    f'{", " + "".join(map(chr, ev["b"])) if ev["b"] else ""}) returned {ev["ret"]}, clause `{clause}`')
            ctx.violation(key, what, {k: v for k, v in case.items() if k != 'origin'})
            continue
        cls = {single[i]: case['classes'][single[i]]} if i in single else dict(case['classes'])
        key = f"{full_key(i)}:classes={'+'.join(c for c in CLASSES if c in cls)}"
        what = (f'batch run on a rendering with classes {class_sig(case["classes"])} (shrunk to {class_sig(cls)}) differs from the '
                f'all-lower-case run: clause `{clause}` at position {pos} of Trace_SchedCase; pipeline {pipe_sig(case["ops"])} '
                f'{json.dumps(case["ops"])[:300]}; {t["p"]["raised"]} {case["detail"][:200]}')
        ctx.violation(key, what, dict({k: v for k, v in case.items() if k not in ('origin', 'detail', 'base_detail')}, classes=cls))
    phases['shrinking'] = round(ctx.elapsed() - sum(phases.values()), 1)

    ctx.cover['clauses'] = clauses
    ctx.cover['run_pairs'] = sum(1 for c, _ in runs if c['kind'] == 'perm')
    ctx.cover['run_pairs_compared_equal'] = accepted_perm
    ctx.cover['pipelines'] = pipes
    ctx.cover['classes_permuted'] = classes_seen
    ctx.cover['collection_histories_per_container'] = conts
    for idx in (0, len(runs) // 3, len(runs) - 1):
        case, t = runs[idx]
        if case['kind'] == 'perm':
            ctx.sample({'origin': case['origin'], 'pipeline': pipe_sig(case['ops']), 'classes': class_sig(case['classes']),
                        'items': len(t['b']['items']), 'tokens': sum(len(f['toks']) for f in t['b']['files'])})
        else:
            ctx.sample({'container': case['container'], 'events': [(e['op'], ''.join(map(chr, e['a'])), e['ret']) for e in t['events']][:6]})
    ctx.assumptions += [
        'projects: the modelled fragment of C21 (modules, free subroutines, USE with/without ONLY, CALL, self recursion); '
        'configurations without pruning lists: seeds = roots of the call graph, first seeds usually with role driver',
        'occurrence classes: def (definition sites), use (CALL / USE / ONLY / interface blocks), cfg (routines keys), seed, file '
        '(file stem), sfx (.f90 -> .F90), opt (kernel names and suffixes given to DuplicateKernel, RemoveKernel, '
        'DependencyTransformation, ModuleWrapTransformation); modes upper / Capitalised / mIxEd; keywords and layout are not varied '
        '(C21 varies them)',
        'pipelines: none, dup, dup with subgraph, rm, dep, wrap+dep, dup+dep, followed by the probe of C22 (procedures and modules, '
        'forward, item graph); a pipeline that fails on the all-lower-case rendering is not a case of this property (C25 covers it)',
        'compared after folding (by TLC): item names + kind + is_ignored, edges, probe order, token sequence of the generated '
        'source of every file with an item in the graph',
        'TLC and the TLA+ modules are trusted; python renders, runs Loki, records raw spellings as character codes',
    ]


def selftest(ctx):
    """Binding check: an accepted run pair / history must be rejected once a recorded field is corrupted."""
    rng = random.Random(5)
    P = C21.corpus_project()
    C = L.make_config(['kernela'], routines=[L.routine_entry('kernela', role='driver')])
    b = run_once(P, C, [], {}, os.path.join(ctx.work, 'sb'))
    p = run_once(P, C, [], {'def': 'upper', 'use': 'mixed'}, os.path.join(ctx.work, 'sp'))
    cases, expect = [perm_case(b, p)], ['ok']
    for what in ('drop-item', 'swap-visits', 'rename', 'token', 'drop-edge'):
        q = json.loads(json.dumps(p))
        if what == 'drop-item':
            q['items'].pop()
        elif what == 'swap-visits':
            q['visits'][0], q['visits'][-1] = q['visits'][-1], q['visits'][0]
        elif what == 'rename':
            q['names'][q['items'][0]['n'] - 1] = q['names'][q['items'][0]['n'] - 1] + [120]
        elif what == 'token':
            q['files'][0]['toks'][3] = q['files'][0]['toks'][4]
        elif what == 'drop-edge':
            q['edges'].pop()
        cases.append(perm_case(b, q))
        expect.append('reject')
    h = [{'op': 'add', 'a': L.codes('m#k'), 'b': []}, {'op': 'has', 'a': L.codes('m#k'), 'b': []}, {'op': 'size', 'a': [], 'b': []}]
    good = replay_history(h, 'set')
    cases.append(law_case(good))
    expect.append('ok')
    bad = json.loads(json.dumps(good))
    bad[1]['ret'] = 'false'
    cases.append(law_case(bad))
    expect.append('reject')
    verdicts = ctx.validate('Trace_SchedCase', 'Trace_SchedCase', cases, extra_env={'JAVA_TOOL_OPTIONS': '-Xss256m'})
    bad = [(i, verdicts[i]) for i in range(len(cases)) if verdicts[i][0] != (expect[i] == 'ok')]
    del rng
    if bad:
        print(f'SELFTEST-FAILED C23: {bad[:5]}')
        return 2
    print(f'SELFTEST-OK C23: {expect.count("ok")} accepted, {expect.count("reject")} corrupted copies rejected '
          f'({sorted({verdicts[i][1] for i in range(len(cases)) if expect[i] == "reject"})})')
    return 0
