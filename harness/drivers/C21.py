"""C21 The scheduler graph is exactly the pruned dependency closure of the seeds.

spec: SchedProject.tla   static semantics of abstract projects / configurations, PrunedClosure (least fixed point)
      SchedPopulate.tla  the queue algorithm (Seed, PopChild) + design invariants
      MC_SchedPopulate   exhaustive: every small project x config lattice (SchedUniverse.tla): Terminated => graph = PrunedClosure
      Gen_Sched          TLC-side sampling of the small universe (spec -> code cases)
      Trace_Sched        batch validation of graphs recorded from the real loki.batch.Scheduler (code -> spec)
Real object: loki.batch.Scheduler built on rendered Fortran files (harness/lib_sched.py), full_parse on/off,
enable_imports on/off, several layouts (case, continuation lines, decoys) of the same abstract project.
"""
import json
import os
import random
import shutil
import time

from .. import core
from .. import lib_sched as L
from ..core import MachineryError

SPEC = core.SPEC


# --------------------------------------------------------------------------------------------
# validation corpus: abstraction of the repository's projA / projB and the hand-written expectations of
# loki/batch/tests/test_scheduler_graph.py (restricted to the modelled fragment: the drivers use a derived
# type and are left out; the graphs below are the sub-closures of the fixtures from the kernels).

def corpus_project():
    def imp(mod, *only):
        return {'mod': mod, 'only': list(only)}
    mods = [
        {'name': 'header_mod', 'file': 'header_mod', 'imports': [], 'vars': ['jprb'], 'params': ['jprb']},
        {'name': 'kernela_mod', 'file': 'kernela_mod', 'vars': [],
         'imports': [imp('header_mod', 'jprb'), imp('compute_l1_mod', 'compute_l1')]},
        {'name': 'kernelb_mod', 'file': 'kernelb_mod', 'vars': [],
         'imports': [imp('header_mod', 'jprb'), imp('compute_l1_mod', 'compute_l1'), imp('ext_driver_mod', 'ext_driver')]},
        {'name': 'compute_l1_mod', 'file': 'compute_l1_mod', 'vars': [],
         'imports': [imp('header_mod', 'jprb'), imp('compute_l2_mod', 'compute_l2')]},
        {'name': 'compute_l2_mod', 'file': 'compute_l2_mod', 'vars': [], 'imports': [imp('header_mod', 'jprb')]},
        {'name': 'ext_driver_mod', 'file': 'ext_driver_mod', 'vars': [], 'imports': []},
        {'name': 'ext_kernel_mod', 'file': 'ext_kernel', 'vars': ['jprb'], 'params': ['jprb'], 'imports': []},
    ]
    procs = [
        {'name': 'kernela', 'mod': 'kernela_mod', 'imports': [], 'calls': ['compute_l1', 'another_l1']},
        {'name': 'kernelb', 'mod': 'kernelb_mod', 'imports': [], 'calls': ['compute_l1', 'ext_driver']},
        {'name': 'compute_l1', 'mod': 'compute_l1_mod', 'imports': [], 'calls': ['compute_l2']},
        {'name': 'compute_l2', 'mod': 'compute_l2_mod', 'imports': [], 'calls': []},
        {'name': 'another_l1', 'mod': '', 'file': 'another_l1', 'imports': [imp('header_mod', 'jprb')], 'calls': ['another_l2']},
        {'name': 'another_l2', 'mod': '', 'file': 'another_l2', 'imports': [imp('header_mod', 'jprb')], 'calls': []},
        {'name': 'ext_driver', 'mod': 'ext_driver_mod', 'imports': [imp('ext_kernel_mod', 'jprb', 'ext_kernel')], 'calls': ['ext_kernel']},
        {'name': 'ext_kernel', 'mod': 'ext_kernel_mod', 'imports': [], 'calls': []},
    ]
    return L.normalize_project({'mods': mods, 'procs': procs})


def corpus_paths():
    src = os.path.join(core.REPO, 'loki', 'tests', 'sources')
    a, b = os.path.join(src, 'projA'), os.path.join(src, 'projB')
    return {
        'header_mod': f'{a}/module/header_mod.f90', 'kernela_mod': f'{a}/module/kernelA_mod.F90',
        'kernelb_mod': f'{a}/module/kernelB_mod.F90', 'compute_l1_mod': f'{a}/module/compute_l1_mod.f90',
        'compute_l2_mod': f'{a}/module/compute_l2_mod.f90', 'another_l1': f'{a}/source/another_l1.F90',
        'another_l2': f'{a}/source/another_l2.F90', 'ext_driver_mod': f'{b}/external/ext_driver_mod.f90',
        'ext_kernel': f'{b}/module/ext_kernel.f90',
    }, [a, b]


KA = {  # fixture driverA_dependencies (test_scheduler_graph_simple), closure from kernelA
    'kernela_mod#kernela': ('compute_l1_mod#compute_l1', '#another_l1'),
    'compute_l1_mod#compute_l1': ('compute_l2_mod#compute_l2',), 'compute_l2_mod#compute_l2': (),
    '#another_l1': ('#another_l2', 'header_mod'), '#another_l2': ('header_mod',), 'header_mod': ()}
KB = {  # fixture driverB_dependencies (test_scheduler_graph_multiple_combined), closure from kernelB
    'kernelb_mod#kernelb': ('compute_l1_mod#compute_l1', 'ext_driver_mod#ext_driver'),
    'compute_l1_mod#compute_l1': ('compute_l2_mod#compute_l2',), 'compute_l2_mod#compute_l2': (),
    'ext_driver_mod#ext_driver': ('ext_kernel_mod', 'ext_kernel_mod#ext_kernel'), 'ext_kernel_mod': (),
    'ext_kernel_mod#ext_kernel': ()}

# loki/batch/tests/test_scheduler_dependencies.py::test_scheduler_interface_dependencies (sources inline in the test)
INTF_MOD = """
module test_scheduler_interface_dependencies_mod
    implicit none
    interface my_intf
        procedure proc1
        procedure proc2
    end interface my_intf
contains
    subroutine proc1(arg)
        integer, intent(inout) :: arg
        arg = arg + 1
    end subroutine proc1
    subroutine proc2(arg)
        real, intent(inout) :: arg
        arg = arg + 1.0
    end subroutine proc2
end module test_scheduler_interface_dependencies_mod
"""
INTF_DRIVER = """
subroutine test_scheduler_interface_dependencies_driver
    use test_scheduler_interface_dependencies_mod, only: my_intf
    implicit none
    integer i
    real a
    i = 0
    a = 0.0
    call my_intf(i)
    call my_intf(a)
end subroutine test_scheduler_interface_dependencies_driver
"""
_IM, _ID = 'test_scheduler_interface_dependencies_mod', 'test_scheduler_interface_dependencies_driver'
INTF_EXPECTED = {f'#{_ID}': (f'{_IM}#my_intf',), f'{_IM}#my_intf': (f'{_IM}#proc1', f'{_IM}#proc2'),
                 f'{_IM}#proc1': (), f'{_IM}#proc2': ()}


def intf_corpus(ctx):
    """(project, paths, search paths, entries) of the interface test of the repository."""
    d = os.path.join(ctx.work, 'corpus_intf')
    os.makedirs(d, exist_ok=True)
    paths = {'imod': os.path.join(d, f'{_IM}.F90'), 'idrv': os.path.join(d, f'{_ID}.F90')}
    with open(paths['imod'], 'w') as fh:
        fh.write(INTF_MOD)
    with open(paths['idrv'], 'w') as fh:
        fh.write(INTF_DRIVER)
    proj = L.normalize_project({
        'mods': [{'name': _IM, 'file': 'imod', 'imports': [], 'vars': [], 'ifaces': [{'name': 'my_intf', 'procs': ['proc1', 'proc2']}]}],
        'procs': [{'name': 'proc1', 'mod': _IM, 'imports': [], 'calls': []}, {'name': 'proc2', 'mod': _IM, 'imports': [], 'calls': []},
                  {'name': _ID, 'mod': '', 'file': 'idrv', 'imports': [{'mod': _IM, 'only': ['my_intf']}], 'calls': ['my_intf']}]})
    cfg = L.make_config([_ID], disable=['abort'], routines=[L.routine_entry(_ID, role='driver')])
    return proj, paths, [d], [('interface_dependencies', cfg, INTF_EXPECTED, ())]


CORPUS = [
    # (name, config, expected {item: children}, expected ignored items)
    ('graph_simple/kernelA', L.make_config(['kernela'], disable=['abort']), KA, ()),
    ('graph_simple/kernelA-qualified-seed', L.make_config(['kernela_mod#kernela'], disable=['abort']), KA, ()),
    ('graph_multiple_combined/kernelB', L.make_config(['kernelb_mod#kernelb'], disable=['abort']), KB, ()),
    ('graph_config_file', L.make_config(['compute_l1', 'another_l1'], block=['compute_l2'],
                                        routines=[L.routine_entry('compute_l1', role='driver', expand=True),
                                                  L.routine_entry('another_l1', role='driver', expand=True)]),
     {'compute_l1_mod#compute_l1': (), '#another_l1': ('#another_l2', 'header_mod'), '#another_l2': ('header_mod',),
      'header_mod': ()}, ()),
    ('graph_blocked/kernelA', L.make_config(['kernela'], disable=['abort'], block=['another_l1']),
     {'kernela_mod#kernela': ('compute_l1_mod#compute_l1',), 'compute_l1_mod#compute_l1': ('compute_l2_mod#compute_l2',),
      'compute_l2_mod#compute_l2': ()}, ()),
    ('graph_multiple_separate/kernelB-ignore', L.make_config(
        ['kernelb'], disable=['abort'], routines=[L.routine_entry('kernelb', role='kernel', ignore=['ext_driver'])]),
     KB, ('ext_driver_mod#ext_driver', 'ext_kernel_mod', 'ext_kernel_mod#ext_kernel')),
    ('graph_partial', L.make_config(['compute_l1', 'another_l1'], disable=['abort']),
     {'compute_l1_mod#compute_l1': ('compute_l2_mod#compute_l2',), 'compute_l2_mod#compute_l2': (),
      '#another_l1': ('#another_l2', 'header_mod'), '#another_l2': ('header_mod',), 'header_mod': ()}, ()),
]


# --------------------------------------------------------------------------------------------

def observe(project, config, root, layout_seed, full_parse, enable_imports, plain=False, paths=None, search=None):
    """One run of the real scheduler -> observation record for Trace_Sched."""
    try:
        if paths is None:
            shutil.rmtree(root, ignore_errors=True)
            obs, _, _ = L.run_scheduler(project, config, root, random.Random(layout_seed), full_parse=full_parse,
                                        enable_imports=enable_imports, plain=plain)
        else:
            cfg_dict, seeds = L.render_config(config, L.Layout(plain=True), enable_imports=enable_imports)
            sched = L.build_scheduler(None, cfg_dict, seeds, full_parse, paths=search)
            obs = L.project_graph(sched, paths)
        obs = {'items': obs['items'], 'edges': obs['edges'], 'raised': ''}
    except Exception as e:  # pylint: disable=broad-except
        obs = {'items': [], 'edges': [], 'raised': f'{type(e).__name__}: {str(e)[:200]}'}
    return obs


def key_class(project, k):
    s = k['s'] if isinstance(k, dict) else k
    if '*' in s or '?' in s:
        return 'pattern'
    if '#' in s:
        return 'scoped'
    if any(s == m['name'] for m in project['mods']):
        return 'module'
    if any(s in m['vars'] for m in project['mods']):
        return 'var'
    return 'plain'


def signature(project, config):
    """Normal form of a (shrunk) case: structure only, names abstracted."""
    P, C = project, config
    styles = set()
    for owner, lst in [('r', [i for p in P['procs'] for i in p['imports']]), ('m', [i for m in P['mods'] for i in m['imports']])]:
        for i in lst:
            styles.add(('only' if i['only'] else 'unq') + '_' + owner)
    cfg = []
    for f in ('disable', 'block', 'ignore'):
        for k in C[f]:
            cfg.append(f'default.{f}:{key_class(P, k)}')
    if not C['expand']:
        cfg.append('default.noexpand')
    for r in C['routines']:
        rk = 'scoped' if '#' in r['key'] else ('module' if any(r['key'] == m['name'] for m in P['mods']) else 'plain')
        if r['hasExpand']:
            cfg.append(f'routine[{rk}].expand={str(r["expand"]).lower()}')
        for f in ('disable', 'block', 'ignore'):
            if r['has' + f.capitalize()]:
                cfg.append(f'routine[{rk}].{f}:' + ('+'.join(sorted({key_class(P, k) for k in r[f]})) or 'empty'))
    selfrec = int(any(p['name'] in p['calls'] for p in P['procs']))
    # the same local procedure name in two scopes: none | scope (different files) | file (two modules of one file)
    dup = 'none'
    for i, p in enumerate(P['procs']):
        for q in P['procs'][i + 1:]:
            if p['name'] == q['name']:
                dup = 'file' if p['file'] == q['file'] else (dup if dup == 'file' else 'scope')
    ifc = int(any(m.get('ifaces') for m in P['mods']))
    seeds = ''.join('q' if s['q'] else 'p' for s in C['seeds'])
    return (f"np={len(P['procs'])}:nm={len(P['mods'])}:free={sum(1 for p in P['procs'] if not p['mod'])}:"
            f"imp={'+'.join(sorted(styles)) or 'none'}:self={selfrec}:dup={dup}:ifc={ifc}:seeds={seeds}:cfg={','.join(sorted(cfg)) or 'none'}")


def reductions(project, config):
    """One-step simplifications of a case (for shrinking a rejected case)."""
    P, C = project, config
    out = []

    def cp():
        return json.loads(json.dumps(P)), json.loads(json.dumps(C))
    # bulk reductions first
    if C['routines']:
        p2, c2 = cp()
        c2['routines'] = []
        out.append((p2, c2))
    for f in ('disable', 'block', 'ignore'):
        if len(C[f]) > 1 or (C[f] and (C['routines'] or any(C[g] for g in ('disable', 'block', 'ignore') if g != f))):
            p2, c2 = cp()
            c2[f] = []
            out.append((p2, c2))
    if len(C['seeds']) > 1:
        p2, c2 = cp()
        c2['seeds'] = c2['seeds'][:1]
        out.append((p2, c2))
    if any(m['imports'] for m in P['mods']):
        p2, c2 = cp()
        for m in p2['mods']:
            m['imports'] = []
        out.append((p2, c2))
    for i, p in enumerate(P['procs']):
        if len(P['procs']) > 1:
            p2, c2 = cp()
            dead = p2['procs'].pop(i)
            for q in p2['procs']:
                q['calls'] = [c for c in q['calls'] if c != dead['name']]
            for holder in p2['procs'] + p2['mods']:
                keep = []
                for im in holder['imports']:
                    if im['mod'] == dead['mod'] and dead['name'] in im['only']:
                        im['only'] = [s for s in im['only'] if s != dead['name']]
                        if not im['only']:
                            continue     # the ONLY list became empty: drop the statement
                    keep.append(im)
                holder['imports'] = keep
            c2['seeds'] = [s for s in c2['seeds'] if s['local'] != dead['name']]
            if c2['seeds']:
                out.append((p2, c2))
        for j in range(len(p['calls'])):
            p2, c2 = cp()
            p2['procs'][i]['calls'].pop(j)
            out.append((p2, c2))
        for j in range(len(p['imports'])):
            p2, c2 = cp()
            p2['procs'][i]['imports'].pop(j)
            out.append((p2, c2))
            if len(p['imports'][j]['only']) > 1:
                for k in range(len(p['imports'][j]['only'])):
                    p2, c2 = cp()
                    p2['procs'][i]['imports'][j]['only'].pop(k)
                    out.append((p2, c2))
    for i, m in enumerate(P['mods']):
        if not any(p['mod'] == m['name'] for p in P['procs']):
            p2, c2 = cp()
            p2['mods'].pop(i)
            out.append((p2, c2))
        for j in range(len(m['imports'])):
            p2, c2 = cp()
            p2['mods'][i]['imports'].pop(j)
            out.append((p2, c2))
        # turn a module procedure into a free one is not a reduction; drop variables instead
        if len(m['vars']) > 1:
            p2, c2 = cp()
            p2['mods'][i]['vars'].pop()
            out.append((p2, c2))
    for f in ('disable', 'block', 'ignore'):
        for j in range(len(C[f])):
            p2, c2 = cp()
            c2[f].pop(j)
            out.append((p2, c2))
    for j, r in enumerate(C['routines']):
        p2, c2 = cp()
        c2['routines'].pop(j)
        out.append((p2, c2))
        for f in ('disable', 'block', 'ignore'):
            for k in range(len(r[f])):
                if len(r[f]) > 1:
                    p2, c2 = cp()
                    c2['routines'][j][f].pop(k)
                    out.append((p2, c2))
    if len(C['seeds']) > 1:
        for j in range(len(C['seeds'])):
            p2, c2 = cp()
            c2['seeds'].pop(j)
            out.append((p2, c2))
    if not C['expand']:
        p2, c2 = cp()
        c2['expand'] = True
        out.append((p2, c2))
    return out


def report_rejections(ctx, rejected, runs, key_of, what_of, shrinker):
    """Turn rejected cases into ctx.violation calls.  rejected: {coarse class: [run index]}.
    Per class the smallest cases are shrunk (greedy, TLC decides) unless the class is already explained by the
    committed known findings (then the unshrunk normal form is reported as it is)."""
    import re
    known = [k for k in core.load_known() if k.get('property') == ctx.pid and k.get('status', 'open') == 'open']

    def is_known(key):
        return any(re.fullmatch(k['match'], key) for k in known)
    todo = {}
    for cc, idxs in rejected.items():
        idxs.sort(key=lambda i: len(json.dumps(runs[i][0]['P'])) + len(json.dumps(runs[i][0]['C'])))
        if all(is_known(key_of(cc, runs[i][0])) for i in idxs):
            continue
        for i in idxs[:(1 if ctx.quick else 3)]:
            todo[i] = (runs[i][0], cc)
    shrunk = shrinker(todo, 8 if ctx.quick else 16) if todo and not ctx.replay else {}
    for cc, idxs in rejected.items():
        for i in idxs:
            case, t = runs[i]
            small_case = shrunk.get(i, case)
            ctx.violation(key_of(cc, small_case), what_of(i, case, t, 'shrunk' if i in shrunk else 'not shrunk'),
                          {k: v for k, v in small_case.items() if k != 'origin'})


def coarse_class(clause, obs):
    """Clause reported by TLC, refined by the recorded exception type for `raised`."""
    if clause == 'raised':
        return f"raised[{obs['raised'].split(':')[0]}]"
    return clause


def shrink_many(ctx, todo, max_rounds, observe_fn=None, spec='Trace_Sched', extra=None, budget_s=None):
    """Greedy shrinking of several rejected cases at once (one TLC batch per round for all of them):
    a one-step reduction is kept if the real scheduler is still rejected with the same clause.
    todo: {tag: (case, coarse class)} -> {tag: shrunk case}"""
    observe_fn = observe_fn or (lambda P, C, case, root: observe(P, C, root, 0, case['fp'], case['ei'], plain=True))
    cur = {tag: dict(case, P={k: v for k, v in case['P'].items() if k != 'chars'}, layout=0, plain=True)
           for tag, (case, _) in todo.items()}
    active = set(todo)
    deadline = time.time() + (budget_s or (45 if ctx.quick else 400))
    for rnd in range(max_rounds):
        if time.time() > deadline:
            break
        batch, owner = [], []
        for tag in sorted(active):
            case = cur[tag]
            for n, (p2, c2) in enumerate(reductions(case['P'], case['C'])[:60]):
                p2 = L.normalize_project(p2)
                root = os.path.join(ctx.work, f'shr_{rnd}_{len(batch)}')
                obs = observe_fn(p2, c2, case, root)
                shutil.rmtree(root, ignore_errors=True)
                t = {'P': L.tla_project(p2), 'C': c2, 'obs': obs}
                if extra:
                    t.update(extra(case))
                batch.append(t)
                owner.append((tag, p2, c2))
        if not batch:
            break
        verdicts, _ = core.validate_batch(spec, spec, batch, workdir=ctx.work, per_shard_min=40)
        progressed = set()
        for n, (tag, p2, c2) in enumerate(owner):
            if tag in progressed:
                continue
            ok, cl = verdicts[n][0], verdicts[n][1]
            if not ok and coarse_class(cl, batch[n]['obs']) == todo[tag][1]:
                cur[tag] = dict(cur[tag], P=p2, C=c2)
                progressed.add(tag)
        active = progressed
        if not active:
            break
    return cur


# --------------------------------------------------------------------------------------------

def mc_cfg(ctx):
    path = os.path.join(ctx.work, 'MC_SchedPopulate_run.cfg')
    with open(os.path.join(SPEC, 'MC_SchedPopulate.cfg')) as fh:
        text = fh.read()
    text = text.replace('Tier = "quick"', f'Tier = "{ctx.tier}"')
    with open(path, 'w') as fh:
        fh.write(text)
    return path


def run(ctx):
    quick = ctx.quick
    phases = {}
    ctx.cover['phase_wall_s'] = phases
    # ---- 1. design-level model checking
    if not (os.environ.get('VERIF_SKIP_MC') or ctx.replay):   # VERIF_SKIP_MC: development only (mutation runs); replay: one case only
        ctx.mc('MC_SchedPopulate', mc_cfg(ctx), timeout=1500,
               required_actions=('Pick3', 'MSeed', 'MPopChild'))

    phases['model_checking'] = round(ctx.elapsed(), 1)
    runs = []   # (case dict for replay, trace case)

    def add(project, config, fp, ei, layout, plain=False, origin='', paths=None, search=None):
        root = os.path.join(ctx.work, f'case{len(runs)}')
        obs = observe(project, config, root, layout, fp, ei, plain=plain, paths=paths, search=search)
        if paths is None and not os.environ.get('VERIF_KEEP'):
            shutil.rmtree(root, ignore_errors=True)
        runs.append(({'P': project, 'C': config, 'fp': fp, 'ei': ei, 'layout': layout, 'plain': plain, 'origin': origin},
                     {'P': L.tla_project(project), 'C': config, 'obs': obs}))
        return obs

    if ctx.replay:
        c = ctx.replay['case']
        add(L.normalize_project(c['P']), L.normalize_config(c['C']), c['fp'], c['ei'], c.get('layout', 0), c.get('plain', False), 'replay')
    else:
        # ---- 2. validation corpus: the repository's own projects and hand-written expectations
        cpaths, search = corpus_paths()
        for cproj, cpaths, search, entries in [(corpus_project(), cpaths, search, CORPUS), intf_corpus(ctx)]:
            kinds = {L.full_name(p_): ('proc', p_['file']) for p_ in cproj['procs']}
            for m_ in cproj['mods']:
                kinds[m_['name']] = ('mod', m_['file'])
                for i_ in m_['ifaces']:
                    kinds[f"{m_['name']}#{i_['name']}"] = ('intf', m_['file'])
            for name, cfg, expected, ignored in entries:
                # (a) the hand-written expectation of the repository test, fed to TLC as if it had been observed:
                #     the specification must accept it (otherwise the spec is wrong: machinery error)
                items = [{'name': n, 'kind': kinds[n][0], 'ignored': n in ignored, 'file': kinds[n][1]} for n in expected]
                edges = [[a, b] for a, bs in expected.items() for b in bs]
                runs.append(({'P': cproj, 'C': cfg, 'fp': True, 'ei': True, 'layout': 0, 'plain': True, 'origin': f'corpus-expectation:{name}'},
                             {'P': L.tla_project(cproj), 'C': cfg, 'obs': {'items': items, 'edges': edges, 'raised': ''}}))
                # (b) the real scheduler on the repository's files
                for fp in (False, True):
                    add(cproj, cfg, fp, True, 0, True, f'corpus:{name}', paths=cpaths, search=search)
        ncorpus = len(runs)
        # ---- 3. TLC-enumerated small projects x config lattice
        small = []
        for np_, n in ((3, 40 if quick else 300), (4, 60 if quick else 700)):
            small += L.gen_small(ctx, n, np_, ifaces=True)
        for i, c in enumerate(small):
            P, C = L.normalize_project(c['P']), L.normalize_config(c['C'])
            for fp in (False, True):
                add(P, C, fp, (i + int(fp)) % 3 != 0, ctx.seed * 7919 + i, plain=(i % 5 == 0), origin=f'tlc:so={c["so"]}:po={c["po"]}:st={c["st"]}')
        # ---- 4. seeded larger projects
        legal, yield_ = L.seeded_pairs(ctx, 50 if quick else 600, ifaces=True)
        ctx.cover['seeded_candidates_legal'] = yield_
        for i, (P, C) in enumerate(legal):
            for fp in (False, True):
                for ei in ((True, False) if i % 2 == 0 else (True,)):
                    add(P, C, fp, ei, ctx.seed * 104729 + i * 2 + int(fp), origin='seeded')
        ctx.cover['cases'] = {'corpus': ncorpus, 'tlc_small': 2 * len(small), 'seeded': len(runs) - ncorpus - 2 * len(small)}

    phases['generate_and_run_loki'] = round(ctx.elapsed() - sum(phases.values()), 1)
    # ---- 5. TLC decides
    verdicts = ctx.validate('Trace_Sched', 'Trace_Sched', [t for _, t in runs], per_shard_min=40)
    phases['trace_validation'] = round(ctx.elapsed() - sum(phases.values()), 1)
    clauses = {}
    bfs = 0
    nonempty = 0
    features = set()
    rejected = {}
    for i, (case, t) in enumerate(runs):
        ok, clause, pos = verdicts[i]
        clauses[clause] = clauses.get(clause, 0) + 1
        if clause == 'illegal-input':
            raise MachineryError(f'illegal input reached validation: {json.dumps(case)[:600]}')
        if ok:
            bfs += pos if not case['origin'].startswith('corpus-expectation') else 1   # (hand-written lists are unordered)
            nonempty += len(t['obs']['edges']) > 0
            features.add((len(t['obs']['items']), len(t['obs']['edges']), sum(i_['ignored'] for i_ in t['obs']['items']),
                          sum(i_['kind'] == 'mod' for i_ in t['obs']['items'])))
            continue
        if case['origin'].startswith('corpus-expectation'):
            raise MachineryError(f'validation corpus: the specification rejects what the repository tests expect: '
                                 f'{case["origin"]} clause {clause}')
        rejected.setdefault(coarse_class(clause, t['obs']), []).append(i)
    report_rejections(ctx, rejected, runs,
                      key_of=lambda cc, case: f"{cc}:{signature(case['P'], case['C'])}",
                      what_of=lambda i, case, t, was: (
                          f'real Scheduler graph rejected by Trace_Sched clause `{verdicts[i][1]}` (full_parse={case["fp"]}, '
                          f'enable_imports={case["ei"]}, origin {case["origin"]}, {was}); observed {json.dumps(t["obs"])[:300]}'),
                      shrinker=lambda todo, rounds: shrink_many(ctx, todo, rounds))
    phases['shrinking'] = round(ctx.elapsed() - sum(phases.values()), 1)
    ctx.cover['clauses'] = clauses
    ctx.cover['bfs_order_consistent'] = f'{bfs}/{sum(1 for i in range(len(runs)) if verdicts[i][0])}'
    ctx.cover['graphs_with_edges'] = nonempty
    ctx.cover['distinct_graph_shapes(nodes,edges,ignored,modules)'] = len(features)
    for idx in (0, len(runs) // 2, len(runs) - 1):
        case, t = runs[idx]
        ctx.sample({'origin': case['origin'], 'full_parse': case['fp'], 'procs': [L.full_name(p) for p in case['P']['procs']],
                    'seeds': case['C']['seeds'], 'items': [i_['name'] for i_ in t['obs']['items']], 'n_edges': len(t['obs']['edges'])})
    ctx.assumptions += [
        'modelled fragment: modules (module-level USE, module variables, contained subroutines), free subroutines, USE with/without '
        'ONLY in procedures, CALL incl. self recursion; config: seeds (plain/qualified), default + per-routine expand/disable/block/'
        'ignore with plain, scoped, module-name, variable-name and fnmatch (*,?) keys',
        'not modelled / never generated: derived types, type-bound procedures, interfaces, functions and inline calls, internal '
        'procedures, renamed imports, missing (external) modules or procedures, mutual recursion, strict=false, ambiguous seeds, '
        'interfaces other than generic module interfaces referenced through USE..ONLY in the caller, '
        'two routine entries selecting one item',
        'inputs must have an acyclic item graph, file graph and module USE graph (the scheduler sorts topologically)',
        'is_ignored: any value justified by some parent (seeds: false) is accepted where parents disagree (undocumented)',
        'insertion order of Scheduler.items is reported (bfs_order_consistent) but not part of the property',
        'TLC and the TLA+ modules are trusted; python renders, runs Loki and records only',
    ]


def selftest(ctx):
    """Binding check: accepted traces of the real scheduler must be rejected once a recorded field is corrupted."""
    cproj = corpus_project()
    cpaths, search = corpus_paths()
    base = []
    for name, cfg, _, _ in CORPUS[:4]:
        obs = observe(cproj, cfg, None, 0, True, True, plain=True, paths=cpaths, search=search)
        base.append({'P': L.tla_project(cproj), 'C': cfg, 'obs': obs})
    cases, expect = [], []
    for b in base:
        cases.append(b)
        expect.append('ok')
        for what in ('drop-edge', 'rename-item', 'flip-ignored', 'drop-item', 'add-edge', 'wrong-file'):
            o = json.loads(json.dumps(b['obs']))
            if what == 'drop-edge' and o['edges']:
                o['edges'].pop()
            elif what == 'rename-item':
                o['items'][-1]['name'] += 'x'
            elif what == 'flip-ignored':
                o['items'][0]['ignored'] = not o['items'][0]['ignored']
            elif what == 'drop-item':
                victim = o['items'].pop()['name']
                o['edges'] = [e for e in o['edges'] if victim not in e]
            elif what == 'add-edge' and len(o['items']) > 1:
                o['edges'].append([o['items'][-1]['name'], o['items'][0]['name']])
            elif what == 'wrong-file':
                o['items'][0]['file'] = 'nowhere'
            else:
                continue
            cases.append({'P': b['P'], 'C': b['C'], 'obs': o})
            expect.append('reject')
    verdicts = ctx.validate('Trace_Sched', 'Trace_Sched', cases)
    bad = [(i, verdicts[i]) for i in range(len(cases)) if (verdicts[i][0]) != (expect[i] == 'ok')]
    if bad:
        print(f'SELFTEST-FAILED C21: {bad[:5]}')
        return 2
    print(f'SELFTEST-OK C21: {expect.count("ok")} accepted traces, {expect.count("reject")} corrupted copies rejected '
          f'({sorted({verdicts[i][1] for i in range(len(cases)) if expect[i] == "reject"})})')
    return 0
