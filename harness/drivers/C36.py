"""C36 Fortran-to-Python transpilation preserves behaviour.

spec: FMachine evaluated by TLC through Trace_Transpile: for every generated routine of the Python-transpilable
      subset and every sampled input, the results of the generated Python function (run in a fresh interpreter,
      arguments as in the repository tests: numpy arrays in Fortran order, numpy scalars; scalar out/inout dummies are
      returned) must equal Run(program, input).out: integers and logicals exactly, reals as exact rationals
      (all real values are dyadic, so "equal up to the precision of the declared kind" is plain equality).
      Pre-flight: gfortran on the ORIGINAL routine must agree with the machine.
pools: `core` = constructs the Python back end is expected to translate; each other pool adds one construct."""
from .. import lib_fm_transpile as T

CORE = ('intfn', 'ipow', 'while', 'boundmod', 'step', 'mod', 'intcast', 'exitcycle', 'rpow', 'varstep')
POOLS = ('core', 'lb', 'lvafter', 'idiv', 'sign', 'conv', 'select', 'section')
QUICK = {'core': 27, '*': 4}
THOROUGH = {'core': 240, '*': 14}

ASSUMPTIONS = [
    'Python-transpilable subset generated: stand-alone subroutine, integer / real(real64) / logical scalars with every intent, 1-d and 2-d '
    'explicit-shape arrays, DO loops (literal strides and strides given by an integer input taking both signs), DO WHILE, EXIT/CYCLE, IF/ELSE IF/ELSE, '
    'MIN/MAX/ABS, MOD, INT(), ** with integer exponents (real powers also as numerators, factors and denominators of divisions); one pool each adds: lower bounds '
    'other than 1, strides that do not hit the bound, DO variable read after the loop, integer division, MOD, SIGN, implicit real->integer '
    'conversion, INT(), SELECT CASE, EXIT/CYCLE, array sections',
    'only the numeric VALUE of a result is compared (python int / float / numpy scalar are not distinguished: an integer result delivered as '
    '3.0 is accepted); reals are dyadic rationals, so float64 arithmetic is exact and the comparison is exact equality of rationals '
    '(the property\'s "up to the precision of the declared kind" coincides with equality on these inputs)',
    'integer magnitudes stay below 30000: numpy int32 wrap-around is out of scope; real32, derived types, calls, transcendental intrinsics, '
    'the DaCe variant and invert_indices=True are not exercised',
    'calling convention as in loki/backend/tests/test_pygen.py: all dummies except scalar intent(out) are passed, scalar inout/out dummies are returned',
]


def run(ctx):
    if not ctx.replay:
        ctx.mc('MC_Transpile', 'MC_Transpile', timeout=600, coverage=False)
    T.run_property(ctx, 'f2py', T.f2py_transform, T.f2py_execute_batch, CORE, POOLS, QUICK, THOROUGH, ASSUMPTIONS)
