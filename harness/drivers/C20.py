"""C20 Recorded source locations match the original text.

spec: SrcLoc.tla      (file = lines; node = [l0, l1, text]; NodeClause: span inside the file, line count,
                       text = contiguous piece of the joined lines l0..l1 touching every line)
      MC_SrcLoc       (design-level: every cut of a small file accepted; shifted / shortened / corrupted rejected)
      Trace_SrcLoc    (TLC decides every node of every recorded IR)
Real code: Sourcefile.from_source / from_file with Frontend.FP and Frontend.REGEX, and REGEX followed by
           make_complete(frontend=FP); Source objects built by FParser2IR.get_source and FortranReader.
"""
import glob
import json
import os
import random

from .. import core
from ..core import MachineryError
from .. import lib_regexdisc as L
from .C19 import seeded_file


def walk(node, out):
    """All IR nodes (program units, sections, statements, nested bodies), own traversal."""
    from loki import ProgramUnit, ir
    if node is None:
        return
    if isinstance(node, (tuple, list)):
        for c in node:
            walk(c, out)
        return
    if isinstance(node, ProgramUnit):
        out.append(node)
        for sec in (node.docstring, node.spec, getattr(node, 'body', None), node.contains):
            walk(sec, out)
        return
    if not isinstance(node, ir.Node):
        return
    out.append(node)
    if isinstance(node, ir.CommentBlock):
        walk(node.comments, out)
        return
    if isinstance(node, ir.Interface):
        walk(node.body, out)
        return
    if isinstance(node, ir.TypeDef):
        walk(node.body, out)
        return
    for c in node.children:
        walk(c, out)


def record(text, frontend, path=None):
    """Parse with the real frontend and record [kind, l0, l1, text lines] of every node with a Source."""
    from loki import Sourcefile
    from loki.frontend import FP, REGEX
    if frontend == 'fp':
        sf = Sourcefile.from_file(path, frontend=FP) if path else Sourcefile.from_source(text, frontend=FP)
    elif frontend == 'regex':
        sf = Sourcefile.from_file(path, frontend=REGEX) if path else Sourcefile.from_source(text, frontend=REGEX)
    else:
        sf = Sourcefile.from_file(path, frontend=REGEX) if path else Sourcefile.from_source(text, frontend=REGEX)
        sf.make_complete(frontend=FP)
    nodes = []
    walk(sf.ir, nodes)
    out = []
    nosrc = 0
    seen = set()
    for n in nodes:
        if id(n) in seen:
            continue
        seen.add(id(n))
        s = getattr(n, 'source', None)
        if s is None or s.string is None:
            nosrc += 1
            continue
        out.append({'kind': type(n).__name__, 'l0': int(s.lines[0]), 'l1': int(s.lines[1] or 0),
                    'text': s.string.split('\n')})
    return out, nosrc


BODY_SNIPPETS = [
    ['do i = 1, 3', '  x = x + i', 'end do'],
    ['if (x > 1) then', '  x = 1', 'else if (x < -1) then', '  x = -1', 'else', '  x = 0', 'end if'],
    ['if (x > 2) x = 2'],
    ['x = x + &', '  & 1 + &', '  ! interleaved comment', '  & 2'],
    ['x = 1; y = 2   ! two statements'],
    ['select case (x)', 'case (1)', '  y = 1', 'case default', '  y = 0', 'end select'],
    ["print *, 'a long &", "   &string', x"],
    ['where (a > 0)', '  a = 1', 'elsewhere', '  a = 0', 'end where'],
    ['associate (z => x)', '  y = z', 'end associate'],
    ['do while (x < 3)', '  x = x + 1', 'end do'],
    ['10 continue'],
    ['!$loki some pragma', 'do i = 1, 2', '  a(i) = i', 'end do', '!$loki end some pragma'],
    ['call ext(x, &', '       y)'],
    ['! a comment', '! block', '', '! another'],
    ['a(:) = 0', 'y = sum(a) ; x = y'],
    ['forall (i = 1:3) a(i) = i'],
    ['write(*, *) x, &', "  & 'text'  ! trailing"],
]


def body_program(rng):
    """A statement-rich routine (loops, conditionals, continuation, `;`, comments, labels, pragmas)."""
    lead = rng.choice([[], [''], ['', ''], ['! leading comment'], ['', '! leading comment', '']])
    lines = list(lead)
    ind = rng.choice(['', '  ', '    '])
    wrap = rng.random() < 0.5
    if wrap:
        lines += ['module bm', 'implicit none', 'integer :: gv', 'contains']
    lines += [ind + 'subroutine body(x, y)', ind + '  integer, intent(inout) :: x, y', ind + '  integer :: i, a(3)']
    for sn in rng.sample(BODY_SNIPPETS, rng.randint(3, 8)):
        if rng.random() < 0.3:
            lines.append('')
        lines += [(ind + '  ' + s) if s and not s.startswith('10 ') else s for s in sn]
    lines += [ind + 'end subroutine body']
    if wrap:
        lines += ['end module bm']
    lines += rng.choice([[], [''], ['! trailing comment'], ['', '']])
    return '\n'.join(lines) + rng.choice(['\n', ''])


def repo_sources():
    pats = ['**/*.f90', '**/*.F90', '**/*.f', '**/*.F']
    files = set()
    for p in pats:
        files |= set(glob.glob(os.path.join(core.REPO, p), recursive=True))
    return sorted(f for f in files if '/build/' not in f and '/.git/' not in f)


def needs_cpp(text):
    return any(l.lstrip().startswith('#') for l in text.split('\n'))


def run(ctx):
    quick = ctx.quick
    rng = ctx.rng
    if not ctx.replay:
        ctx.mc('MC_SrcLoc', 'MC_SrcLoc', timeout=600, workers=2, coverage=False)
    items = []   # (origin, frontend, text, path)
    frontends = ['fp', 'regex', 'regex-complete']
    if ctx.replay:
        c = ctx.replay['case']
        items.append((c['origin'], c['frontend'], c['text'], None))
    else:
        # generated programs: abstract files of C19 under layout knobs + statement-rich bodies
        ngen, nbody = (12, 16) if quick else (150, 200)
        knobsets = [[], ['blank'], ['cont'], ['semi'], ['comments'], ['labels'], ['strings'], ['cont', 'comments', 'blank'],
                    ['semi', 'labels', 'upper'], ['cont', 'semi', 'comments', 'strings', 'labels', 'blank']]
        for i in range(ngen):
            f = seeded_file(rng)
            ks = knobsets[i % len(knobsets)]
            text = L.render(f, ks, rng.randrange(1 << 30))
            for fe in frontends:
                items.append((f'generated:layout={"+".join(ks) or "plain"}', fe, text, None))
        for i in range(nbody):
            text = body_program(rng)
            for fe in frontends:
                items.append(('generated:body', fe, text, None))
        # repository sources that parse without preprocessing
        skipped = 0
        files = repo_sources()
        if quick:
            files = rng.sample(files, min(40, len(files)))
        for p in files:
            with open(p, errors='replace') as fh:
                text = fh.read()
            if needs_cpp(text) or p.endswith('.F') or p.endswith('.f'):
                skipped += 1
                continue
            for fe in frontends:
                items.append(('repo:' + os.path.relpath(p, core.REPO), fe, text, p))
        ctx.cover['repo_sources_skipped_cpp_or_fixed_form'] = skipped
    cases, meta = [], []
    failed_parse = 0
    total_nodes = nosrc_total = 0
    kinds = set()
    for origin, fe, text, path in items:
        try:
            nodes, nosrc = record(text, fe, path)
        except Exception as e:  # pylint: disable=broad-except
            if origin.startswith('generated') and fe == 'fp':
                raise MachineryError(f'C20 generator produced a program the FP frontend rejects: {e}\n{text}') from e
            failed_parse += 1
            continue
        total_nodes += len(nodes)
        nosrc_total += nosrc
        kinds |= {(fe, n['kind']) for n in nodes}
        cases.append({'lines': text.split('\n'), 'nodes': nodes})
        meta.append((origin, fe, text))
    verdicts = ctx.validate('Trace_SrcLoc', 'Trace_SrcLoc', cases, timeout=1200, per_shard_min=10)
    for i, (origin, fe, text) in enumerate(meta):
        ok, _first, n = verdicts[i][:3]
        if ok:
            continue
        lead_blank = text.startswith('\n') or text.startswith(' \n') or text.split('\n')[0].strip() == ''
        for k in range(1, n + 1):
            _f, clause_kind, idx = verdicts[f'{i}#{k}'][:3]
            node = cases[i]['nodes'][idx - 1]
            # normal form: frontend path, clause (+ shifted/changed diagnosis), node kind; files that start with
            # blank lines are marked for the regex reader (its line numbers are then shifted as a whole)
            key = f'{fe}:{clause_kind}' + (':leading-blank-lines' if lead_blank and fe != 'fp' else '')
            lo = node['l0']
            ctx.violation(key, f"{origin} [{fe}]: node {node['kind']} records lines ({node['l0']}, {node['l1']}) text "
                               f"{node['text'][:3]} but the file has {cases[i]['lines'][lo - 1:lo + 2] if lo >= 1 else '?'}"
                               f" there (clause {clause_kind})",
                          {'origin': origin, 'frontend': fe, 'text': text})
    ctx.cover['files_x_frontends'] = len(cases)
    ctx.cover['nodes_validated'] = total_nodes
    ctx.cover['nodes_without_source'] = nosrc_total
    ctx.cover['distinct_frontend_nodekind'] = len(kinds)
    ctx.cover['parse_failures_skipped'] = failed_parse
    ctx.cover['violation_keys'] = sorted({v.key for v in ctx.violations})
    if meta:
        ctx.sample({'origin': meta[0][0], 'frontend': meta[0][1], 'first_nodes': cases[0]['nodes'][:3]})
        ctx.sample({'origin': meta[-1][0], 'frontend': meta[-1][1], 'first_nodes': cases[-1]['nodes'][:2]})
    ctx.assumptions += [
        'every IR node with a Source (program units, sections, statements, comments, nested bodies, interface and '
        'type bodies) for FP, REGEX and REGEX followed by make_complete(FP)',
        'lines are the `\\n`-separated lines of the text handed to the frontend; l1=None is read as l0 + #lines - 1',
        'out of scope: files with preprocessor directives (cpp needed), fixed-form sources; nodes without Source / string',
        'a statement sharing its line (`;`, inline IF) may record the whole line or any contiguous part of it',
    ]
