"""C38 Temporary hoisting and stack/pool allocation preserve behaviour (with enough storage).

spec: FMachine (MiniFortran reference machine) + Trace_FMachine.  Call trees kernel (driver role) -> k1 [k2] -> n1 / n2 with
      automatic temporaries of several ranks, types, kind names and size expressions (harness/lib_fm_scc.GenSCC) are
      transformed through the real Scheduler by HoistTemporaryArraysAnalysis + HoistVariablesTransformation (+ allocatable
      variant), TemporariesPoolAllocatorTransformation, FtrPtrStackTransformation, DirectIdxStackTransformation and
      TemporariesRawStackTransformation.  The gfortran build of the transformed module must print exactly
      Run(program, input).out as evaluated by TLC.  "Enough storage": the transformed code is built with
      -fcheck=bounds -fsanitize=address and the pool allocator's own stack check (generated STOP) is observed - any
      overrun of the hoisted arrays / stacks is a failure.
"""
from .. import lib_fm as F
from .. import lib_fm_scc as S
from ..core import MachineryError

BASE = ('nested', 'twokernels', 'twocalls', 'kinds', 'vecnot')
FSETS = [BASE + ('free',), BASE + ('free', 'sizes'), BASE + ('carry',), BASE + ('free', 'sizes', 'drvloop')]
# the *-asis variants (no CONTIGUOUS normalisation) are only exercised on a few programs: they fail at compile time
ASIS = ('ftrptr-asis', 'directidx-asis')


CORPUS_PICK = {'corpus-sizes': ['hoist', 'hoist-alloc', 'pool', 'ftrptr-pad', 'directidx-pad', 'raw'],
               'corpus-whole': ['directidx-pad', 'ftrptr-pad', 'pool-locrhs', 'raw', 'hoist-kw'],
               'corpus-passthrough': ['raw', 'pool-nocheck', 'ftrptr', 'directidx', 'ftrptr-asis', 'directidx-asis']}


# multisize stratum: one kernel called 2-3x from the same caller (driver / nested kernel) with different size actuals
MULTISIZE_PICK = {'multisize-drv-asc': ['pool', 'pool-nocheck', 'ftrptr-pad', 'raw', 'hoist'],
                  'multisize-nest-asc': ['pool', 'pool-locrhs', 'directidx-pad', 'raw', 'hoist-alloc'],
                  'multisize-both': ['pool', 'pool-nocheck', 'pool-locrhs', 'ftrptr-pad', 'directidx-pad'],
                  'multisize-control': ['pool', 'pool-nocheck', 'directidx-pad', 'raw', 'hoist-alloc-kw']}
CORPUS_PICK.update(MULTISIZE_PICK)


def gen_cases(ctx, n):
    cases = S.corpus('C38', ctx.rng) + S.multisize_cases(ctx.rng)
    for i in range(n):
        g = S.GenSCC(ctx.rng, FSETS[i % len(FSETS)], names='ifs' if i % 3 else 'alt')
        prog = g.program(nblocks=ctx.rng.randint(2, 4))
        if i % 4 == 3:
            prog['jwim8'] = True      # the stack transformations' default integer kind JWIM differs from the callers' kind
        cases.append((prog, g.inputs(prog, 3)))
    return cases


def run(ctx):
    variants = list(S.C38_VARIANTS)
    main = [v for v in variants if v not in ASIS]
    if ctx.replay:
        c = ctx.replay['case']
        cases = [(c['prog'], c['inputs'])]
        pick = {0: [c['variant']] if c.get('variant') else variants}
    else:
        n, per = (5, 6) if ctx.quick else (40, 6)
        cases = gen_cases(ctx, n)
        pick = {}
        for i, (prog, _) in enumerate(cases):
            pick[i] = CORPUS_PICK.get(prog['features'][0]) or [main[(i * per + j) % len(main)] for j in range(per)]
    results, fails, legal = S.behaviour_check_multi(ctx, 'tmp', cases, variants, S.transform_c38, pick=pick)
    S.report_failures_multi(ctx, 'C38', cases, results, fails, S.transform_c38, shrink=not ctx.replay,
                            budget=3 if ctx.quick else 10, shrink_all=not ctx.quick)
    # vacuity guard: every multisize stratum must have had its reserved stack size judged against the high-water mark
    # (spec/Trace_StackBound) for at least one pool-allocator variant
    ms = {}
    for r in results:
        prog = cases[r['idx']][0]
        if prog.get('stratum') == 'multisize' and r['idx'] in legal:
            ms[prog['features'][0]] = {'sizes': prog['msize'],
                                       'storage_judged': sorted(v for v, stk in r['stack'].items() if any(stk[k] for k in legal[r['idx']]))}
    ctx.cover['multisize'] = ms
    if not ctx.replay:
        for tag in MULTISIZE_PICK:
            if not any(v.startswith('pool') for v in ms.get(tag, {}).get('storage_judged', [])):
                raise MachineryError(f'vacuity: no pool-allocator stack size was judged for stratum {tag}: {ms.get(tag)}')
    ctx.cover['programs_with_legal_inputs'] = len(legal)
    ctx.cover['variants_exercised'] = sorted({v for r in results for v in r['new']})
    ctx.cover['variant_runs_ok'] = {v: sum(1 for r in results if r['new'].get(v, ('',))[0] == 'ok') for v in variants}
    ctx.cover['temporaries_in_programs'] = sum(len(S.temporaries_of(p)) for p, _ in cases)
    ctx.cover['feature_sets'] = sorted({','.join(p['features']) for p, _ in cases})
    if results:
        ctx.sample({'program': results[0]['text'], 'inputs': cases[0][1][:1]})
    ctx.assumptions += [
        'temporaries: real(jprb), real(jprd) (second kind name), integer(jpim), logical; shapes (klon) (klon,klev) (klon,0:klev) '
        '(klon,klev+1) (klon,2) (klon,2,klev) (klev) (klev,klon) (klon,2*klev); nested kernels; a kernel called twice; a nested '
        "kernel called with klev and klev-1 ('sizes')",
        'enough storage is observed, not computed: -fcheck=bounds + AddressSanitizer on the transformed build and the pool '
        "allocator's generated `IF (stack > end) STOP` (check_bounds=True); an overrun that stays inside the allocated "
        'block of ANOTHER block index (ZSTACK(:, b+1)) is only visible through the bounds check / wrong results',
        'stack high-water mark vs computed size (spec/Trace_StackBound.tla): in the multisize stratum (one kernel called 2-3x from '
        'the same caller - driver and nested kernel - with different size actuals, largest not first / largest first as '
        'control; all calls unconditional, all temporaries used) the transformed driver is instrumented to print ISTSZ / '
        'J_*_STACK_SIZE and TLC requires value >= own temporaries + max over the calls, evaluated on the ORIGINAL call tree; '
        'for other programs the clause is not evaluated (unused temporaries / conditional calls would over-demand)',
        'FtrPtr/DirectIdx: CONTIGUOUS on the explicit-shape stack dummy (rejected by gfortran, F2008 C530) is stripped by the '
        'harness in variants ftrptr/directidx; ftrptr-asis/directidx-asis judge the unmodified output on two programs',
        'Cray pointers (pool allocator) need gfortran -fcray-pointer (own compile step); no support modules are required: '
        'kind parameters jprb/jprd/jpim/jwim live in the kernel module itself',
        'ecstack / field-API / CUDA variants are not run; directives are not generated here (Loki pragmas are comments)',
        'extents klon<=4, klev<=3, ngpblks<=2; dyadic reals',
        'TLC evaluates each distinct (program, input, observed output) once (equal observations share the verdict)']
