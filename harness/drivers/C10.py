"""C10 Loop-range helpers match Fortran DO-loop iteration semantics.

spec: LoopRange (TripCount / DoSeq per the Fortran standard + sanity laws checked by TLC),
      Trace_LoopRange (get_pyrange = DoSeq; num_iterations, normalized, iteration_number,
      iteration_index agree with DoSeq on every non-empty loop), FExpr (evaluation of the returned
      expression trees under the bounds).
code: get_pyrange, iteration_number, iteration_index (loki.expression.symbolic), LoopRange.num_iterations,
      LoopRange.normalized — exhaustive over start, stop in -4..6, step in {-3..3}\\{0} and "no step",
      literal and symbolic bounds.
"""
from .. import lib_expr as X
from ..core import MachineryError


def lit(v):
    from loki.expression import symbols as sym
    return sym.IntLiteral(v) if v >= 0 else sym.Product((-1, sym.IntLiteral(-v)))


def record(start, stop, step, symbolic):
    from loki.expression import symbols as sym
    from loki.expression.symbolic import get_pyrange, iteration_number, iteration_index
    from loki.types import SymbolAttributes, BasicType
    it = SymbolAttributes(BasicType.INTEGER)
    a = sym.Variable(name='a', type=it)
    if symbolic:
        lo, hi = sym.Variable(name='b', type=it), sym.Variable(name='c', type=it)
    else:
        lo, hi = lit(start), lit(stop)
    children = (lo, hi) if step == 0 else (lo, hi, lit(step))
    rng = sym.LoopRange(children)
    case = {'start': start, 'stop': stop, 'step': step, 'haspy': False, 'pyrange': []}
    if not symbolic:
        case['haspy'] = True
        case['pyrange'] = [int(v) for v in get_pyrange(rng)]
    norm = rng.normalized
    case['numit'] = X.export(rng.num_iterations)
    case['nstart'] = X.export(norm.start)
    case['nstop'] = X.export(norm.stop)
    if norm.step is not None and X.export(norm.step) != {'k': 'int', 'v': 1}:
        case['nstart'] = {'k': 'var', 'name': 'normalized-step-not-1'}
    case['itnum'] = X.export(iteration_number(a, rng))
    case['itidx'] = X.export(iteration_index(a, rng))
    return case


def run(ctx):
    ctx.mc('MC_LoopRange', 'MC_LoopRange', workers=1, coverage=False, timeout=600)
    triples = [(s, e, st) for s in range(-4, 7) for e in range(-4, 7) for st in (-3, -2, -1, 0, 1, 2, 3)]
    if ctx.replay:
        c = ctx.replay['case']
        work = [(c['start'], c['stop'], c['step'], c['symbolic'])]
    else:
        work = [(s, e, st, symb) for (s, e, st) in triples for symb in (False, True)]
    cases, meta, errs = [], [], {}
    for (s, e, st, symb) in work:
        try:
            cases.append(record(s, e, st, symb))
            meta.append((s, e, st, symb))
        except X.Unsupported as ex:
            raise MachineryError(f'helper returned a node kind outside the model: {ex}') from ex
        except Exception as ex:  # pylint: disable=broad-except
            errs.setdefault(type(ex).__name__, ((s, e, st, symb), str(ex)[:200]))
    verdicts = ctx.validate('Trace_LoopRange', 'Trace_ExprEquiv', cases, timeout=1200)
    fails = {}
    nonempty = 0
    for i, (s, e, st, symb) in enumerate(meta):
        ok, clause, n = verdicts[i]
        if ok and n > 0:
            nonempty += 1
        if not ok:
            sign = 'none' if st == 0 else ('pos' if st > 0 else 'neg')
            unit = 'unit' if abs(st) <= 1 else 'nonunit'
            key = f"{clause}:step={sign}-{unit}:{'symbolic' if symb else 'literal'}"
            fails.setdefault(key, ((s, e, st, symb), cases[i], clause))
    for key, ((s, e, st, symb), case, clause) in sorted(fails.items()):
        ctx.violation(key, f'loop range ({s},{e},{st or "none"}) {"symbolic" if symb else "literal"}: {clause}; '
                           f'pyrange={case["pyrange"]} num_iterations={X.show(case["numit"])} '
                           f'iteration_number={X.show(case["itnum"])} iteration_index={X.show(case["itidx"])}',
                      {'start': s, 'stop': e, 'step': st, 'symbolic': symb})
    for name, (w, msg) in errs.items():
        ctx.violation(f'raises:{name}', f'helper raised {name} for range {w}: {msg}', dict(zip(('start', 'stop', 'step', 'symbolic'), w)))
    ctx.cover.update(ranges=len(meta), nonempty_ranges_accepted=nonempty, exhaustive=not ctx.replay)
    ctx.sample(cases[0]); ctx.sample(cases[-1])
    ctx.assumptions += ['bounds -4..6, steps -3..3 (exhaustive); symbolic bounds b, c evaluated at the same values',
                        'consumers (loop unrolling, constant propagation) are exercised by C31/C32, not here']


def selftest(ctx):
    from .. import selftests
    return selftests.c10(ctx)
