"""C05 Frontend input sanitisation leaves untargeted text untouched.

spec: Sanitise.tla       (sources as lines of lexical regions, the universe trigger x region x position,
                          expected observables, acceptance clauses)
      MC_Sanitise        (design-level: ideal frontend accepted, clauses sensitive to every placement,
                          targeted constructs exempt / restoration demanded)
      Gen_Sanitise       (TLC prints every placement's abstract source  -> rendered and fed to Loki)
      Trace_Sanitise     (TLC decides every recorded observation)
Real code: Sourcefile.from_source / Subroutine.from_source (frontend=FP) -> sanitize_input, PPRule.filter,
           reinsert_convert_endian / reinsert_open_newunit; fgen of the result.
"""
import json
import re

from ..core import MachineryError
from .. import lib_flex as X


# the sanitize_registry rule a trigger belongs to (normal form of violation keys: the four string macros
# behave alike)
RULE = {'__FILE__': 'STRING_PP_DIRECTIVES', '__FILENAME__': 'STRING_PP_DIRECTIVES', '__DATE__': 'STRING_PP_DIRECTIVES',
        '__VERSION__': 'STRING_PP_DIRECTIVES', '__LINE__': 'INTEGER_PP_DIRECTIVES', '@PROCESS': 'IBM_DIRECTIVES',
        'CONVERT': 'CONVERT_ENDIAN', 'NEWUNIT': 'OPEN_NEWUNIT',
        # whole-statement look-alikes (text reading like a complete OPEN statement) of the two OPEN rules
        'OPENCONV': 'CONVERT_ENDIAN', 'OPENCONVLC': 'CONVERT_ENDIAN', 'OPENNEWU': 'OPEN_NEWUNIT',
        'OPENNEWUMC': 'OPEN_NEWUNIT'}


def render(src):
    out = []
    for line in src:
        s = ''
        for r in line['regs']:
            k, t = r['k'], r['t']
            if k == 'sq':
                s += "'" + t + "'"
            elif k == 'dq':
                s += '"' + t + '"'
            elif k == 'sqc':
                s += "'" + t[:5] + '&\n     &' + t[5:] + "'"
            elif k == 'cont':
                s += '&\n     & '
            else:
                s += t
        first = line['regs'][0]['k'] if line['regs'] else 'code'
        first_t = line['regs'][0]['t'] if line['regs'] else ''
        if first in ('cpp',) or (first == 'tgt' and first_t.startswith('@')):
            out.append(s)
        elif s.startswith('subroutine') or s.startswith('end subroutine'):
            out.append(s)
        else:
            out.append('  ' + s)
    return '\n'.join(out) + '\n'


def _walk(node, out):
    from loki import ProgramUnit, ir
    if node is None:
        return
    if isinstance(node, (tuple, list)):
        for c in node:
            _walk(c, out)
        return
    if isinstance(node, ProgramUnit):
        for sec in (node.docstring, node.spec, getattr(node, 'body', None), node.contains):
            _walk(sec, out)
        return
    if not isinstance(node, ir.Node):
        return
    out.append(node)
    if isinstance(node, ir.CommentBlock):
        return
    for c in node.children:
        _walk(c, out)


def observe(text, path):
    """Drive the real frontend; record (no decisions)."""
    from loki import Sourcefile, Subroutine, fgen, ir
    from loki.frontend import FP, REGEX
    from loki.expression import symbols as sym
    from loki.ir import FindLiterals
    obs = {'parsed': False, 'strings_ir': [], 'strings_out': [], 'comments_ir': [], 'comments_out': [],
           'directives': [], 'idents': [], 'opens': [], 'error': ''}
    try:
        if path == 'sourcefile':
            obj = Sourcefile.from_source(text, frontend=FP)
            root = obj.ir
            units = list(obj.all_subroutines)
        elif path == 'regex-complete':
            obj = Sourcefile.from_source(text, frontend=REGEX)
            obj.make_complete(frontend=FP)
            root = obj.ir
            units = list(obj.all_subroutines)
        else:
            obj = Subroutine.from_source(text, frontend=FP)
            root = obj
            units = [obj]
        if not units:
            raise RuntimeError('no routine in the IR')
        out_text = obj.to_fortran() if hasattr(obj, 'to_fortran') else fgen(obj)
    except Exception as e:  # pylint: disable=broad-except
        obs['error'] = f'{type(e).__name__}: {str(e)[:200]}'
        return obs
    obs['parsed'] = True
    nodes = []
    _walk(root, nodes)
    seen_comments = set()
    for n in nodes:
        if isinstance(n, ir.CommentBlock):
            for c in n.comments:
                obs['comments_ir'].append(c.text.strip())
            continue
        if isinstance(n, ir.Comment):
            if id(n) not in seen_comments and n.text.strip():
                obs['comments_ir'].append(n.text.strip())
            continue
        if isinstance(n, ir.PreprocessorDirective):
            obs['directives'].append(n.text.strip())
            continue
        if isinstance(n, ir.GenericStmt):
            obs['strings_ir'] += X.lex(n.text)['strings']
        elif isinstance(n, (ir.Assignment, ir.CallStatement, ir.VariableDeclaration)):
            for lit in FindLiterals(unique=False).visit(n):
                if isinstance(lit, sym.StringLiteral):
                    # Loki keeps a literal that is continued over several lines raw (`&`, newline, `&` included,
                    # independent of any trigger); its value is the joined text
                    obs['strings_ir'].append(re.sub(r'&[ \t]*\n[ \t]*&', '', lit.value))
        c = getattr(n, 'comment', None)
        if c is not None and getattr(c, 'text', None):
            seen_comments.add(id(c))
            obs['comments_ir'].append(c.text.strip())
    lx = X.lex(out_text)
    obs['strings_out'] = lx['strings']
    obs['comments_out'] = [c.strip() for c in lx['comments']]
    obs['idents'] = sorted(set(lx['idents']))
    obs['opens'] = X.open_specs(lx)
    obs['out_text'] = out_text
    return obs


def fold_src(src):
    """Identifiers are compared case-folded (Fortran names are case-insensitive)."""
    out = []
    for line in src:
        out.append({'regs': [dict(r, t=r['t'].lower()) if r['k'] == 'id' else r for r in line['regs']],
                    'specs': line['specs']})
    return out


def run(ctx):
    quick = ctx.quick
    if not ctx.replay:
        ctx.mc('MC_Sanitise', 'MC_Sanitise', timeout=900, workers=4, coverage=False)
        r = ctx.tlc('Gen_Sanitise', 'Gen_Sanitise', timeout=600)
        gen = [json.loads(v[1]) for v in r.prints('SRC')]
        if len(gen) < 200:
            raise MachineryError(f'Gen_Sanitise printed {len(gen)} sources\n{r.tail()}')
        paths = ['sourcefile', 'subroutine'] + ([] if quick else ['regex-complete'])
        todo = [(g, p) for g in gen for p in paths]
    else:
        c = ctx.replay['case']
        todo = [({'t': c['t'], 'place': c['place'], 'pos': c['pos'], 'src': c['src']}, c['path'])]
    cases, meta = [], []
    for g, path in todo:
        text = render(g['src'])
        lexed = X.lex(text)
        obs = observe(text, path)
        out_text = obs.pop('out_text', '')
        err = obs.pop('error', '')
        cases.append({'src': fold_src(g['src']), 'obs': obs})
        meta.append((g, path, text, out_text, err, lexed))
    # legality pre-flight: every rendered source is accepted by gfortran (with cpp for the macro tokens);
    # the IBM @PROCESS directive line is not Fortran and is skipped
    if not ctx.replay:
        import concurrent.futures as cf
        import os
        import subprocess
        texts = sorted({(g['t'], g['place'], g['pos'], text) for g, _p, text, *_ in meta
                        if not (g['t'] == '@PROCESS' and g['place'] == 'code')})

        def legal(item):
            t, place, pos, text = item
            p = os.path.join(ctx.work, f'legal_{abs(hash(text))}.F90')
            with open(p, 'w') as fh:
                fh.write(text)
            r = subprocess.run(['gfortran', '-cpp', '-D__FILENAME__=__FILE__', '-fsyntax-only', '-c', p], capture_output=True, text=True,
                               timeout=120, cwd=ctx.work, check=False)
            return (t, place, pos, text, r.stderr) if r.returncode else None
        with cf.ThreadPoolExecutor(max_workers=6) as ex:
            bad = [b for b in ex.map(legal, texts) if b]
        if bad:
            raise MachineryError(f'C05 generator: gfortran rejects {len(bad)} rendered sources, e.g. {bad[0][:3]}:\n'
                                 f'{bad[0][3]}\n{bad[0][4][:600]}')
        ctx.cover['sources_accepted_by_gfortran'] = len(texts)
    # the harness lexer must read back the abstract source from the rendered text (else its records are worthless)
    verdicts = ctx.validate('Trace_Sanitise', 'Trace_Sanitise', cases, timeout=900)
    # lexer pre-flight decided by the same spec: the *input text* lexed as if it were the output must be accepted
    pre = []
    for (g, path, text, _o, _e, lexed), c in zip(meta, cases):
        if path != todo[0][1]:
            continue
        o = dict(c['obs'])
        o.update(parsed=True, strings_ir=lexed['strings'], strings_out=lexed['strings'],
                 comments_ir=[x.strip() for x in lexed['comments']], comments_out=[x.strip() for x in lexed['comments']],
                 directives=[s for s in lexed['stmts'] if s.startswith('#')], idents=sorted(set(lexed['idents'])),
                 opens=X.open_specs(lexed))
        pre.append({'src': c['src'], 'obs': o, '_g': (g['t'], g['place'], g['pos'])})
    pv = ctx.validate('Trace_Sanitise', 'Trace_Sanitise', [{k: v for k, v in p.items() if k != '_g'} for p in pre], timeout=900)
    for i, p in enumerate(pre):
        # targeted code placements legitimately differ in nothing here, too: the input text is the ideal observation
        if not pv[i][0]:
            raise MachineryError(f'C05 lexer pre-flight: input text of placement {p["_g"]} is not read back as its '
                                 f'abstract source (clause {pv[i][1]}): {json.dumps(p["obs"])[:600]}')
    ctx.cover['lexer_preflight_cases'] = len(pre)
    counts = {}
    for i, (g, path, text, out_text, err, _l) in enumerate(meta):
        ok, _first, n = verdicts[i][:3]
        counts[(g['place'], ok)] = counts.get((g['place'], ok), 0) + 1
        if ok:
            continue
        for k in range(1, n + 1):
            clause = verdicts[f'{i}#{k}'][1]
            key = f"rule={RULE[g['t']]}:region={g['place']}:clause={clause}"
            ctx.violation(key, f"{path}: placement {g['t']} in {g['place']} at {g['pos']} violates clause {clause}"
                               + (f' ({err})' if err else '') + f"; source line(s): "
                               f"{[l for l in text.splitlines() if (g['t'].split('=')[0].lower() if not g['t'].startswith('OPEN') else 'open') in l.lower()][:3]}; regenerated: "
                               f"{[l for l in out_text.splitlines() if any(w in l.lower() for w in ('head', 'tail', 'open', '__'))][:3]}",
                          {'t': g['t'], 'place': g['place'], 'pos': g['pos'], 'src': g['src'], 'path': path, 'text': text})
    ctx.cover['violation_keys'] = sorted({v.key for v in ctx.violations})
    ctx.cover['placements'] = len({(g['t'], g['place'], g['pos']) for g, *_ in meta})
    ctx.cover['runs'] = len(meta)
    ctx.cover['accepted_by_region'] = {p: n for (p, ok), n in sorted(counts.items()) if ok}
    ctx.cover['rejected_by_region'] = {p: n for (p, ok), n in sorted(counts.items()) if not ok}
    ctx.sample({'placement': [meta[0][0]['t'], meta[0][0]['place'], meta[0][0]['pos']], 'text': meta[0][2]})
    if len(meta) > 100:
        ctx.sample({'placement': [meta[100][0]['t'], meta[100][0]['place'], meta[100][0]['pos']], 'text': meta[100][2],
                    'regenerated': meta[100][3]})
    ctx.assumptions += [
        'universe: 12 triggers (incl. whole-statement OPEN look-alikes) x 16 placements (sq/dq string, string in PRINT / call argument, full-line and inline '
        'comment, cpp directive, identifier infix, string / comment / continuation in OPEN, targeted code position, '
        'targeted OPEN specifier) x 3 positions, legal combinations only; entry points Sourcefile.from_source and '
        'Subroutine.from_source (thorough: also REGEX -> make_complete(FP))',
        'exempt: the representation of a macro token in code position (documented: replaced by 0 / a string constant) '
        'and of an @PROCESS directive line (dropped); they must still parse',
        'identifiers are compared case-folded; OPEN specifiers as sets of (keyword folded, value text); non-string '
        'values folded and blanks removed',
        'the harness lexer is checked first: the rendered input text must be read back as its abstract source (TLC decides)',
    ]
