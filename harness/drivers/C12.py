"""C12 Symbol tables behave as scoped, case-insensitive mappings.

spec: SymTab.tla (functional core Apply + design invariants, MC_SymTab.cfg exhaustive to depth D),
      Gen_SymTab (TLC -simulate behaviours  -> replayed into the real objects, spec -> code),
      Trace_SymTab (recorded histories of the real objects validated by TLC, code -> spec).
Real objects: loki.types.SymbolTable (kind 'table'), loki.types.Scope (kind 'scope'),
              loki.tools.CaseInsensitiveDict (kind 'cidict').
"""
import json

from ..core import MachineryError

SPELL = ['a', 'A', 'a(1)', 'A(I)', 'b', 'B', 'ab', 'Ab', 'AB']
CISPELL = ['a', 'A', 'b', 'B', 'ab', 'Ab', 'AB']
VALS = ['v1', 'v2']


def _mk(tag):
    from loki.types import SymbolAttributes, BasicType
    return SymbolAttributes(BasicType.INTEGER if tag == 'v1' else BasicType.REAL, tag=tag)


class Impl:
    """The real objects of one history + the projection function."""

    def __init__(self, kind):
        from loki.types import SymbolTable, Scope
        from loki.tools import CaseInsensitiveDict
        self.kind = kind
        if kind == 'table':
            t3 = SymbolTable()
            t2 = SymbolTable(parent=t3)
            t1 = SymbolTable(parent=t2)
            t4 = SymbolTable()
            self.t = {1: t1, 2: t2, 3: t3, 4: t4}
        elif kind == 'scope':
            # real scoped IR nodes (a bare Scope cannot be cloned: its symbol table is not an init field)
            from loki.ir import Associate
            mk = lambda parent=None: Associate(associations=(), body=(), parent=parent)  # noqa: E731
            s3 = mk()
            s2 = mk(s3)
            s1 = mk(s2)
            s4 = mk()
            self.sc = {1: s1, 2: s2, 3: s3, 4: s4}
        elif kind == 'unit':
            # program units as scopes: their `parent` attribute is assignable (used by ModuleWrapTransformation)
            from loki import Subroutine
            s3 = Subroutine(name='unit3')
            s2 = Subroutine(name='unit2', parent=s3)
            s1 = Subroutine(name='unit1', parent=s2)
            s4 = Subroutine(name='unit4')
            self.sc = {1: s1, 2: s2, 3: s3, 4: s4}
            self.kind = 'scope'
            self.unit = True
        else:
            self.t = {1: CaseInsensitiveDict()}

    unit = False

    def tab(self, s):
        return self.sc[s].symbol_attrs if self.kind == 'scope' else self.t[s]

    def _idx(self, obj, tables):
        if obj is None:
            return 0
        for i, t in tables.items():
            if t is obj:
                return i
        return -1   # points to an object that is not (any more) part of the configuration

    def project(self):
        n = 1 if self.kind == 'cidict' else 4
        tabs = []
        for s in range(1, n + 1):
            t = self.tab(s)
            items = []
            for k in dict.keys(t):
                if self.unit and isinstance(k, str) and k.startswith('unit'):
                    continue   # the units' own names, registered in their parent scopes
                v = dict.__getitem__(t, k)
                items.append([k if isinstance(k, str) else repr(k), v if isinstance(v, str) else str(getattr(v, 'tag', None))])
            tabs.append(sorted(items))
        out = {'tabs': tabs}
        if self.kind == 'table':
            out['parents'] = [self._idx(self.t[s].parent, self.t) for s in range(1, 5)]
            out['tparents'] = out['parents']
        elif self.kind == 'scope':
            out['parents'] = [self._idx(self.sc[s].parent, self.sc) for s in range(1, 5)]
            tables = {i: sc.symbol_attrs for i, sc in self.sc.items()}
            out['tparents'] = [self._idx(self.sc[s].symbol_attrs.parent, tables) for s in range(1, 5)]
        else:
            out['parents'] = [0]
            out['tparents'] = [0]
        return out

    def apply(self, e):
        """Execute one event on the real object; return the observed result as a string."""
        op, s, k = e['op'], e['s'], e['k']
        ci = self.kind == 'cidict'
        t = self.tab(s)

        def val(tag):
            return tag if ci else _mk(tag)

        def show(r, probe=True):
            if r is None:
                return 'none'
            if isinstance(r, str):
                return r
            tag = str(getattr(r, 'tag', None))
            if probe:
                r.tag = 'MUTATED'   # copy-independence probe: mutate everything handed out
            return tag
        try:
            if op == 'set':
                v = val(e['v'])
                t[k] = v
                if not ci:
                    v.tag = 'MUTATED'
                return 'none'
            if op == 'setdefault':
                v = val(e['v'])
                r = t.setdefault(k, v)
                if not ci:
                    v.tag = 'MUTATED'
                    return 'unspecified'
                return show(r)
            if op == 'update':
                v, v2 = val(e['v']), val(e['v2'])
                if e.get('aslist'):
                    t.update([(k, v), (e['k2'], v2)])
                else:
                    t.update({k: v, e['k2']: v2}) if k != e['k2'] else t.update([(k, v), (e['k2'], v2)])
                if not ci:
                    v.tag = v2.tag = 'MUTATED'
                return 'none'
            if op == 'get':
                return show(t.get(k))
            if op == 'getitem':
                return show(t[k])
            if op == 'lookup':
                return show(t.lookup(k, recursive=e['f']))
            if op == 'contains':
                return 'true' if k in t else 'false'
            if op == 'del':
                del t[k]
                return 'none'
            if op == 'pop':
                if e['f']:
                    return show(t.pop(k, 'default'))
                return show(t.pop(k))
            if op == 'clone':
                p = e.get('p', -1)
                if self.kind == 'scope':
                    kw = {} if p == -1 else {'parent': self.sc[p] if p else None}
                    self.sc[4] = self.sc[s].clone(**kw)
                else:
                    kw = {} if p == -1 else {'parent': self.t[p] if p else None}
                    self.t[4] = t.clone(**kw)
                return 'none'
            if op in ('reparent', 'reparent_attr'):
                p = e['p']
                if self.kind == 'scope' and op == 'reparent_attr' and self.unit:
                    self.sc[s].parent = self.sc[p] if p else None
                elif self.kind == 'scope':
                    self.sc[s]._reset_parent(self.sc[p] if p else None)  # pylint: disable=protected-access
                else:
                    t.parent = self.t[p] if p else None
                return 'none'
            # Scope API (for kind 'table' the same semantics through the table's own interface)
            if op == 'declare':
                if self.kind == 'scope':
                    from loki.types import BasicType
                    self.sc[s].declare(k, BasicType.INTEGER if e['v'] == 'v1' else BasicType.REAL, fail=e['f'], tag=e['v'])
                    return 'none'
                if e['f'] and k in t:
                    return 'ValueError'
                t[k] = val(e['v'])
                return 'none'
            if op == 'supdate':
                if self.kind == 'scope':
                    from loki.types import BasicType
                    self.sc[s].update(k, fail=e['f'], dtype=BasicType.INTEGER if e['v'] == 'v1' else BasicType.REAL, tag=e['v'])
                    return 'none'
                if e['f'] and k not in t:
                    return 'ValueError'
                t[k] = val(e['v'])
                return 'none'
            if op == 'get_type':
                if self.kind == 'scope':
                    return show(self.sc[s].get_type(k, recursive=e['f'], fail=True))
                r = t.lookup(k, recursive=e['f'])
                return 'KeyError' if r is None else show(r)
            if op == 'symbol_scope':
                if self.kind == 'scope':
                    return str(self._idx(self.sc[s].get_symbol_scope(k), self.sc))
                # table kind: first table on the chain that contains the name
                cur = t
                while cur is not None:
                    if k in cur:
                        return str(self._idx(cur, self.t))
                    cur = cur.parent
                return '0'
        except KeyError:
            return 'KeyError'
        except ValueError:
            return 'ValueError'
        raise MachineryError(f'unknown op {op}')


FIELDS = {'op': 'contains', 's': 1, 'k': 'a', 'v': 'v1', 'f': False, 'k2': 'a', 'v2': 'v1', 'p': 0}


def norm_event(e):
    out = dict(FIELDS)
    out.update(e)
    return out


def chain(parents, s):
    seen = []
    while s and s not in seen:
        seen.append(s)
        s = parents[s - 1]
    return seen


def random_event(rng, kind, parents):
    """One event drawn from the spec's vocabulary (SymTab!Events), respecting its enabling conditions."""
    if kind == 'cidict':
        op = rng.choice(['set', 'setdefault', 'update', 'get', 'getitem', 'contains', 'del', 'pop', 'pop'])
        e = {'op': op, 's': 1, 'k': rng.choice(CISPELL), 'v': rng.choice(VALS), 'f': rng.random() < 0.5,
             'k2': rng.choice(CISPELL), 'v2': rng.choice(VALS)}
        return norm_event(e)
    ops = ['set', 'setdefault', 'update', 'get', 'getitem', 'lookup', 'contains', 'del', 'pop', 'clone',
           'reparent', 'reparent_attr', 'declare', 'supdate', 'get_type', 'symbol_scope', 'set', 'del', 'pop', 'lookup']
    while True:
        op = rng.choice(ops)
        e = {'op': op, 's': rng.randint(1, 4), 'k': rng.choice(SPELL), 'v': rng.choice(VALS),
             'f': rng.random() < 0.5, 'k2': rng.choice(SPELL), 'v2': rng.choice(VALS), 'p': rng.randint(0, 4)}
        if op == 'clone':
            if e['s'] == 4 or 4 in parents:
                continue
            e['p'] = rng.choice([-1, -1, 0, 1, 2, 3])
        if op in ('reparent', 'reparent_attr'):
            if e['p'] == e['s'] or (e['p'] and e['s'] in chain(parents, e['p'])):
                continue
        if op == 'update':
            e['aslist'] = rng.random() < 0.5
        return norm_event(e)


def record_history(kind, events_or_rng, length=None):
    """Run events on fresh real objects. events_or_rng: list of events, or an rng to draw them from."""
    impl = Impl(kind)
    trace = []
    parents = impl.project()['parents']
    n = length if length is not None else len(events_or_rng)
    for i in range(n):
        e = random_event(events_or_rng, kind, parents) if length is not None else norm_event(events_or_rng[i])
        ret = impl.apply(e)
        after = impl.project()
        parents = after['parents']
        rec = dict(e)
        rec.pop('aslist', None)
        rec['ret'] = ret
        rec['after'] = after
        trace.append(rec)
    return trace


def shrink_key(kind, trace, l):
    """Normal form of a rejected history: the failing op, whether the spelling was non-canonical
    and whether the name was present (abstracts names/values)."""
    e = trace[l - 1]
    if e['op'] in ('clone', 'reparent', 'reparent_attr'):
        return f"{kind}:{e['op']}"
    k = e['k']
    folded = k.lower().partition('(')[0]
    spell = 'canonical' if k == folded else ('suffix' if '(' in k else 'case')
    # was the folded name present in the target scope before the op?
    before = trace[l - 2]['after'] if l >= 2 else {'tabs': [[], [], [], []]}
    present = any(kk == folded for kk, _ in before['tabs'][e['s'] - 1]) if e['s'] - 1 < len(before['tabs']) else False
    return f"{kind}:{e['op']}:spelling={spell}:present={str(present).lower()}"


def run(ctx):
    quick = ctx.quick
    # 1. design-level model checking of the specification
    import os
    cfg = os.path.join(ctx.work, 'MC_SymTab_run.cfg')
    with open(os.path.join(os.path.dirname(__file__), '..', '..', 'spec', 'MC_SymTab.cfg')) as fh:
        text = fh.read().replace('MaxDepth = 5', f'MaxDepth = {4 if quick else 5}')
    with open(cfg, 'w') as fh:
        fh.write(text)
    ctx.mc('MC_SymTab', cfg, timeout=2400)

    cases = []
    meta = []
    # 2. spec -> code: TLC-generated behaviours replayed into the real objects
    depth = 24
    nbeh = 150 if quick else 300
    gcfg = os.path.join(ctx.work, 'Gen_SymTab_run.cfg')
    with open(gcfg, 'w') as fh:
        fh.write(f'SPECIFICATION GSpec\nCONSTANT GenDepth = {depth}\nCHECK_DEADLOCK FALSE\n')
    r = ctx.tlc('Gen_SymTab', gcfg, simulate=f'num={nbeh}', depth=depth + 3, seed=ctx.seed + 17, timeout=2400)
    behs = [json.loads(v[1]) for v in r.prints('BEHAVIOUR')]
    if len(behs) < nbeh * 0.9:
        raise MachineryError(f'Gen_SymTab produced {len(behs)} behaviours, expected {nbeh}\n{r.tail()}')
    s2c_steps = 0
    for bi, beh in enumerate(behs):
        for kind in ('table', 'scope', 'unit'):
            events = [norm_event(h['e']) for h in beh]
            trace = record_history(kind, events)
            # direct comparison with the state / return value the specification computed
            for li, (h, t) in enumerate(zip(beh, trace), 1):
                s2c_steps += 1
                exp_tabs = [sorted([k, v] for k, v in tab.items() if v != 'none') for tab in h['tab']]
                ok = (h['ret'] in ('unspecified', t['ret'])) and exp_tabs == t['after']['tabs'] \
                    and h['parent'] == t['after']['parents'] == t['after']['tparents']
                if not ok:
                    ctx.violation(shrink_key(kind, trace, li),
                                  f"spec->code replay diverges at step {li} op={t['op']} k={t['k']!r}: spec ret={h['ret']} "
                                  f"impl ret={t['ret']}; spec tabs={exp_tabs} impl={t['after']['tabs']}; "
                                  f"spec parents={h['parent']} impl={t['after']['parents']}/{t['after']['tparents']}",
                                  {'kind': kind, 'events': events})
                    break
            cases.append({'kind': kind, 'events': trace})
            meta.append((kind, trace))
    ctx.cover['spec_behaviours_replayed'] = len(behs) * 3
    gen_ops = {h['e']['op'] for beh in behs for h in beh}
    ctx.cover['distinct_ops_in_generated_behaviours'] = len(gen_ops)
    if len(gen_ops) < 12 or len({json.dumps(b, sort_keys=True) for b in behs}) < 0.9 * len(behs):
        raise MachineryError(f'vacuity: generated behaviours are not diverse (ops {sorted(gen_ops)})')
    ctx.cover['spec_to_code_steps_compared'] = s2c_steps
    # 3. code -> spec: seeded random histories recorded from the real objects
    nrand = 300 if quick else 4000
    for i in range(nrand):
        kind = ('table', 'scope', 'cidict', 'unit')[i % 4]
        trace = record_history(kind, ctx.rng, length=30)
        cases.append({'kind': kind, 'events': trace})
        meta.append((kind, trace))
    if ctx.replay:
        c = ctx.replay['case']
        trace = record_history(c['kind'], c['events'])
        cases = [{'kind': c['kind'], 'events': trace}]
        meta = [(c['kind'], trace)]
    verdicts = ctx.validate('Trace_SymTab', 'Trace_SymTab', cases)
    seen_pairs = set()
    for i, (kind, trace) in enumerate(meta):
        ok, clause, l = verdicts[i]
        for e in trace:
            seen_pairs.add((kind, e['op'], e['k'], e['ret'] in ('KeyError', 'ValueError')))
        if not ok:
            ctx.violation(shrink_key(kind, trace, l), f'trace rejected at event {l}: {clause}',
                          {'kind': kind, 'events': [{k: v for k, v in e.items() if k not in ("ret", "after")} for e in trace[:l]]})
    ctx.cover['distinct_kind_op_spelling_outcome'] = len(seen_pairs)
    ctx.cover['events_validated'] = sum(len(t) for _, t in meta)
    ctx.sample({'kind': meta[0][0], 'first_events': meta[0][1][:3]})
    ctx.sample({'kind': meta[-1][0], 'first_events': meta[-1][1][:2]})
    ctx.assumptions += [
        'universe: 4 scope slots, 3 folded names x 9 spellings (case variants and (…) suffixes), 2 attribute values',
        'setdefault on SymbolTable has no specified return value (exempt)',
        'TLC and the TLA+ module SymTab are trusted; the harness only records (no reference model in python)',
    ]


def selftest(ctx):
    from .. import selftests
    return selftests.c12(ctx)
