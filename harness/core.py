"""Shared machinery: work dirs, TLC runner (exhaustive / simulate / batch trace validation),
verdict parsing, evidence, known findings, exit codes.

Exit codes: 0 held (possibly with KNOWN-FINDING lines) / 1 VIOLATION / 2 machinery failure.
"""
import atexit
import concurrent.futures as cf
import hashlib
import json
import os
import random
import re
import shutil
import subprocess
import sys
import time

from . import tlaval

VERIF = os.path.dirname(os.path.dirname(os.path.abspath(__file__)))
SPEC = os.path.join(VERIF, 'spec')
REPO = os.environ.get('VERIF_REPO', '/repo')   # /repo unless a development run points at a scratch worktree
TLAJAR = '/opt/veriftools/tla/tla2tools.jar:/opt/veriftools/tla/CommunityModules-deps.jar'
NCPU = os.cpu_count() or 4


class MachineryError(Exception):
    """Something in the verification machinery (not Loki) failed: exit 2."""


_workdirs = []


def make_workdir(tag):
    d = os.path.join(VERIF, '.work', f'{tag}-{os.getpid()}')
    shutil.rmtree(d, ignore_errors=True)
    os.makedirs(d)
    _workdirs.append(d)
    return d


def _cleanup():
    if os.environ.get('VERIF_KEEP'):
        return
    for d in _workdirs:
        shutil.rmtree(d, ignore_errors=True)


atexit.register(_cleanup)


class TLCResult:
    def __init__(self, out, rc, wall):
        self.out = out
        self.rc = rc
        self.wall = wall
        m = re.search(r'(\d+) states generated, (\d+) distinct states found', out)
        self.generated = int(m.group(1)) if m else 0
        self.distinct = int(m.group(2)) if m else 0
        m = re.search(r'The depth of the complete state graph search is (\d+)', out)
        self.depth = int(m.group(1)) if m else 0
        self.invariant_violated = None
        m = re.search(r'Error: Invariant (\S+) is violated', out)
        if m:
            self.invariant_violated = m.group(1)
        m = re.search(r'Error: Action property (\S+) is violated', out)
        if m:
            self.invariant_violated = m.group(1)
        if 'Temporal properties were violated' in out:
            self.invariant_violated = self.invariant_violated or 'temporal'
        self.ok = (rc == 0 and 'Error:' not in out)

    def prints(self, tag=None):
        """All PrintT'ed tuples `<<"TAG", ...>>` as python lists (bracket matched, multi-line safe)."""
        res = []
        text = self.out
        for m in re.finditer(r'^<<"', text, flags=re.M):
            i = m.start()
            depth = 0
            j = i
            instr = False
            while j < len(text):
                c = text[j]
                if instr:
                    if c == '\\':
                        j += 1
                    elif c == '"':
                        instr = False
                elif c == '"':
                    instr = True
                elif text.startswith('<<', j):
                    depth += 1
                    j += 1
                elif text.startswith('>>', j):
                    depth -= 1
                    j += 1
                    if depth == 0:
                        break
                j += 1
            chunk = text[i:j + 1]
            try:
                v = tlaval.parse(chunk)
            except tlaval.TLAParseError:
                continue
            if tag is None or (v and v[0] == tag):
                res.append(v)
        return res

    def coverage_zero_actions(self):
        """Names of actions with zero count in a `-coverage 1` report."""
        zero = []
        for m in re.finditer(r'^<(\w+) line \d+, col \d+ to line \d+, col \d+ of module (\w+)>: (\d+):(\d+)', self.out, flags=re.M):
            if int(m.group(4)) == 0 and m.group(1) not in ('Init',):
                zero.append(m.group(1))
        return sorted(set(zero))

    def action_counts(self):
        cnt = {}
        for m in re.finditer(r'^<(\w+) line \d+, col \d+ to line \d+, col \d+ of module (\w+)>: (\d+):(\d+)', self.out, flags=re.M):
            cnt[m.group(1)] = cnt.get(m.group(1), 0) + int(m.group(4))
        return cnt

    def tail(self, n=40):
        return '\n'.join(self.out.splitlines()[-n:])


def run_tlc(module, cfg=None, *, workers=1, env=None, simulate=None, depth=None, seed=None,
            timeout=900, coverage=False, extra=(), workdir=None, deque=False, heap='4g', deadlock=None):
    """Run TLC on spec/<module>.tla with spec/<cfg or module>.cfg. Returns TLCResult."""
    wd = workdir or make_workdir('tlc')
    meta = os.path.join(wd, f'meta-{module}-{random.getrandbits(40):x}')
    # single-worker runs (trace-validation shards: up to 16 JVMs side by side) use the serial collector
    gc = ['-XX:+UseSerialGC'] if int(workers) == 1 else ['-XX:+UseParallelGC', f'-XX:ParallelGCThreads={max(2, min(8, int(workers)))}']
    cmd = ['java', f'-Xmx{heap}', '-Xss16m'] + gc + [f'-DTLA-Library={SPEC}']
    if deque:
        cmd.append('-Dtlc2.tool.queue.IStateQueue=StateDeque')
    cmd += ['-cp', TLAJAR, 'tlc2.TLC', '-workers', str(workers), '-metadir', meta, '-noGenerateSpecTE']
    if cfg:
        cmd += ['-config', cfg if cfg.endswith('.cfg') else cfg + '.cfg']
    if simulate is not None:
        cmd += ['-simulate', simulate]
        if depth:
            cmd += ['-depth', str(depth)]
    if seed is not None:
        cmd += ['-seed', str(seed)]
    if coverage:
        cmd += ['-coverage', '1']
    if deadlock is False:
        cmd += ['-deadlock']
    cmd += list(extra)
    cmd.append(module if module.endswith('.tla') else module + '.tla')
    e = dict(os.environ)
    e.pop('JAVA_TOOL_OPTIONS', None)
    if env:
        e.update({k: str(v) for k, v in env.items()})
    t0 = time.time()
    try:
        p = subprocess.run(cmd, cwd=SPEC, env=e, stdout=subprocess.PIPE, stderr=subprocess.STDOUT,
                           timeout=timeout, text=True, errors='replace')
        out, rc = p.stdout, p.returncode
    except subprocess.TimeoutExpired as ex:
        out = (ex.stdout or b'').decode('utf8', 'replace') if isinstance(ex.stdout, bytes) else (ex.stdout or '')
        out += '\nError: TIMEOUT'
        rc = 124
    finally:
        shutil.rmtree(meta, ignore_errors=True)
    return TLCResult(out, rc, time.time() - t0)


def mc(module, cfg=None, *, workers=NCPU, timeout=900, coverage=True, required_actions=(), env=None, **kw):
    """Design-level model checking of the spec itself. Any failure is a machinery error (spec bug),
    never a Loki violation. Returns dict(states, transitions, depth, action_counts)."""
    r = run_tlc(module, cfg, workers=workers, timeout=timeout, coverage=coverage, env=env, **kw)
    if not r.ok:
        raise MachineryError(f'TLC model checking of {module}/{cfg} failed:\n{r.tail(60)}')
    counts = r.action_counts() if coverage else {}
    never = [a for a in required_actions if counts.get(a, 0) == 0]
    if never:
        raise MachineryError(f'vacuity: actions never taken in {module}: {never}')
    return dict(module=module, cfg=cfg or module, states=r.distinct, transitions=r.generated,
                depth=r.depth, action_counts=counts, wall_s=round(r.wall, 2))


def validate_batch(module, cfg, cases, *, env_name='CASES', shards=None, timeout=900, tag='VERDICT',
                   extra_env=None, workdir=None, per_shard_min=25):
    """Trace validation in batches. `cases` is a list of JSON-able dicts, each with a unique int 'id'
    assigned here. Spec reads JsonDeserialize(IOEnv.<env_name>) (an array), and prints one
    <<"VERDICT", id, ok, clause>> per case. Returns (verdicts: {idx: (ok, clause, extra...)}, stats)."""
    wd = workdir or make_workdir('val')
    n = len(cases)
    if n == 0:
        return {}, dict(states=0, transitions=0, wall_s=0.0)
    shards = shards or max(1, min(NCPU, n // per_shard_min or 1))
    buckets = [[] for _ in range(shards)]
    for i, c in enumerate(cases):
        c = dict(c)
        c['id'] = i
        buckets[i % shards].append(c)
    files = []
    for s, b in enumerate(buckets):
        f = os.path.join(wd, f'cases-{module}-{s}-{random.getrandbits(32):x}.json')
        with open(f, 'w') as fh:
            json.dump(b, fh)
        files.append(f)

    def one(f):
        env = {env_name: f}
        if extra_env:
            env.update(extra_env)
        return run_tlc(module, cfg, workers=1, env=env, timeout=timeout, workdir=wd)

    verdicts = {}
    states = trans = 0
    t0 = time.time()
    with cf.ThreadPoolExecutor(max_workers=min(NCPU, shards)) as ex:
        results = list(ex.map(one, files))
    for r, f, b in zip(results, files, buckets):
        if not b:
            continue
        for v in r.prints(tag):
            verdicts[v[1]] = tuple(v[2:])
        missing = [c['id'] for c in b if c['id'] not in verdicts]
        if missing or not r.ok:
            keep = os.path.join(VERIF, '.work', 'last_failed_batch.json')
            try:
                shutil.copy(f, keep)
            except OSError:
                pass
            raise MachineryError(f'trace validation {module}/{cfg}: TLC failed or verdicts missing for '
                                 f'{len(missing)} cases (first ids {missing[:5]}); batch copy {keep}\n{r.tail(40)}')
        states += r.distinct
        trans += r.generated
    for f in files:
        try:
            os.remove(f)
        except OSError:
            pass
    return verdicts, dict(states=states, transitions=trans, wall_s=round(time.time() - t0, 2), shards=shards)


# --------------------------------------------------------------------------------------------
# findings / evidence / main plumbing

def load_known():
    p = os.path.join(VERIF, 'known_findings.json')
    if not os.path.exists(p):
        return []
    with open(p) as fh:
        return json.load(fh).get('findings', [])


class Violation:
    def __init__(self, key, what, case):
        self.key = key          # normal form string (shrunk, names abstracted) used for known-finding matching
        self.what = what        # human description incl. failing clause
        self.case = case        # JSON-able replay payload


class Ctx:
    """Per-run context handed to drivers."""

    def __init__(self, pid, tier, seed, replay=None):
        self.pid = pid
        self.tier = tier
        self.quick = tier == 'quick'
        self.seed = seed
        self.replay = replay
        self.rng = random.Random(seed * 1000003 + int(hashlib.sha1(pid.encode()).hexdigest()[:6], 16))
        self.work = make_workdir(pid)
        self.violations = []
        self.mc_runs = []
        self.val_stats = []
        self.assumptions = []
        self.cover = {}
        self.samples = []
        self.t0 = time.time()

    # -- spec level
    def mc(self, module, cfg=None, **kw):
        kw.setdefault('workdir', self.work)
        r = mc(module, cfg, **kw)
        self.mc_runs.append(r)
        return r

    def validate(self, module, cfg, cases, **kw):
        kw.setdefault('workdir', self.work)
        v, st = validate_batch(module, cfg, cases, **kw)
        st['module'] = module
        st['cases'] = len(cases)
        self.val_stats.append(st)
        return v

    def tlc(self, module, cfg=None, **kw):
        kw.setdefault('workdir', self.work)
        return run_tlc(module, cfg, **kw)

    def violation(self, key, what, case):
        self.violations.append(Violation(key, what, case))

    def sample(self, s, limit=6):
        if len(self.samples) < limit:
            self.samples.append(s)

    def elapsed(self):
        return time.time() - self.t0


def write_evidence(ctx, level, coverage, nviol):
    ev = {
        'property_id': ctx.pid,
        'tier': ctx.tier,
        'seed': ctx.seed,
        'level': level,
        'coverage': coverage,
        'assumptions': ctx.assumptions,
        'wall_s': round(ctx.elapsed(), 2),
        'violations': nviol,
    }
    # evidence/ describes runs against /repo only; a run against another tree (VERIF_REPO=<scratch worktree>, used to
    # evaluate seeded changes) or a replay of one recorded case is written next to the scratch files instead
    evdir = os.path.join(VERIF, 'evidence')
    if os.path.realpath(REPO) != '/repo' or getattr(ctx, 'replay', None):
        evdir = os.path.join(VERIF, '.work', 'evidence-other-tree')
    os.makedirs(evdir, exist_ok=True)
    p = os.path.join(evdir, f'{ctx.pid}.json')
    tmp = p + f'.tmp{os.getpid()}'
    with open(tmp, 'w') as fh:
        json.dump(ev, fh, indent=1, sort_keys=True, default=str)
    os.replace(tmp, p)
    return p


def finish(ctx, extra_cov=None):
    """Standard epilogue: combine MC and validation stats into evidence, match violations against
    known findings, print lines, return exit code."""
    states = sum(r['states'] for r in ctx.mc_runs) + sum(s['states'] for s in ctx.val_stats)
    trans = sum(r['transitions'] for r in ctx.mc_runs) + sum(s['transitions'] for s in ctx.val_stats)
    traces = sum(s['cases'] for s in ctx.val_stats)
    cov = {
        'states': states,
        'transitions': trans,
        'traces_validated_against_impl': traces,
        'samples': ctx.samples or ['(no sample recorded)'],
        'mc_runs': ctx.mc_runs,
        'validation_runs': ctx.val_stats,
    }
    cov.update(ctx.cover)
    if extra_cov:
        cov.update(extra_cov)
    known = [k for k in load_known() if k.get('property') == ctx.pid and k.get('status', 'open') == 'open']
    new = []
    known_hit = {}
    for v in ctx.violations:
        hit = None
        for k in known:
            if re.fullmatch(k['match'], v.key):
                hit = k
                break
        if hit:
            known_hit.setdefault(hit['id'], (hit, []))[1].append(v)
        else:
            new.append(v)
    cov['known_finding_hits'] = {kid: len(vs) for kid, (_, vs) in known_hit.items()}
    cov['violations_new'] = len(new)
    write_evidence(ctx, 'model_checking', cov, len(new))
    for kid, (k, vs) in sorted(known_hit.items()):
        print(f'KNOWN-FINDING: property={ctx.pid} {k["what"]} [{kid}; {len(vs)} cases, e.g. {vs[0].key}]')
    if new:
        rdir = os.path.join(VERIF, 'replay', ctx.pid)
        os.makedirs(rdir, exist_ok=True)
        seen = set()
        for v in new:
            if v.key in seen:
                continue
            seen.add(v.key)
            h = hashlib.sha1(v.key.encode()).hexdigest()[:12]
            path = os.path.join(rdir, f'{h}.json')
            with open(path, 'w') as fh:
                json.dump({'property': ctx.pid, 'key': v.key, 'what': v.what, 'case': v.case}, fh, indent=1, default=str)
            print(f'VIOLATION property={ctx.pid} replay={path}')
            print(f'  key: {v.key}')
            print(f'  what: {v.what}')
            if len(seen) >= 25:
                print(f'  ... ({len(new)} violating cases in total)')
                break
        return 1
    print(f'OK property={ctx.pid} tier={ctx.tier} states={states} transitions={trans} traces={traces} '
          f'wall={ctx.elapsed():.1f}s')
    return 0


def main(argv):
    import argparse
    import importlib
    import traceback
    ap = argparse.ArgumentParser()
    ap.add_argument('pid')
    ap.add_argument('--tier', default=os.environ.get('VERIF_TIER', 'quick'), choices=['quick', 'thorough'])
    ap.add_argument('--replay')
    ap.add_argument('--selftest', action='store_true')
    a = ap.parse_args(argv)
    seed = int(os.environ.get('VERIF_SEED', '0') or 0)
    ctx = Ctx(a.pid, a.tier, seed, a.replay)
    os.chdir(ctx.work)   # never run with cwd=/tmp (namespace shadowing of `loki`)
    try:
        mod = importlib.import_module(f'harness.drivers.{a.pid}')
        if a.selftest:
            return mod.selftest(ctx)
        if a.replay:
            with open(a.replay) as fh:
                ctx.replay = json.load(fh)
        mod.run(ctx)
        return finish(ctx)
    except MachineryError as e:
        print(f'MACHINERY-ERROR property={a.pid}: {e}', file=sys.stderr)
        return 2
    except Exception:  # pylint: disable=broad-except
        traceback.print_exc()
        print(f'MACHINERY-ERROR property={a.pid}: harness exception', file=sys.stderr)
        return 2
