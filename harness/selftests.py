"""Binding / sensitivity self-tests for the lead-built drivers (./vcheck Cxx --selftest):
a recorded field of an accepted case is corrupted (or an event dropped) and TLC must reject it."""
import copy

from .core import MachineryError


def _expect(ctx, module, cfg, good, bad_cases, names):
    v = ctx.validate(module, cfg, [good] + bad_cases, shards=1)
    if not v[0][0]:
        raise MachineryError(f'selftest: the uncorrupted case is rejected: {v[0]}')
    missed = [n for i, n in enumerate(names, 1) if v[i][0]]
    for i, n in enumerate(names, 1):
        print(f'  {"rejected" if not v[i][0] else "ACCEPTED (!)"}: {n}: {v[i][1][:100]}')
    if missed:
        print(f'SELFTEST-FAILED {ctx.pid}: corrupted cases accepted: {missed}')
        return 1
    print(f'SELFTEST-OK {ctx.pid}: {len(names)} corruptions rejected')
    return 0


def c12(ctx):
    from .drivers import C12
    ev = [{'op': 'set', 's': 2, 'k': 'A', 'v': 'v1'}, {'op': 'lookup', 's': 1, 'k': 'a(1)', 'f': True},
          {'op': 'del', 's': 2, 'k': 'a'}, {'op': 'contains', 's': 2, 'k': 'A'}]
    trace = C12.record_history('table', ev)
    good = {'kind': 'table', 'events': trace}
    b1 = copy.deepcopy(good); b1['events'][1]['ret'] = 'none'                  # wrong return value
    b2 = copy.deepcopy(good); b2['events'][0]['after']['tabs'][1] = [['A', 'v1']]   # un-folded key stored
    b3 = copy.deepcopy(good); del b3['events'][2]                              # dropped event (del) -> later state differs
    b4 = copy.deepcopy(good); b4['events'][3]['after']['parents'] = [2, 3, 4, 0]
    return _expect(ctx, 'Trace_SymTab', 'Trace_SymTab', good, [b1, b2, b3, b4],
                   ['return value corrupted', 'stored key not folded', 'event dropped', 'parent link corrupted'])


def c06(ctx):
    from . import lib_expr as X
    from .drivers import C06
    t = {'k': 'quot', 'c': [X.V('a'), {'k': 'par', 'c': [{'k': 'prod', 'c': [X.V('b'), X.V('c')]}]}]}
    good = C06.make_case(t, C06.fortran_text(t))
    b1 = C06.make_case(t, 'a / b*c')                    # brackets lost
    b2 = C06.make_case(t, 'a / (b + c)')                # operator changed
    b3 = C06.make_case(t, 'a / (b*c')                   # not an expression
    return _expect(ctx, 'Trace_ExprEquiv', 'Trace_ExprEquiv', good, [b1, b2, b3], ['brackets dropped', 'operator changed', 'unbalanced text'])


def c01(ctx):
    import random
    from . import lib_fm as F
    g = F.Gen(random.Random(7), ('call', 'section', 'assoc'))
    prog = g.program(nstmts=4, depth=1)
    inp = g.inputs(prog, 1)
    st, out, err = F.compile_run(ctx.work, 'selftest', [('kmod.f90', F.render(prog)), ('drv.f90', F.driver_text(prog, 'kernel', inp))])
    if st != 'ok':
        raise MachineryError('selftest program does not build: ' + err[:300])
    obs = F.parse_output(out, 1)[0]
    good = {'prog': prog, 'entry': 'kernel', 'input': F.input_json(inp[0]), 'observed': obs, 'mode': 'preflight'}
    b1 = copy.deepcopy(good); b1['observed'][0][1] += 1                        # one value changed
    b2 = copy.deepcopy(good); b2['observed'] = b2['observed'][:-1]             # last value missing
    b3 = copy.deepcopy(good); b3['observed'][-1], b3['observed'][-2] = b3['observed'][-2], b3['observed'][-1]
    names = ['one output value changed', 'last output value missing']
    bad = [b1, b2]
    if good['observed'][-1] != good['observed'][-2]:
        bad.append(b3); names.append('two output values swapped')
    return _expect(ctx, 'Trace_FMachine', 'Trace_ExprEquiv', good, bad, names)


def c10(ctx):
    from .drivers import C10
    good = C10.record(1, 5, 2, False)
    b1 = copy.deepcopy(good); b1['pyrange'] = b1['pyrange'][:-1]
    b2 = copy.deepcopy(good); b2['numit'] = {'k': 'int', 'v': 2}
    b3 = copy.deepcopy(good); b3['itidx'] = {'k': 'var', 'name': 'a'}
    return _expect(ctx, 'Trace_LoopRange', 'Trace_ExprEquiv', good, [b1, b2, b3], ['range truncated', 'num_iterations wrong', 'iteration_index wrong'])
