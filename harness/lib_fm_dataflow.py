"""Generators, Loki export and reporting for the dataflow checks C26 (def/use/live sets) and C27 (dependency
queries).  Python only GENERATES programs (JSON grammar of spec/FMachine.tla + statement ids, WHERE), DRIVES
Loki (parse the rendered module, attach the dataflow analysis, export the recorded name sets per node, matched
to the generator's statements by an independent positional walk) and turns the misses TLC reports into
normal-form keys.  What an execution reads and writes, and whether a recorded set covers it, is decided by TLC
(spec/FMachineLog.tla = the instrumented reference machine, spec/Trace_Dataflow.tla = the judgement).
"""
import concurrent.futures as cf
import copy

from . import lib_fm as F
from .lib_fm import V, N, R, op, call, el, cmp_, assign, decl, unit, NONE
from .core import MachineryError


# ----------------------------------------------------------------------------- small constructors
def if_(cond, body, els=(), inline=False):
    s = {'s': 'if', 'conds': [cond], 'bodies': [list(body)], 'els': list(els)}
    if inline:
        s['inline'] = True
    return s


def do_(var, lo, hi, body, st=None):
    return {'s': 'do', 'var': var, 'lo': lo, 'hi': hi, 'st': st or NONE, 'body': list(body)}


def where_(shape, conds, bodies, els=()):
    return {'s': 'where', 'shape': list(shape), 'conds': list(conds), 'bodies': [list(b) for b in bodies], 'els': list(els)}


def callst(name, *args):
    return {'s': 'call', 'name': name, 'args': list(args)}


def select_(e, cases, default=()):
    return {'s': 'select', 'e': e, 'cases': [{'lo': lo, 'hi': hi, 'body': list(b)} for lo, hi, b in cases], 'default': list(default)}


def bodies_of(s):
    """The statement lists of a compound statement, in source order, with the key that leads to them."""
    k = s['s']
    if k == 'if':
        return [('bodies', i, b) for i, b in enumerate(s['bodies'])] + [('els', None, s['els'])]
    if k in ('do', 'while', 'assoc'):
        return [('body', None, s['body'])]
    if k == 'select':
        return [('cases', i, c['body']) for i, c in enumerate(s['cases'])] + [('default', None, s['default'])]
    if k == 'where':
        return [('bodies', i, b) for i, b in enumerate(s['bodies'])] + [('els', None, s['els'])]
    return []


def number(prog):
    """Pre-order statement ids, global over the units: unit body Section = `bid`, statements `id`, the
    ELSE IF arms of an IF (nested Conditionals of the IR) `eids`. Returns the number of ids."""
    n = [0]

    def nxt():
        n[0] += 1
        return n[0]

    def walk(ss):
        for s in ss:
            s['id'] = nxt()
            if s['s'] == 'if':
                s['eids'] = []
                for i, b in enumerate(s['bodies']):
                    if i > 0:
                        s['eids'].append(nxt())
                    walk(b)
                walk(s['els'])
            else:
                for _, _, b in bodies_of(s):
                    walk(b)
    for u in prog['units']:
        u['bid'] = nxt()
        walk(u['body'])
    return n[0]


def has_where(prog):
    return any(s['s'] == 'where' for u in prog['units'] for s in flat(u['body']))


def flat(ss):
    for s in ss:
        yield s
        for _, _, b in bodies_of(s):
            yield from flat(b)


# ----------------------------------------------------------------------------- generator
class DGen(F.Gen):
    """lib_fm.Gen + helper routines whose dummies have every intent including none (scalars, arrays, element
    actuals, a helper that calls a helper), a local array `ic`, WHERE / ELSEWHERE over ia/ic, and a few
    patterns with locals that are first defined inside loops / branches (legal by construction)."""

    def stmt(self, d):
        rng = self.rng
        r = rng.random()
        if 'where' in self.f and r < 0.08:
            return self.where_stmt()
        if 'pattern' in self.f and r < 0.14 and d > 0:
            return self.pattern_stmt(d)
        if r < 0.2:
            return self.ic_stmt()
        return super().stmt(d)

    def ic_stmt(self):
        scal = self.int_scalars
        if self.rng.random() < 0.5:
            return [assign(el('ic', self.index('ic', 0, scal)), self.bounded(self.int_expr(1, scal)))]
        w = [v for v in self.int_writable if v not in self.active_loops]
        return [assign(V(self.rng.choice(w)), self.bounded(op('sum', el('ic', self.index('ic', 0, scal)), self.int_leaf(scal))))]

    def elem_expr(self, d=1):
        """Elemental integer expression over the whole arrays ia, ic (shape 5) and scalars."""
        rng = self.rng
        leaf = lambda: rng.choice([V('ia'), V('ic'), V(rng.choice(self.int_scalars_noarr)), N(rng.choice([0, 1, 2, 3]))])
        if d <= 0:
            return leaf()
        r = rng.random()
        if r < 0.4:
            return op('sum', self.elem_expr(d - 1), leaf())
        if r < 0.6:
            return call('mod', op('sum', self.elem_expr(d - 1), leaf()), N(rng.choice([5, 7])))
        if r < 0.8:
            return op('sum', leaf(), op('neg', leaf()))
        return leaf()

    def where_stmt(self):
        rng = self.rng
        mask = lambda: cmp_(rng.choice(['>', '<', '>=', '/=']), V(rng.choice(['ia', 'ic'])), rng.choice([N(1), N(2), V('m'), V(rng.choice(['ia', 'ic']))]))
        body = lambda: [assign(V(rng.choice(['ia', 'ic'])), call('mod', self.elem_expr(1), N(13))) for _ in range(rng.choice([1, 1, 2]))]
        n = rng.choice([1, 1, 2])
        return [where_([5], [mask() for _ in range(n)], [body() for _ in range(n)], body() if rng.random() < 0.6 else [])]

    def pattern_stmt(self, d):
        """Locals s1/s2 carry no value on entry: each pattern defines them before (dynamically) reading them."""
        rng = self.rng
        free = [v for v in self.loopvars if v not in self.active_loops]
        p = rng.choice(['carried', 'carried', 'first-in-branch', 'call-def', 'cond-overwrite', 'cond-overwrite'])
        if p == 'carried' and free and 's1' not in self.busy:
            v = free[0]
            self.busy.add('s1')
            self.active_loops.append(v)
            self.loop_range[v] = (0, 4)
            extra = self.block(d - 1, 1)
            self.active_loops.pop()
            self.busy.discard('s1')
            lo = rng.choice([0, 1])
            return [do_(v, N(lo), N(4), [if_(cmp_('>', V(v), N(lo)), [assign(V('k'), self.bounded(op('sum', V('k'), V('s1'))))], inline=rng.random() < 0.5)]
                        + extra + [assign(V('s1'), op('sum', V(v), V('m')))])]
        if p == 'first-in-branch' and 's2' not in self.busy:
            c = self.cond(self.int_scalars_noarr)
            return [if_(c, [assign(V('s2'), self.int_expr(1, self.int_scalars)), assign(V('k'), self.bounded(op('sum', V('k'), V('s2'))))],
                        [assign(V('s2'), N(3))] if rng.random() < 0.5 else [])]
        if p == 'cond-overwrite':
            # a scalar is written, then tested by an IF / IF-ELSE IF / SELECT CASE whose every branch overwrites it
            # without reading it: the only read after the write is the condition itself
            w = [v for v in ('t1', 't2', 'a1', 'a2') if v not in self.active_loops]
            v = rng.choice(w)
            others = [x for x in self.int_scalars_noarr if x != v]
            val = lambda: rng.choice([N(rng.randint(0, 9)), V(rng.choice(others)), op('sum', V(rng.choice(others)), N(1))])
            first = assign(V(v), self.bounded(self.int_expr(1, others)))
            shape = rng.choice(['if-else', 'if-else', 'if-elseif-else', 'select'])
            if shape == 'select':
                first = assign(V(v), call('mod', call('abs', self.int_expr(1, others)), N(4)))
                st = select_(V(v), [(0, 0, [assign(V(v), val())]), (1, 2, [assign(V(v), val())])], [assign(V(v), val())])
            elif shape == 'if-else':
                st = if_(cmp_(rng.choice(['>', '<', '==']), V(v), N(rng.randint(0, 6))), [assign(V(v), val())], [assign(V(v), val())])
            else:
                st = {'s': 'if', 'conds': [cmp_('>', V(v), N(rng.randint(3, 8))), cmp_('>', V(v), N(rng.randint(0, 2)))],
                      'bodies': [[assign(V(v), val())], [assign(V(v), val())]], 'els': [assign(V(v), val())]}
            mid = [assign(V('k'), self.bounded(op('sum', V('k'), N(1))))] if rng.random() < 0.4 else []
            return [first] + mid + [st, assign(V('k'), self.bounded(op('sum', V('k'), V(v))))]
        if p == 'call-def' and self.helpers:
            # s2 receives its first value through a dummy (intent(out) or none), then is read
            h = rng.choice(['h5', 'h8'])
            return [callst(h, V('s2'), op('sum', V(rng.choice(['n', 'm'])), N(1))), assign(V('k'), self.bounded(op('sum', V('k'), V('s2'))))]
        return super().stmt(d)

    def make_helpers(self):
        units = super().make_helpers()          # h1 (inout array, in, out), h2 (inout, in)
        hs = self.helpers
        sc = lambda g: V(g.rng.choice(['t1', 't2', 'k', 'a1', 'a2']))

        def other(g, tgt):
            return V(g.rng.choice([v for v in ['n', 'm', 't1', 't2', 'k', 'a1', 'a2'] if v != tgt.get('name')]))
        # h3(p, q): no intents; p read and written, q only read
        u3 = unit('h3', ['p', 'q'], [decl('p', 'int', 'none'), decl('q', 'int', 'none')],
                  [assign(V('p'), call('mod', op('sum', op('prod', V('p'), N(2)), V('q')), N(23)))])

        def call3(g):
            tgt = sc(g) if g.rng.random() < 0.7 else el('ia', N(g.rng.randint(0, 4)))
            q = other(g, tgt) if g.rng.random() < 0.6 else op('sum', other(g, tgt), N(1))
            return [callst('h3', tgt, q)]
        hs.append({'unit': u3, 'mkcall': call3})
        # h4(a, s): no intents; array conditionally written at one element, a(0) read
        u4 = unit('h4', ['a', 's'], [decl('a', 'int', 'none', [(0, 4)]), decl('s', 'int', 'none')],
                  [if_(cmp_('>', V('s'), N(0)), [assign(el('a', call('mod', V('s'), N(5))), call('mod', op('sum', el('a', N(0)), V('s')), N(17)))])])

        def call4(g):
            return [callst('h4', V(g.rng.choice(['ia', 'ic'])), V(g.rng.choice(['n', 'm', 't1', 't2', 'a1'])))]
        hs.append({'unit': u4, 'mkcall': call4})
        # h5(r, s): r out (always defined), s in
        u5 = unit('h5', ['r', 's'], [decl('r', 'int', 'out'), decl('s', 'int', 'in')], [assign(V('r'), call('mod', op('sum', V('s'), N(1)), N(19)))])

        def call5(g):
            tgt = sc(g)
            return [callst('h5', tgt, op('sum', other(g, tgt), N(0)) if g.rng.random() < 0.5 else other(g, tgt))]
        hs.append({'unit': u5, 'mkcall': call5})
        # h6(p, c): p inout, written on one path only
        u6 = unit('h6', ['p', 'c'], [decl('p', 'int', 'inout'), decl('c', 'int', 'in')],
                  [if_(cmp_('>', V('c'), N(2)), [assign(V('p'), call('mod', op('sum', V('p'), V('c')), N(19)))], inline=True)])

        def call6(g):
            tgt = sc(g)
            return [callst('h6', tgt, other(g, tgt))]
        hs.append({'unit': u6, 'mkcall': call6})
        # h7(p): inout, forwards to h3 (nested call, no-intent dummies one level down)
        u7 = unit('h7', ['p'], [decl('p', 'int', 'inout'), decl('w2', 'int')],
                  [assign(V('w2'), N(3)), callst('h3', V('p'), V('w2'))])
        hs.append({'unit': u7, 'mkcall': lambda g: [callst('h7', sc(g))]})
        # h8(r, s): no intents; r only written, s only read
        u8 = unit('h8', ['r', 's'], [decl('r', 'int', 'none'), decl('s', 'int', 'none')], [assign(V('r'), call('mod', op('prod', V('s'), N(3)), N(17)))])

        def call8(g):
            tgt = sc(g)
            return [callst('h8', tgt, other(g, tgt))]
        hs.append({'unit': u8, 'mkcall': call8})
        return units + [u3, u4, u5, u6, u7, u8]

    def program(self, nstmts=6, depth=2):
        rng = self.rng
        self.busy = set()
        self.arrays = {'ia': self.IA[1], 'ra': self.RA[1], 'ic': [(0, 4)]}
        if 'twod' in self.f and rng.random() < 0.5:
            self.arrays['ib'] = self.IB[1]
        self.active_loops = []
        self.loop_range = {}
        self.int_writable = ['k', 't1', 't2', 'a1', 'a2']
        self.int_scalars = ['n', 'm', 'k', 't1', 't2', 'a1', 'a2']
        self.int_scalars_noarr = list(self.int_scalars)
        self.real_scalars = ['x', 'y']
        self.real_writable = ['x', 'y']
        self.helpers = []
        self.functions = []
        self.assoc_names = []
        self.assoc_depth = 0
        units = []
        if 'call' in self.f:
            units += self.make_helpers()
        if 'fcall' in self.f:
            units += self.make_functions()
        decls = [decl('n', 'int', 'in'), decl('m', 'int', 'in'), decl('flag', 'log', 'in'),
                 decl('ia', 'int', 'inout', self.arrays['ia']), decl('ra', 'real', 'inout', self.arrays['ra']),
                 decl('a1', 'int', 'inout'), decl('a2', 'int', 'inout')]
        args = ['n', 'm', 'flag', 'ia', 'ra', 'a1', 'a2']
        if 'ib' in self.arrays:
            decls.append(decl('ib', 'int', 'inout', self.arrays['ib']))
            args.append('ib')
        decls += [decl('k', 'int', 'out'), decl('x', 'real', 'out')]
        args += ['k', 'x']
        decls += [decl(v, 'int') for v in ('i', 'j', 'l', 'w', 't1', 't2', 's1', 's2')] + [decl('y', 'real'), decl('ic', 'int', 'local', [(0, 4)])]
        init = [assign(V('k'), N(0)), assign(V('x'), R(0)), assign(V('t1'), V('m')), assign(V('t2'), N(1)), assign(V('y'), R(1, 2)),
                assign(V('ic'), op('sum', V('ia'), V('m'))) if rng.random() < 0.5 else assign(V('ic'), N(rng.randint(0, 3)))]
        body = init + self.block(depth, nstmts)
        kernel = unit('kernel', args, decls, body)
        prog = {'units': [kernel] + units}
        used = {s['name'] for s in flat(kernel['body']) if s['s'] == 'call'}
        used |= {'f1'} if 'fcall' in self.f else set()
        for _ in range(3):      # helpers called by used helpers
            used |= {s['name'] for u in prog['units'] if u['name'] in used for s in flat(u['body']) if s['s'] == 'call'}
        prog['units'] = [u for u in prog['units'] if u['name'] == 'kernel' or u['name'] in used]
        number(prog)
        return prog


FEATURES = ('select', 'while', 'call', 'exitcycle', 'section', 'fcall', 'twod', 'assoc', 'where', 'pattern')


def gen_cases(rng, n, ninputs=3, features=FEATURES):
    cases = []
    for _ in range(n):
        g = DGen(rng, features)
        prog = g.program(nstmts=rng.randint(4, 8), depth=2)
        cases.append((prog, g.inputs(prog, ninputs)))
    return cases


# ----------------------------------------------------------------------------- directed programs
def directed(rng, seed=0, nstrata=3):
    """Hand-written minimal programs for the constructs the property names (calls with/without intents,
    WHERE/ELSEWHERE, SELECT CASE, nested blocks, zero-trip loops, one-armed conditionals), so that every run
    exercises them whatever the seed draws.  They are judged exactly like the generated ones."""
    base = DGen(rng, ('call', 'fcall'))
    base.program(1, 0)       # instantiates the helper units
    helpers = {h['unit']['name']: h['unit'] for h in base.helpers}
    helpers['f1'] = base.make_functions()[0]

    def kernel(body, extra_locals=()):
        decls = [decl('n', 'int', 'in'), decl('m', 'int', 'in'), decl('flag', 'log', 'in'), decl('ia', 'int', 'inout', [(0, 4)]),
                 decl('t1', 'int', 'inout'), decl('t2', 'int', 'inout'), decl('k', 'int', 'out')]
        decls += [decl(v, 'int') for v in ('i', 'j', 'w', 's1', 's2')] + [decl('ic', 'int', 'local', [(0, 4)])]
        init = [assign(V('k'), N(0)), assign(V('ic'), call('mod', op('sum', V('ia'), N(7)), N(6)))]
        prog = {'units': [unit('kernel', ['n', 'm', 'flag', 'ia', 't1', 't2', 'k'], decls, init + body)]}
        used = {s['name'] for s in flat(body) if s['s'] == 'call'}
        for _ in range(2):
            used |= {s['name'] for nm in list(used) if nm in helpers for s in flat(helpers[nm]['body']) if s['s'] == 'call'}
        if any('f1' in F.rx(s['rhs']) for s in flat(body) if s['s'] == 'assign'):
            used.add('f1')
        prog['units'] += [copy.deepcopy(helpers[nm]) for nm in sorted(used)]
        number(prog)
        return prog
    add = lambda a, b: op('sum', a, b)
    progs = {
        'one-armed-if': [if_(V('flag'), [assign(V('t1'), N(1))], inline=True), assign(V('k'), V('t1'))],
        'if-else-both-define': [if_(V('flag'), [assign(V('t1'), N(1))], [assign(V('t1'), N(2))]), assign(V('k'), V('t1'))],
        'elseif-chain': [{'s': 'if', 'conds': [V('flag'), cmp_('>', V('n'), N(1))], 'bodies': [[assign(V('t1'), N(1))], [assign(V('t2'), V('t1'))]], 'els': [assign(V('k'), V('t2'))]},
                         assign(V('k'), add(V('k'), add(V('t1'), V('t2'))))],
        'zero-trip-loop': [do_('i', N(1), V('n'), [assign(V('t1'), V('i'))]), assign(V('k'), V('t1'))],
        'nested-loop-in-if': [if_(cmp_('>', V('m'), N(0)), [do_('i', N(1), V('n'), [assign(V('t1'), add(V('t1'), V('i')))])]), assign(V('k'), V('t1'))],
        'while-loop': [assign(V('w'), N(0)), {'s': 'while', 'cond': cmp_('<', V('w'), V('n')), 'body': [assign(V('t1'), V('w')), assign(V('w'), add(V('w'), N(1)))]},
                       assign(V('k'), V('t1'))],
        'select-case': [select_(call('mod', call('abs', V('n')), N(4)), [(0, 0, [assign(V('t1'), N(5))]), (1, 2, [assign(V('t2'), V('t1'))])], [assign(V('k'), N(1))]),
                        assign(V('k'), add(V('k'), add(V('t1'), V('t2'))))],
        'cycle-in-loop': [do_('i', N(0), N(3), [if_(cmp_('>=', V('i'), V('n')), [{'s': 'cycle'}], inline=True), assign(V('t1'), V('i'))]), assign(V('k'), V('t1'))],
        'exit-in-loop': [do_('i', N(0), N(3), [if_(cmp_('>', V('i'), V('n')), [{'s': 'exit'}], inline=True), assign(V('t1'), V('i'))]), assign(V('k'), V('t1'))],
        'early-return': [if_(V('flag'), [{'s': 'return'}], inline=True), assign(V('t1'), N(4)), assign(V('k'), V('t1'))],
        'call-intents': [callst('h5', V('t1'), add(V('n'), N(1))), callst('h2', V('t2'), add(V('t1'), N(1))), callst('h6', V('t1'), V('n')), assign(V('k'), add(V('t1'), V('t2')))],
        'call-no-intent-rw': [callst('h3', V('t1'), V('t2')), assign(V('k'), V('t1'))],
        'call-no-intent-element': [callst('h3', el('ia', N(2)), V('m')), assign(V('k'), el('ia', N(2)))],
        'call-no-intent-array': [callst('h4', V('ia'), V('n')), assign(V('k'), el('ia', N(1)))],
        'call-no-intent-def': [callst('h8', V('s2'), V('n')), assign(V('k'), V('s2'))],
        'call-nested': [callst('h7', V('t1')), assign(V('k'), V('t1'))],
        'call-array-inout': [callst('h1', V('ia'), add(V('n'), N(1)), V('t2')), assign(V('k'), add(V('t2'), el('ia', N(0))))],
        'function-call': [assign(V('k'), add(call('f1', V('t1'), V('n')), V('t2')))],
        'print': [{'s': 'print', 'items': [V('t1'), add(V('n'), N(1))]}, {'s': 'print', 'items': [V('ia')]}],
        'where': [if_(cmp_('>', V('n'), N(0)), [where_([5], [cmp_('>', V('ic'), V('n'))], [[assign(V('ia'), N(0))]]), assign(V('k'), el('ia', N(1)))])],
        'where-elsewhere': [if_(cmp_('>', V('n'), N(0)), [where_([5], [cmp_('>', V('ic'), V('n'))], [[assign(V('ia'), V('ic'))]], [assign(V('ia'), add(V('ia'), N(1)))]), assign(V('k'), el('ia', N(1)))])],
        'where-masked-elsewhere': [if_(cmp_('>', V('n'), N(0)), [where_([5], [cmp_('>', V('ic'), N(3)), cmp_('<', V('ic'), V('n'))], [[assign(V('ia'), N(7))], [assign(V('ic'), V('ia'))]], [assign(V('ic'), add(V('ic'), V('ia')))]),
                                   assign(V('k'), add(el('ia', N(0)), el('ic', N(1))))])],
        'array-element-def-then-other-element': [assign(el('ic', N(1)), V('n')), assign(V('k'), el('ic', N(2)))],
        'array-recurrence': [do_('i', N(1), N(4), [assign(el('ia', V('i')), add(el('ia', op('sum', V('i'), N(-1))), N(1)))])],
        'array-shifted-read-after-write': [do_('i', N(1), N(4), [assign(el('ic', V('i')), V('i')), assign(V('k'), add(V('k'), el('ic', op('sum', V('i'), N(-1)))))])],
        'scalar-carried-after-conditional-def': [do_('i', N(0), N(3), [if_(cmp_('==', V('i'), V('n')), [assign(V('t1'), N(9))], inline=True), assign(V('k'), add(V('k'), V('t1'))), assign(V('t1'), V('i'))])],
        'scalar-first-def-in-previous-iteration': [do_('i', N(0), N(3), [if_(cmp_('>', V('i'), N(0)), [assign(V('k'), add(V('k'), V('s1')))], inline=True), assign(V('s1'), V('i'))])],
        'associate': [{'s': 'assoc', 'names': ['z1', 'z2', 'z3'], 'targets': [V('t1'), el('ia', call('mod', call('abs', V('m')), N(5))), add(V('n'), N(1))],
                       'body': [assign(V('z1'), add(V('z2'), V('z3'))), assign(V('z2'), V('t2'))]}, assign(V('k'), V('t1'))],
        'associate-unused-expression-selector': [{'s': 'assoc', 'names': ['z1', 'z3'], 'targets': [V('t1'), add(V('t2'), N(1))], 'body': [assign(V('z1'), N(2))]}, assign(V('k'), V('t1'))],
        'associate-nested-expression-selector': [{'s': 'assoc', 'names': ['z1'], 'targets': [V('t1')], 'body': [
            {'s': 'assoc', 'names': ['z2'], 'targets': [add(V('n'), N(1))], 'body': [assign(V('z1'), V('z2'))]}]}, assign(V('k'), V('t1'))],
        'section-assign': [assign(el('ia', F.rng_(N(1), N(4))), add(el('ia', F.rng_(N(0), N(3))), N(1))), assign(V('k'), el('ia', N(0)))],
        'raw-across-zero-trip-loop': [assign(V('t1'), N(3)), do_('i', N(1), V('n'), [assign(V('t1'), V('i'))]), assign(V('k'), V('t1'))],
        'raw-across-select': [assign(V('t1'), N(3)), select_(call('mod', call('abs', V('n')), N(3)), [(0, 0, [assign(V('t1'), N(5))])]), assign(V('k'), V('t1'))],
        'raw-condition-if-else-overwrite': [assign(V('t1'), add(V('n'), N(1))), if_(cmp_('>', V('t1'), N(2)), [assign(V('t1'), N(10))], [assign(V('t1'), N(0))]), assign(V('k'), V('t1'))],
        'raw-condition-if-elseif-else-overwrite': [assign(V('t1'), add(V('n'), V('m'))), assign(V('k'), N(1)),
                                                   {'s': 'if', 'conds': [cmp_('>', V('t1'), N(4)), cmp_('>', V('t1'), N(1))], 'bodies': [[assign(V('t1'), N(1))], [assign(V('t1'), N(2))]], 'els': [assign(V('t1'), N(0))]},
                                                   assign(V('k'), add(V('k'), V('t1')))],
        'raw-condition-select-overwrite': [assign(V('t1'), call('mod', call('abs', V('n')), N(3))), select_(V('t1'), [(0, 0, [assign(V('t1'), N(5))]), (1, 1, [assign(V('t1'), N(6))])], [assign(V('t1'), N(7))]), assign(V('k'), V('t1'))],
        'raw-condition-in-loop-body': [do_('i', N(1), N(3), [assign(V('t1'), el('ia', V('i'))), if_(cmp_('>', V('t1'), N(1)), [assign(V('t1'), N(10))], [assign(V('t1'), N(0))]), assign(el('ic', V('i')), V('t1'))])],
        'raw-associate-selector-read': [assign(V('t2'), add(V('n'), N(2))), {'s': 'assoc', 'names': ['z1', 'z3'], 'targets': [V('t1'), add(V('t2'), N(1))], 'body': [assign(V('z1'), N(2))]}, assign(V('k'), V('t1'))],
        'raw-across-conditional-call': [assign(V('t1'), N(3)), callst('h6', V('t1'), V('n')), assign(V('k'), V('t1'))],
    }
    import random
    srng = random.Random(7919 + seed)
    sub = lambda i: op('sum', V(i), N(0)) if srng.random() < 0.3 else V(i)
    for q in range(nstrata):
        x, y = srng.sample(['t1', 't2'], 2)
        # stratum bound-def: a DO bound (start / stop / step) mentions a variable that the loop body assigns; bounds are
        # evaluated on entry, so the variable is read before written by the loop; no earlier read of it
        pre = [assign(V(x), call('mod', call('abs', add(V('n'), N(srng.randint(0, 3)))), N(4)))] if srng.random() < 0.5 else []
        shape = srng.choice(['stop', 'stop', 'start', 'step'])
        lo, hi, st = N(1), V(x), None
        if shape == 'start':
            lo, hi = call('max', V(x), N(0)), N(4)
        elif shape == 'step':
            lo, hi, st = N(0), N(4), call('max', call('abs', V(x)), N(1))
        elif srng.random() < 0.5:
            hi = call('min', V(x), N(4))
        inner = [assign(V('k'), call('mod', add(V('k'), V('i')), N(17))), assign(V(x), srng.choice([N(0), V('m'), add(V('i'), N(1))]))]
        if srng.random() < 0.5:
            inner.reverse()
        loop = do_('i', lo, hi, inner, st)
        wrap = srng.choice(['none', 'if', 'do'])
        body = pre + ([loop] if wrap == 'none' else [if_(cmp_('>', V('m'), N(-9)), [loop])] if wrap == 'if' else [do_('j', N(1), N(2), [assign(V(x), call('mod', add(V('j'), V('n')), N(4))), loop])])
        progs[f'stratum-bound-def-{q}'] = body + [assign(V('k'), add(V('k'), V(x)))]
        # stratum case-later-read: SELECT CASE inside a loop, the variable is written in one CASE branch and read in a later
        # CASE / DEFAULT branch (another iteration); no earlier read of it in the loop body
        wr = assign(V(x), srng.choice([el('ia', sub('i')), add(V('i'), V('m')), N(srng.randint(1, 9))]))
        rd1 = assign(el('ic', V('i')), call('mod', add(V(x), N(1)), N(13)))
        rd2 = assign(V('k'), call('mod', add(V('k'), V(x)), N(19)))
        variant = srng.choice(['case+default', 'case', 'default', 'nested'])
        if variant == 'nested':
            rd1 = if_(cmp_('>', V('i'), N(0)), [rd1])
        cases = [(0, 0, [wr]), (1, 1, [rd1] if variant != 'default' else [assign(V('k'), add(V('k'), N(1)))])]
        dflt = [rd2] if variant in ('case+default', 'default', 'nested') else [assign(V(y), V('i'))]
        selc = select_(call('mod', V('i'), N(3)), cases, dflt)
        progs[f'stratum-case-later-read-{q}'] = [do_('i', N(0), N(4), [selc] + ([assign(V(y), add(V('i'), N(2)))] if srng.random() < 0.4 else []))]
    out = []
    for name, body in progs.items():
        prog = kernel(body)
        prog['meta'] = {'directed': name, 'stratum': name.rsplit('-', 1)[0][8:] if name.startswith('stratum-') else ''}
        inputs = []
        for c, (n, m, fl) in enumerate([(0, 1, True), (1, 2, False), (3, 0, True), (5, 3, False), (2, -2, True)]):
            inputs.append({'n': F.val_int(n), 'm': F.val_int(m), 'flag': F.val_log(fl), 't1': F.val_int(c + 1), 't2': F.val_int(4 - c),
                           'ia': F.val_arr([(0, 4)], [F.val_int(v) for v in [(3 * c + 2 * e) % 7 - 2 for e in range(5)]])})
        out.append((prog, inputs))
    return out


# ----------------------------------------------------------------------------- Loki export
KINDS = {
    'assign': ('Assignment',), 'if': ('Conditional',), 'do': ('Loop',), 'while': ('WhileLoop',), 'select': ('MultiConditional',),
    'call': ('CallStatement',), 'print': ('PrintStmt', 'Intrinsic'), 'assoc': ('Associate',), 'exit': ('ExitStmt', 'Intrinsic'),
    'cycle': ('CycleStmt', 'Intrinsic'), 'return': ('ReturnStmt', 'Intrinsic'), 'nop': ('ContinueStmt', 'Intrinsic'),
    'where': ('MaskedStatement',),
}


def loki_sets(text, prog, nids):
    """Parse the module with Loki, attach the dataflow analysis to every routine and export, per statement id,
    the recorded names: d/u/l = defines/uses/live symbols, c = loop_carried_dependencies (loops),
    r = read_after_write_vars(<statement list the node belongs to>, inspection_node=node).
    The IR nodes are found by walking the IR bodies and the generator's statement lists side by side."""
    from loki import Sourcefile, ir
    from loki.ir import FindVariables
    from loki.expression import symbols as sym
    from loki.analyse import dataflow_analysis_attached, read_after_write_vars, loop_carried_dependencies
    src = Sourcefile.from_source(text)
    sets = [None] * nids
    texts = [''] * nids
    skip = (ir.Comment, ir.CommentBlock, ir.Pragma)

    def names(symset, amap):
        out = set()
        for s in symset:
            if isinstance(s, sym.ProcedureSymbol):
                continue
            # generous: a member contributes its own name and every variable inside it (visit_Associate puts
            # whole selectors - subscripted arrays, expressions - back into the Associate node's sets)
            vs = list(FindVariables().visit(s))
            for v in vs:
                n = v.name.lower()
                if n in amap:
                    if amap[n] is not None:
                        out.add(amap[n])
                else:
                    out.add(n)
        return sorted(out)

    def record(sid, node, amap, parent_ir):
        if sets[sid - 1] is not None:
            raise MachineryError(f'statement id {sid} matched twice')
        isloop = isinstance(node, (ir.Loop, ir.WhileLoop))
        sets[sid - 1] = {
            'd': names(node.defines_symbols, amap), 'u': names(node.uses_symbols, amap), 'l': names(node.live_symbols, amap),
            'c': names(loop_carried_dependencies(node), amap) if isloop else [],
            'r': names(read_after_write_vars(parent_ir, node), amap) if parent_ir is not None else [],
        }
        texts[sid - 1] = type(node).__name__

    def pair(ss, nodes, amap, parent_ir, where):
        nodes = [n for n in nodes if not isinstance(n, skip)]
        ss = [s for s in ss if s['s'] != 'raw']
        if len(ss) != len(nodes):
            raise MachineryError(f'positional walk: {len(ss)} generated statements vs {len(nodes)} IR nodes in {where}: {[s["s"] for s in ss]} / {[type(n).__name__ for n in nodes]}')
        for s, n in zip(ss, nodes):
            if type(n).__name__ not in KINDS[s['s']]:
                raise MachineryError(f"positional walk: statement {s['s']} (id {s['id']}) vs IR node {type(n).__name__} in {where}")
            k = s['s']
            if k == 'assoc':
                # visit_Associate maps the names of the node's own sets back to the selectors: they are resolved
                # through the ENCLOSING associations only; the body's sets use the associate names
                record(s['id'], n, amap, parent_ir)
                inner = dict(amap)
                for sel, nm in n.associations:
                    if isinstance(sel, (sym.Scalar, sym.Array)):
                        b = sel.name.lower()
                        inner[nm.name.lower()] = amap.get(b, b)
                    else:
                        inner[nm.name.lower()] = None
                if [nm.name.lower() for _, nm in n.associations] != s['names']:
                    raise MachineryError('positional walk: associate names differ')
                pair(s['body'], n.body, inner, n.body, where + '/assoc')
                continue
            record(s['id'], n, amap, parent_ir)
            if k == 'if':
                cur = n
                for i, b in enumerate(s['bodies']):
                    if i > 0:
                        if len(cur.else_body) != 1 or not isinstance(cur.else_body[0], ir.Conditional):
                            raise MachineryError('positional walk: else-if arm is not a nested Conditional')
                        nxt = cur.else_body[0]
                        record(s['eids'][i - 1], nxt, amap, cur.else_body)
                        cur = nxt
                    pair(b, cur.body, amap, cur.body, where + '/if')
                pair(s['els'], cur.else_body, amap, cur.else_body, where + '/else')
            elif k in ('do', 'while'):
                pair(s['body'], n.body, amap, n.body, where + '/' + k)
            elif k == 'select':
                if len(n.bodies) != len(s['cases']):
                    raise MachineryError('positional walk: number of CASE bodies')
                for c, b in zip(s['cases'], n.bodies):
                    pair(c['body'], b, amap, b, where + '/case')
                pair(s['default'], n.else_body, amap, n.else_body, where + '/default')
            elif k == 'where':
                if len(n.bodies) != len(s['bodies']):
                    raise MachineryError('positional walk: number of WHERE bodies')
                for b, nb in zip(s['bodies'], n.bodies):
                    pair(b, nb, amap, nb, where + '/where')
                pair(s['els'], n.default, amap, n.default, where + '/elsewhere')

    keep = []
    for u in prog['units']:
        routine = src[u['name']]
        if routine is None:
            raise MachineryError(f"routine {u['name']} not found by Loki")
        keep.append(routine)
        with dataflow_analysis_attached(routine):
            record(u['bid'], routine.body, {}, None)
            pair(u['body'], routine.body.body, {}, routine.body, u['name'])
    missing = [i + 1 for i, s in enumerate(sets) if s is None]
    if missing:
        raise MachineryError(f'positional walk: no IR node for statement ids {missing}')
    return sets, texts


# ----------------------------------------------------------------------------- running cases
CLAUSE_NAMES = {'D': 'defines', 'U': 'uses', 'L': 'live', 'C': 'carried', 'R': 'raw'}


def run_cases(ctx, label, cases, entry='kernel', shards=None, timeout=2400):
    """cases: [(prog, inputs)].  gfortran(original) -> observed output (pre-flight), Loki sets, TLC judgement.
    Returns list of dicts per (program, input): idx, k, verdict tuple, misses [(clause, node, var, leaf, aux)],
    plus per-program info (text, sets, node classes)."""
    def build(idx):
        prog, inputs = cases[idx]
        text = F.render(prog)
        drv = F.driver_text(prog, entry, inputs)
        st, out, err = F.compile_run(ctx.work, f'{label}-{idx}', [('kmod.f90', text), ('drv.f90', drv)])
        return {'idx': idx, 'text': text, 'orig': (st, F.parse_output(out, len(inputs)) if st == 'ok' else None, err)}

    with cf.ThreadPoolExecutor(max_workers=8) as ex:
        progs = list(ex.map(build, range(len(cases))))
    stats = dict(programs=len(cases), orig_failed=0, analysis_raised=0, runs=0, illegal=0, preflight_failed=0, judged=0, runs_with_miss=0)
    tcases, tmeta = [], []
    for p in progs:
        prog, inputs = cases[p['idx']]
        if p['orig'][0] != 'ok':
            stats['orig_failed'] += 1
            ctx.cover.setdefault('orig_failed_examples', [])
            if len(ctx.cover['orig_failed_examples']) < 3:
                ctx.cover['orig_failed_examples'].append({'why': p['orig'][0] + ' ' + p['orig'][2][:600], 'program': p['text'][:2500]})
            continue
        nids = max([u['bid'] for u in prog['units']] + [i for u in prog['units'] for s in flat(u['body']) for i in [s['id']] + s.get('eids', [])])
        try:
            p['sets'], p['classes'] = loki_sets(p['text'], prog, nids)      # serial: Loki is not thread-safe
        except MachineryError:
            raise
        except Exception as ex:  # pylint: disable=broad-except
            import traceback
            tb = traceback.extract_tb(ex.__traceback__)
            fr = next((f for f in reversed(tb) if '/loki/analyse/' in f.filename and not f.name.startswith('<')), tb[-1])
            p['raised'] = {'type': type(ex).__name__, 'where': fr.name, 'msg': str(ex)[:300], 'tb': ''.join(traceback.format_exception(ex))[-1500:]}
            stats['analysis_raised'] += 1
            continue
        for k, inp in enumerate(inputs):
            plain = k == 0 and not has_where(prog)      # cross-check with the un-instrumented FMachine once per program
            obs = p['orig'][1][k]
            if obs is None:
                continue
            tcases.append({'prog': prog, 'entry': entry, 'input': F.input_json(inp), 'observed': obs, 'plain': plain, 'sets': p['sets']})
            tmeta.append((p['idx'], k))
    if stats['orig_failed'] > max(1, len(cases) // 20):
        ex = ctx.cover['orig_failed_examples'][0]
        raise MachineryError(f"{stats['orig_failed']} of {len(cases)} generated programs do not build/run with gfortran, e.g. {ex['why']}\n{ex['program']}")
    verd = ctx.validate('Trace_Dataflow', 'Trace_Dataflow', tcases, timeout=timeout, per_shard_min=8, shards=shards) if tcases else {}
    runs = []
    for i, (idx, k) in enumerate(tmeta):
        v = verd[i]
        ok, clause = v[0], v[1]
        stats['runs'] += 1
        misses = []
        j = 1
        while f'{i}#{j}' in verd:
            m = verd[f'{i}#{j}']
            misses.append((m[1], m[2], m[3], m[4], m[5]))
            j += 1
        run = {'idx': idx, 'k': k, 'ok': ok, 'clause': clause, 'misses': misses, 'events': v[2],
               'counts': dict(zip(('reads', 'writes', 'windows', 'iters', 'points'), v[3:8]))}
        if clause.startswith('illegal'):
            stats['illegal'] += 1
        elif clause.startswith('preflight'):
            stats['preflight_failed'] += 1
            ctx.cover.setdefault('preflight_examples', [])
            if len(ctx.cover['preflight_examples']) < 3:
                ctx.cover['preflight_examples'].append({'clause': clause, 'program': progs[idx]['text'][:2500], 'input': cases[idx][1][k]})
        else:
            stats['judged'] += 1
            if clause == 'miss' and len(misses) != 0:
                stats['runs_with_miss'] += 1
            elif clause == 'miss':
                raise MachineryError('verdict "miss" without miss tuples')
        runs.append(run)
    if stats['preflight_failed'] > max(0, 0.03 * max(1, stats['runs'])):
        ex = ctx.cover['preflight_examples'][0]
        raise MachineryError(f"pre-flight failed on {stats['preflight_failed']} of {stats['runs']} runs (instrumented machine vs gfortran / FMachine), e.g. "
                             f"{ex['clause']}\n{ex['program']}\ninput={ex['input']}")
    for key, val in stats.items():
        ctx.cover[f'{label}_{key}'] = ctx.cover.get(f'{label}_{key}', 0) + val
    return progs, runs


# ----------------------------------------------------------------------------- classification of misses
class Index:
    """Static structure of a numbered program: id -> statement, unit, parent id, sibling list, position."""

    def __init__(self, prog):
        self.prog = prog
        self.info = {}

        def walk(ss, unit_, parent, arm):
            for pos, s in enumerate(ss):
                self.info[s['id']] = dict(s=s, kind=s['s'], unit=unit_, parent=parent, sibs=ss, pos=pos, arm=arm)
                if s['s'] == 'if':
                    cur = s['id']
                    for i, b in enumerate(s['bodies']):
                        if i > 0:
                            e = s['eids'][i - 1]
                            self.info[e] = dict(s=s, kind='elseif', unit=unit_, parent=cur, sibs=[s], pos=0, arm=i)
                            cur = e
                        walk(b, unit_, cur, i)
                    walk(s['els'], unit_, cur, 'else')
                else:
                    for key, i, b in bodies_of(s):
                        walk(b, unit_, s['id'], (key, i))
        for u in prog['units']:
            self.info[u['bid']] = dict(s=None, kind='body', unit=u, parent=None, sibs=[], pos=0, arm=None)
            walk(u['body'], u, u['bid'], None)

    def path(self, top, leaf):
        """ids from `top` (exclusive) down to `leaf` (inclusive); None if leaf is not below top."""
        p = []
        cur = leaf
        while cur is not None and cur != top:
            p.append(cur)
            cur = self.info[cur]['parent']
        return list(reversed(p)) if cur == top else None

    def kind(self, i):
        return self.info[i]['kind']

    def nokill(self, i, var, sets):
        """Why the statement i, whose recorded defines contain `var`, need not write it: its kind, refined."""
        inf = self.info[i]
        k = inf['kind']
        if k == 'assign':
            lhs = inf['s']['lhs']
            return 'assign-array' if lhs['k'] == 'arr' or self.is_array(inf['unit'], lhs['name']) else 'assign'
        if k == 'call':
            return 'call-' + self.call_intent(i, var)
        return k

    @staticmethod
    def is_array(u, name):
        return any(d['name'] == name and d['dims'] for d in u['decls'])

    def call_intent(self, i, var):
        """Intent(s) of the dummies whose actual argument in the call statement i mentions `var`
        (suffix -expr when the actual is an expression and not the variable / an element of it)."""
        s = self.info[i]['s']
        cal = next((u for u in self.prog['units'] if u['name'] == s['name']), None)
        if cal is None:
            return 'unknown'
        ints = set()
        for a, dn in zip(s['args'], cal['args']):
            if var in expr_vars(a):
                it = next(d['intent'] for d in cal['decls'] if d['name'] == dn)
                ints.add(it if a['k'] in ('var', 'arr') and a.get('name') == var else it + '-expr')
        return '+'.join(sorted(ints)) or 'unrelated'


def expr_vars(e):
    out = set()
    if isinstance(e, dict):
        if e.get('k') in ('var', 'arr'):
            out.add(e['name'])
        for v in e.values():
            out |= expr_vars(v)
    elif isinstance(e, list):
        for v in e:
            out |= expr_vars(v)
    return out


def earlier_definer(ix, sets, top, leaf, var):
    """First statement that precedes `leaf` inside node `top` (a sibling of an element of the path) whose
    recorded defines contain var: the one Loki's block rule `uses |= stmt.uses - defines` lets kill the read."""
    path = ix.path(top, leaf)
    if path is None:
        return None
    for i in path:
        inf = ix.info[i]
        if inf['kind'] == 'elseif':
            continue
        for sib in inf['sibs'][:inf['pos']]:
            if var in sets[sib['id'] - 1]['d']:
                return sib['id']
    return None


def later_case_read(ix, sets, node, leaf, var):
    """The SELECT CASE (at or below `node`, above `leaf`) whose recorded uses lack `var` although the read happens in
    one of its branches with no recorded definition before it IN THAT BRANCH, while a textually earlier branch
    defines `var`.  None if there is no such construct."""
    for sel in [node] + (ix.path(node, leaf) or []):
        if ix.kind(sel) != 'select' or sel == leaf:
            continue
        below = ix.path(sel, leaf)
        if not below or var in sets[sel - 1]['u']:
            continue
        arm = ix.info[below[0]]['arm']
        st = ix.info[sel]['s']
        j = arm[1] if arm[0] == 'cases' else len(st['cases'])
        if earlier_definer(ix, sets, sel, leaf, var) is not None:
            continue
        if any(var in sets[a['id'] - 1]['d'] for c in st['cases'][:j] for a in flat(c['body'])):
            return sel
    return None


def classify0(ix, sets, miss):
    """Normal-form key of one miss <<clause, node, var, leaf, aux>> (names abstracted to roles)."""
    cl, node, var, leaf, aux = miss
    nk = ix.kind(node)
    lk = ix.kind(leaf) if leaf in ix.info else 'none'
    u = ix.info[node]['unit']
    role = 'array' if ix.is_array(u, var) else 'scalar'
    if var not in {d['name'] for d in u['decls']}:
        role = 'associate-name'
    leafsets = sets[leaf - 1] if leaf in ix.info else {'d': [], 'u': [], 'l': []}
    if cl == 'D':
        if lk == 'call':
            return f'defines:call-arg-intent-{ix.call_intent(leaf, var)}:{role}'
        return f'defines:{lk}-write-not-recorded:{role}' if var not in leafsets['d'] else f'defines:lost-between-{lk}-and-{nk}:{role}'
    if cl == 'U':
        if var not in leafsets['u']:
            if lk == 'do' and var in leafsets['d'] and var in expr_vars([ix.info[leaf]['s'][b] for b in ('lo', 'hi', 'st')]):
                # DO bounds are evaluated once, on entry: a bound variable the body assigns IS read before written
                return f'uses:loop-bound-read-before-body-def:{role}'
            if lk == 'call':
                return f'uses:call-arg-intent-{ix.call_intent(leaf, var)}:{role}'
            return f"uses:{'associate-selector' if lk == 'assoc' else lk}-read-not-recorded:{role}"
        if later_case_read(ix, sets, node, leaf, var) is not None:
            # CASE branches are alternatives: a definition in one branch never kills a use in another
            return f'uses:read-in-later-case-branch:{role}'
        if aux == 'p':
            kd = earlier_definer(ix, sets, node, leaf, var)
            return f"uses:read-after-partial-array-def:by-{ix.nokill(kd, var, sets) if kd else 'same-statement'}"
        kd = earlier_definer(ix, sets, node, leaf, var)
        if kd is not None:
            return f'uses:read-after-conditional-def:by-{ix.nokill(kd, var, sets)}:{role}'
        # WHERE (m1) ... ELSEWHERE (m2) ...: visit_MaskedStatement carries the defines of one masked body over to the next
        for i in [node] + (ix.path(node, leaf) or []):
            if ix.kind(i) == 'where' and isinstance(ix.info[leaf]['arm'], tuple) and ix.info[leaf]['parent'] == i:
                arm = ix.info[leaf]['arm'][1]
                w = ix.info[i]['s']
                if arm is not None and any(var in sets[a['id'] - 1]['d'] for b in w['bodies'][:arm] for a in b):
                    return f'uses:read-after-def-in-other-where-body:{role}'
        return f'uses:unexplained:{nk}:{lk}:{role}'
    if cl == 'L':
        intent = next((d['intent'] for d in u['decls'] if d['name'] == var and var in u['args']), None)
        if aux == 'a':
            return f'live:dummy-intent-{intent}:{role}'
        # value written earlier in the frame: which recorded definition should have made it live?
        path = ix.path(u['bid'], node) or []
        if earlier_definer(ix, sets, u['bid'], node, var) is not None:
            return f'live:unexplained:{nk}:{role}'
        loops = [i for i in path if ix.kind(i) in ('do', 'while')]
        if loops and any(var in sets[s['id'] - 1]['d'] for s in flat(ix.info[loops[0]]['s']['body'])):
            return f'live:defined-in-earlier-iteration:{role}'
        writers = sorted({ix.nokill(s['id'], var, sets) for s in flat(u['body']) if s['s'] == 'call' and any(a.get('name') == var for a in s['args'])})
        if writers:
            return f"live:defined-by-{'/'.join(writers)}:{role}"
        return f'live:unexplained:{nk}:{role}'
    if cl == 'C':
        if var not in leafsets['u']:
            return f'carried:{lk}-read-not-recorded:{role}' if lk != 'call' else f'carried:call-arg-intent-{ix.call_intent(leaf, var)}:{role}'
        if var not in sets[node - 1]['d']:
            return f'carried:write-not-recorded:{role}'
        if later_case_read(ix, sets, node, leaf, var) is not None:
            return f'carried:read-in-later-case-branch:{role}'
        kd = earlier_definer(ix, sets, node, leaf, var)
        if aux == 'p' or (kd is not None and role == 'array'):
            return f"carried:{nk}:array-element-read-after-def-of-other-element:by-{ix.nokill(kd, var, sets) if kd else 'same-statement'}"
        if kd is not None:
            return f'carried:{nk}:read-after-conditional-def:by-{ix.nokill(kd, var, sets)}:{role}'
        return f'carried:unexplained:{nk}:{lk}:{role}'
    if cl == 'R':
        # node = inspection statement p; its statement list = siblings
        inf = ix.info[node]
        if inf['kind'] == 'elseif':
            return f'raw:elseif-arm:{role}'
        sibs = inf['sibs']
        if lk == 'assoc':
            # the read is the evaluation of a selector (expression / subscript) on entry of the ASSOCIATE construct:
            # FindReads only registers reads of leaf nodes and conditions, never of an Associate's selectors
            return f'raw:associate-selector-read-not-recorded:{role}'
        # read_after_write_vars compares symbols by name: a write through an ASSOCIATE name and a read of the
        # selector variable (or the other way round) never meet
        w_in_assoc = any(var in sets[s['id'] - 1]['d'] for sb in sibs[:inf['pos']] for a in flat([sb]) if a['s'] == 'assoc' for s in flat(a['body']))
        r_in_assoc = any(ix.kind(i) == 'assoc' for i in (ix.path(inf['parent'], leaf) or [])[:-1])
        in_assoc = any(ix.kind(i) == 'assoc' for i in (ix.path(u['bid'], node) or []))
        if w_in_assoc or r_in_assoc or in_assoc:
            return f'raw:access-through-associate-name:{role}'
        seen_w = any(var in sets[s['id'] - 1]['d'] for sb in sibs[:inf['pos']] for s in flat([sb]))
        if not seen_w:
            callers = sorted({ix.nokill(s['id'], var, sets) for sb in sibs[:inf['pos']] for s in flat([sb]) if s['s'] == 'call' and any(a.get('name') == var for a in s['args'])})
            return f"raw:write-not-recorded:{'/'.join(callers) or 'other'}:{role}"
        # FindReads looks at leaf nodes only; SELECT CASE and WHERE constructs are leaf nodes of the IR
        below = ix.path(inf['parent'], leaf) or [leaf]
        vis = next((i for i in below if ix.kind(i) in ('select', 'where')), leaf)
        if var not in sets[vis - 1]['u']:
            if vis != leaf:
                return f'raw:read-inside-{ix.kind(vis)}-not-in-its-uses:{role}'
            return f'raw:{lk}-read-not-recorded:{role}' if lk != 'call' else f'raw:call-arg-intent-{ix.call_intent(leaf, var)}:{role}'
        # candidate cleared by a recorded definition between p and the read (branches of IF are merged by
        # FindReads.visit_Conditional, everything else clears the candidate)
        for sb in sibs[inf['pos']:]:
            for s_ in flat([sb]):
                if s_['id'] >= vis:
                    break
                if var in sets[s_['id'] - 1]['d'] and s_['s'] in ('assign', 'call', 'select', 'where'):
                    chain = [ix.kind(i) for i in (ix.path(inf['parent'], s_['id']) or [])][:-1]
                    # definitions in another arm of an IF chain than the one that leads to the read do not clear
                    # (FindReads.visit_Conditional restores the candidates per branch)
                    ps = ix.path(inf['parent'], s_['id']) or []
                    inner_if = []
                    for a, nxt in zip(ps[:-1], ps[1:]):
                        if ix.kind(a) in ('if', 'elseif'):
                            pv = ix.path(a, vis)
                            if not pv or ix.info[pv[0]]['sibs'] is not ix.info[nxt]['sibs']:
                                inner_if.append(a)
                    if inner_if or any(c in ('select', 'where') for c in chain):
                        continue
                    return f"raw:candidate-cleared-by:{'/'.join(chain + [ix.nokill(s_['id'], var, sets)])}:{role}"
        if vis == leaf and lk in ('if', 'elseif', 'select', 'while', 'do'):
            # the read is in the construct's own header (condition / selector / bounds), the variable is in the
            # construct's uses and no recorded definition lies between p and the construct
            return f'raw:condition-read-not-recorded:{lk}:{role}'
        return f'raw:unexplained:{ix.kind(node)}:{lk}:{role}'
    return f'{cl}:unknown'


def classify(ix, sets, miss):
    key = classify0(ix, sets, miss)
    if 'unexplained' in key:
        # the variable is also accessible under an ASSOCIATE name in this unit: Loki compares symbols by name
        u = ix.info[miss[1]]['unit']
        if any(t.get('name') == miss[2] for s in flat(u['body']) if s['s'] == 'assoc' for t in s['targets']):
            return key.split(':')[0] + ':alias-of-associate-name:' + key.split(':')[-1]
    return key


def stmt_text(ix, i):
    inf = ix.info.get(i)
    if inf is None:
        return '?'
    if inf['kind'] == 'body':
        return f"body of {inf['unit']['name']}"
    if inf['kind'] == 'elseif':
        return f"else-if arm {inf['arm'] + 1} of: " + F.rstmts([inf['s']], 0, None)[0]
    lines = F.rstmts([inf['s']], 0, None)
    return lines[0] + (' ...' if len(lines) > 1 else '')


def report(ctx, label, clauses, cases, progs, runs):
    """Group the misses of the given clauses by normal-form key; one violation per key with the smallest
    program that shows it."""
    groups = {}
    idxs = {}
    for r in runs:
        if not r['misses']:
            continue
        prog = cases[r['idx']][0]
        ix = idxs.setdefault(r['idx'], Index(prog))
        sets = progs[r['idx']]['sets']
        for m in r['misses']:
            if m[0] not in clauses:
                continue
            key = f'{classify(ix, sets, m)}'
            g = groups.setdefault(key, {'n': 0, 'best': None})
            g['n'] += 1
            size = len(progs[r['idx']]['text'])
            if g['best'] is None or size < g['best'][0]:
                g['best'] = (size, r, m)
    ctx.cover[f'{label}_miss_groups'] = {k: g['n'] for k, g in sorted(groups.items())}
    raised = {}
    for p in progs:
        if 'raised' in p:
            r = p['raised']
            key = f"analysis-raised:{r['type']}:{r['where']}"
            if key not in raised or len(p['text']) < len(raised[key]['text']):
                raised[key] = p
    for key, p in sorted(raised.items()):
        prog, inputs = cases[p['idx']]
        ctx.violation(key, f"dataflow_analysis_attached raises on a legal routine (gfortran builds and runs it): {p['raised']['type']}: {p['raised']['msg']}\n"
                           f"{p['raised']['tb']}\n--- program ---\n{p['text']}", {'prog': prog, 'inputs': inputs})
    for key, g in sorted(groups.items()):
        _, r, m = g['best']
        prog, inputs = cases[r['idx']]
        ix = idxs[r['idx']]
        s = progs[r['idx']]['sets']
        cl, node, var, leaf, aux = m
        setname = {'D': 'defines_symbols', 'U': 'uses_symbols', 'L': 'live_symbols', 'C': 'loop_carried_dependencies', 'R': 'read_after_write_vars'}[cl]
        field = cl.lower()
        what = (f"{CLAUSE_NAMES[cl]}: the execution {'writes' if cl == 'D' else 'reads'} `{var}` in statement <{stmt_text(ix, leaf)}> "
                f"{'(a location not written earlier in the node) ' if cl in 'UL' else ''}"
                f"{'(written in an earlier iteration, not yet in this one) ' if cl == 'C' else ''}"
                f"{'(written before the inspection point, not re-written since) ' if cl == 'R' else ''}"
                f"but {setname} of node <{stmt_text(ix, node)}> = {s[node - 1][field]} [{g['n']} occurrence(s) in this run]\n"
                f"input #{r['k']}: { {k_: (v['v'] if 'v' in v else '...') for k_, v in inputs[r['k']].items()} }\n--- program ---\n{progs[r['idx']]['text']}")
        ctx.violation(key, what, {'prog': prog, 'inputs': inputs})
    return groups


def cover(ctx, label, clauses, cases, progs, runs):
    judged = [r for r in runs if r['clause'] in ('ok', 'miss')]
    tot = {k: sum(r['counts'][k] for r in judged) for k in ('reads', 'writes', 'windows', 'iters', 'points')}
    ctx.cover[f'{label}_events'] = sum(r['events'] for r in judged)
    ctx.cover[f'{label}_checked'] = tot
    kinds = {}
    for r in judged:
        for u in cases[r['idx']][0]['units']:
            for s in flat(u['body']):
                kinds[s['s']] = kinds.get(s['s'], 0) + 1
    ctx.cover[f'{label}_statement_kinds_in_judged_runs'] = kinds
    ctx.cover[f'{label}_directed_programs'] = sorted({(cases[r['idx']][0].get('meta') or {}).get('directed') for r in judged} - {None})
    ctx.cover['programs_with_legal_inputs'] = len({r['idx'] for r in judged})
    if judged:
        ctx.sample({'program': progs[judged[-1]['idx']]['text'], 'input': cases[judged[-1]['idx']][1][judged[-1]['k']],
                    'sets_by_statement_id': progs[judged[-1]['idx']]['sets'][:12]})
    if not judged:
        raise MachineryError('no run was judged')
    strata = {}
    for r in judged:
        st = (cases[r['idx']][0].get('meta') or {}).get('stratum')
        if st:
            strata[st] = strata.get(st, 0) + 1
    ctx.cover[f'{label}_stratum_runs'] = strata
    if ctx.replay:
        return          # a single replayed program need not contain every construct
    for st in ('bound-def', 'case-later-read'):
        if strata.get(st, 0) < 6:
            raise MachineryError(f'vacuous: stratum {st} has only {strata.get(st, 0)} judged runs')
    if 'D' in clauses and (tot['reads'] == 0 or tot['writes'] == 0 or tot['windows'] == 0):
        raise MachineryError(f'vacuous: {tot}')
    if 'C' in clauses and (tot['iters'] == 0 or tot['points'] == 0):
        raise MachineryError(f'vacuous: {tot}')
