"""Shared helpers for C14 / C15: abstract IR trees <-> real loki.ir node objects.

Abstract node (the vocabulary of spec/TreeRewrite.tla and spec/Finders.tla):
    {'k': kind, 't': tag, 'b': [[child, ...], ...]}            (+ 'o': object id in exports)
kinds: leaf (Comment)  asg (Assignment)  loop (Loop)  sec (Section)  assoc (Associate, scoped)
       cond (Conditional: body, else_body)  multi (MultiConditional: one slot per case body + default)
       tdef (TypeDef: body; C15 only)

`build` realises an abstract tree with the REAL node classes; `export` is an independent structural
recursion over the concrete attributes of each class (it never uses Loki's visitors, finders or
`children`/`_traversable`), so that what TLC judges is what the objects really contain.
"""
import random

KINDS_LEAF = ('leaf', 'asg')
NSLOTS = {'leaf': 0, 'asg': 0, 'loop': 1, 'sec': 1, 'assoc': 1, 'tdef': 1, 'cond': 2}


def node(k, t, b=None):
    return {'k': k, 't': t, 'b': [list(s) for s in (b or [])]}


def strip(n):
    return {'k': n['k'], 't': n['t'], 'b': [[strip(c) for c in s] for s in n['b']]}


def with_o(n, o=0):
    return {'k': n['k'], 't': n['t'], 'b': [[with_o(c, o) for c in s] for s in n['b']], 'o': o}


def term_key(n):
    """Hashable image of a stripped term."""
    return (n['k'], n['t'], tuple(tuple(term_key(c) for c in s) for s in n['b']))


def subterms(n, out=None):
    out = [] if out is None else out
    out.append(n)
    for s in n['b']:
        for c in s:
            subterms(c, out)
    return out


def size(n):
    return 1 + sum(size(c) for s in n['b'] for c in s)


# --------------------------------------------------------------------------------------------
# abstract -> real objects

class Builder:
    """Builds real IR nodes; remembers every created object (so that ids stay unique)."""

    def __init__(self):
        self.objects = []      # keeps all objects alive
        self.first = {}        # term_key -> first object built for that term

    def var(self, name):
        from loki.expression import symbols as sym
        return sym.Variable(name=name)

    def build(self, n, share=None):
        """share: optional dict term_key -> object; when given, an equal term re-uses the same object."""
        from loki import ir
        from loki.expression import symbols as sym
        k, t = n['k'], n['t']
        tk = term_key(n)
        if share is not None and tk in share:
            return share[tk]
        slots = [tuple(self.build(c, share) for c in s) for s in n['b']]
        # tag "x@r": primary content x, statement label r (a frozen, non-traversable attribute)
        lab = None
        if k not in ('sec', 'assoc', 'tdef') and '@' in t:
            t, lab = t.split('@', 1)
        if k == 'leaf':
            o = ir.Comment(text=t, label=lab)
        elif k == 'asg':
            o = ir.Assignment(lhs=self.var(t), rhs=sym.IntLiteral(1), label=lab)
        elif k == 'loop':
            o = ir.Loop(variable=self.var(t), bounds=sym.LoopRange((sym.IntLiteral(1), sym.IntLiteral(2))), body=slots[0], label=lab)
        elif k == 'sec':
            o = ir.Section(body=slots[0], label=t)
        elif k == 'assoc':
            o = ir.Associate(associations=((self.var('p_assoc'), self.var('q_assoc')),), body=slots[0], label=t)  # pylint: disable=unexpected-keyword-arg
        elif k == 'tdef':
            o = ir.TypeDef(name=t, body=slots[0])  # pylint: disable=unexpected-keyword-arg
        elif k == 'cond':
            o = ir.Conditional(condition=self.var(t), body=slots[0], else_body=slots[1], label=lab)
        elif k == 'multi':
            nb = len(slots) - 1
            o = ir.MultiConditional(expr=self.var(t), values=tuple((sym.IntLiteral(i + 1),) for i in range(nb)),
                                    bodies=tuple(slots[:nb]), else_body=slots[nb], label=lab)
        else:
            raise ValueError(f'unknown kind {k}')
        self.objects.append(o)
        self.first.setdefault(tk, o)
        if share is not None:
            share[tk] = o
        return o

    def relabel(self, obj, newtag):
        """The key object with another tag but the very same children objects: `obj.clone(label=..)`."""
        from loki import ir
        lab = newtag if type(obj) in (ir.Section, ir.Associate) else newtag.split('@', 1)[1]
        o = obj._rebuild(label=lab)  # pylint: disable=protected-access
        self.objects.append(o)
        return o


# --------------------------------------------------------------------------------------------
# real objects -> abstract (independent structural recursion)

def _name(e):
    return str(getattr(e, 'name', e))


def _lab(obj):
    return '' if obj.label is None else '@' + str(obj.label)


def _extra(obj, defaults):
    """Suffix naming every frozen attribute that does not have its canonical value any more."""
    bad = []
    for attr, val in defaults.items():
        cur = getattr(obj, attr, None)
        cur = str(cur) if cur is not None and not isinstance(cur, (bool, str)) else cur
        if cur != val:
            bad.append(attr)
    return ''.join('!' + a for a in bad)


class Exporter:
    def __init__(self, table=None):
        self.table = table or {}     # id(obj) -> object id
        self.index = {}              # id(obj) -> pre-order index (1-based) in this export
        self.count = 0
        self.path = set()

    def seq(self, objs):
        return [self.node(o) for o in objs]

    def node(self, obj):
        # a rebuilt "tree" may contain itself (observed for in-place updates): cut the cycle, visibly
        if id(obj) in self.path:
            self.count += 1
            return {'k': 'cycle', 't': '', 'b': [], 'o': self.table.get(id(obj), 0)}
        self.path.add(id(obj))
        try:
            return self._node(obj)
        finally:
            self.path.discard(id(obj))

    def _node(self, obj):
        from loki import ir
        self.count += 1
        if obj is not None and not isinstance(obj, (tuple, list)):
            self.index.setdefault(id(obj), self.count)
        oid = self.table.get(id(obj), 0)
        t = type(obj)
        if obj is None:
            return {'k': 'none', 't': '', 'b': [], 'o': 0}
        if isinstance(obj, (tuple, list)):
            return {'k': 'tuple', 't': '', 'b': [self.seq(obj)], 'o': 0}
        if t is ir.Comment:
            return {'k': 'leaf', 't': obj.text + _lab(obj) + _extra(obj, {'source': None}), 'b': [], 'o': oid}
        if t is ir.Assignment:
            return {'k': 'asg', 't': _name(obj.lhs) + _lab(obj) + _extra(obj, {'rhs': '1', 'ptr': False, 'comment': None, 'source': None}),
                    'b': [], 'o': oid}
        if t is ir.Loop:
            return {'k': 'loop', 't': _name(obj.variable) + _lab(obj) + _extra(obj, {'bounds': '1:2', 'pragma': None, 'pragma_post': None, 'loop_label': None,
                                                                      'name': None, 'has_end_do': True, 'source': None}),
                    'b': [self.slot(obj.body)], 'o': oid}
        if t is ir.Section:
            return {'k': 'sec', 't': str(obj.label) + _extra(obj, {'source': None}), 'b': [self.slot(obj.body)], 'o': oid}
        if t is ir.Associate:
            assoc = ','.join(f'{_name(a)}={_name(b)}' for a, b in obj.associations)
            tag = str(obj.label)
            if assoc != 'p_assoc=q_assoc':
                tag += '!associations'
            return {'k': 'assoc', 't': tag + _extra(obj, {'source': None}), 'b': [self.slot(obj.body)], 'o': oid}
        if t is ir.TypeDef:
            return {'k': 'tdef', 't': str(obj.name), 'b': [self.slot(obj.body)], 'o': oid}
        if t is ir.Conditional:
            return {'k': 'cond', 't': _name(obj.condition) + _lab(obj) + _extra(obj, {'inline': False, 'has_elseif': False, 'name': None, 'source': None}),
                    'b': [self.slot(obj.body), self.slot(obj.else_body)], 'o': oid}
        if t is ir.MultiConditional:
            tag = _name(obj.expr)
            vals = ','.join('/'.join(str(v) for v in vs) for vs in obj.values) if isinstance(obj.values, tuple) else '?'
            # the i-th case body belongs to the i-th case value: a changed number of bodies shows as a changed number of slots
            if vals != ','.join(str(i + 1) for i in range(len(obj.values))):
                tag += '!values'
            bodies = obj.bodies if isinstance(obj.bodies, tuple) else (obj.bodies,)
            slots = [self.slot(b) for b in bodies]
            return {'k': 'multi', 't': tag + _lab(obj) + _extra(obj, {'name': None, 'source': None}),
                    'b': slots + [self.slot(obj.else_body)], 'o': oid}
        return {'k': 'other:' + t.__name__, 't': '', 'b': [], 'o': oid}

    def slot(self, body):
        if body is None:
            return []
        if not isinstance(body, (tuple, list)):
            return [self.node(body)]
        return self.seq(body)


def flatten_top(ret):
    """The value returned by `visit`: None, a node or a (possibly nested) tuple -> flat list of objects."""
    if ret is None:
        return []
    if isinstance(ret, (tuple, list)):
        out = []
        for r in ret:
            out += flatten_top(r)
        return out
    return [ret]


def object_table(objs):
    """id(obj) -> 1.. in pre-order of first visit (own recursion over the concrete attributes)."""
    from loki import ir
    table = {}
    keep = []

    def walk(o):
        if isinstance(o, (tuple, list)):
            for x in o:
                walk(x)
            return
        if o is None:
            return
        if id(o) not in table:
            table[id(o)] = len(table) + 1
            keep.append(o)
        t = type(o)
        if t in (ir.Loop, ir.Section, ir.Associate, ir.TypeDef):
            walk(o.body)
        elif t is ir.Conditional:
            walk(o.body)
            walk(o.else_body)
        elif t is ir.MultiConditional:
            for b in o.bodies:
                walk(b)
            walk(o.else_body)
    walk(objs)
    return table, keep


# --------------------------------------------------------------------------------------------
# seeded random abstract trees (beyond the TLC-enumerated universe)

def random_forest(rng: random.Random, n, depth, kinds, fresh_tag, dup_pool, dup_p=0.15):
    """A list of trees with exactly n nodes in total."""
    out = []
    while n > 0:
        j = rng.randint(1, n)
        out.append(random_tree(rng, j, depth, kinds, fresh_tag, dup_pool, dup_p))
        n -= j
    return out


def random_tree(rng, n, depth, kinds, fresh_tag, dup_pool, dup_p):
    cands = [d for d in dup_pool if size(d) == n]
    if cands and rng.random() < dup_p:
        return strip(rng.choice(cands))          # a duplicate (equal term) of an earlier sub-tree
    leafk = [k for k in kinds if k in KINDS_LEAF]
    intk = [k for k in kinds if k not in KINDS_LEAF]
    if n == 1 and (depth <= 1 or not intk or rng.random() < 0.7):
        t = node(rng.choice(leafk), fresh_tag())
    elif depth <= 1 or not intk:
        t = node(rng.choice(leafk), fresh_tag())   # cannot nest any deeper: caller gets fewer nodes
    else:
        k = rng.choice(intk)
        ns = NSLOTS.get(k) or rng.choice((2, 3, 3, 4))
        rest = n - 1
        cuts = sorted(rng.randint(0, rest) for _ in range(ns - 1))
        parts = [b - a for a, b in zip([0] + cuts, cuts + [rest])]
        tag = fresh_tag()
        t = node(k, tag, [random_forest(rng, p, depth - 1, kinds, fresh_tag, dup_pool, dup_p) for p in parts])
    dup_pool.append(t)
    return t
