"""IFS-style driver/kernel call trees for C37 (SCC pipelines) and C38 (temporaries: hoist / stack / pool).

Programs are MiniFortran JSON (spec/FMachine.tla); the expected behaviour is computed by TLC only
(Trace_FMachine).  This module
  * derives call trees  kernel (driver role: block loop)  ->  k1 [, k2] (kernel role)  ->  n1 / n2 (nested kernels)
    over fields q, t (klon, klev, nb), s [, m] (klon, nb) with vertical loops, innermost horizontal loops, vector
    notation, local temporaries of several ranks / types / size expressions, conditionals on column values;
  * drives the Loki pipelines / transformations through the real Scheduler;
  * builds original and transformed sources with gfortran (own compile step: -fcray-pointer, and for the
    transformed code -fcheck=bounds -fsanitize=address = the "enough storage" observation);
  * validates everything that was printed with TLC against the machine (behaviour_check_multi: one original,
    many transformation variants per program).

Legal input domain of the SCC pipelines (C37; documented assumptions, enforced by the generator):
  - columns are independent: the horizontal subscript is always the plain horizontal index, no horizontal
    reductions / shifts; scalars defined inside a horizontal loop are defined before use in every iteration;
  - data without a horizontal dimension is local to the kernel or read-only; kernels do not print.
The generator tracks which elements of every array are defined (the machine rejects undefined reads: such
programs are dropped as illegal, never judged)."""
import copy
import os
import re
import subprocess
from fractions import Fraction

from . import lib_fm as F
from .lib_fm import V, N, R, op, call, el, cmp_, assign, decl, unit, NONE, rng_
from .core import MachineryError

NAMES = {
    'ifs': dict(klon='klon', klev='klev', nb='ngpblks', start='kidia', end='kfdia', jl='jl', jk='jk', ibl='ibl'),
    'alt': dict(klon='nlon', klev='nz', nb='nb', start='start', end='end', jl='jl', jk='jk', ibl='b'),
}


def xdecl(name, ty, intent, xdims, kind=None):
    d = decl(name, ty, intent, [(1, 1)] * len(xdims))
    d['xdims'] = [[lo or NONE, hi] for lo, hi in xdims]
    if kind:
        d['kind'] = kind
    return d


def do(var, lo, hi, body):
    return {'s': 'do', 'var': var, 'lo': lo, 'hi': hi, 'st': NONE, 'body': body}


def if_(cond, body, els=None):
    return {'s': 'if', 'conds': [cond], 'bodies': [body], 'els': els or []}


def callst(name, *args):
    return {'s': 'call', 'name': name, 'args': list(args)}


def raw(text):
    return {'s': 'raw', 'text': text}


def add(*c):
    return op('sum', *c)


# ============================================================================================ renderer
KINDS = {'int': 'integer(kind=jpim)', 'real': 'real(kind=jprb)', 'log': 'logical'}


def rdecl_scc(d, is_arg):
    ty = KINDS[d['type']]
    if d.get('kind'):
        ty = f"real(kind={d['kind']})"
    attrs = [ty]
    if is_arg and d['intent'] in ('in', 'out', 'inout'):
        attrs.append(f"intent({d['intent']})")
    dims = ''
    if d.get('xdims'):
        def xb(lo, hi):
            return F.rx(hi) if lo == NONE else f'{F.rx(lo)}:{F.rx(hi)}'
        dims = '(' + ', '.join(xb(lo, hi) for lo, hi in d['xdims']) + ')'
    elif d['dims']:
        dims = '(' + ', '.join(f'{lo}:{hi}' for lo, hi in d['dims']) + ')'
    return f"{', '.join(attrs)} :: {d['name']}{dims}"


def render_scc(prog):
    lines = ['module kmod', '  implicit none',
             '  integer, parameter :: jprb = selected_real_kind(13, 300)',
             '  integer, parameter :: jprd = selected_real_kind(13, 300)',
             '  integer, parameter :: jpim = selected_int_kind(9)',
             f"  integer, parameter :: jwim = selected_int_kind({18 if prog.get('jwim8') else 9})",
             'contains']
    for u in prog['units']:
        lines.append(f"  subroutine {u['name']}({', '.join(u['args'])})")
        for d in u['decls']:
            lines.append('    ' + rdecl_scc(d, d['name'] in u['args']))
        lines += F.rstmts(u['body'], 4, None)
        lines.append(f"  end subroutine {u['name']}")
    lines.append('end module kmod')
    return '\n'.join(lines) + '\n'


F.RENDERERS['scc'] = render_scc


# ============================================================================================ generator
class Arr:
    """A horizontal / vertical / constant-extent array known to the kernel being generated.
    dims: list of ('h',) | ('v', lb, ub) | ('c', n);  defined: set of index tuples over the non-'h' dims that hold a
    value for every column of the horizontal iteration range (or for all columns if there is no 'h' dim)."""

    def __init__(self, name, ty, dims, writable, defined=(), tmp=False, kind=None, intent='local'):
        self.name, self.ty, self.dims, self.writable, self.tmp, self.kind, self.intent = name, ty, dims, writable, tmp, kind, intent
        self.defined = set(defined)

    def all_idx(self):
        out = [()]
        for d in self.dims:
            if d[0] == 'v':
                out = [o + (l,) for o in out for l in range(d[1], d[2] + 1)]
            elif d[0] == 'c':
                out = [o + (i,) for o in out for i in range(1, d[1] + 1)]
        return out

    @property
    def horizontal(self):
        return any(d[0] == 'h' for d in self.dims)


class GenSCC(F.Gen):
    """features: 'nested' nested kernel calls, 'vecnot' vector notation, 'twokernels', 'drvloop' vector code in the
    driver loop, 'carry' values carried over vertical iterations next to a nested call, 'fuse' loop-fusion pragmas,
    'accum' non-idempotent scalar updates between horizontal loops (outside the single-column domain proper: own class),
    'free' (C38 only: not SCC-legal) whole-array statements, temporaries without leading horizontal dimension,
    'kinds' temporaries of a second real kind name / integer / logical type, 'sizes' calls with different extents."""

    def __init__(self, rng, features=(), names='ifs'):
        super().__init__(rng, features)
        self.nk = names
        self.nm = NAMES[names]

    # ------------------------------------------------------------------ small helpers
    def lit(self):
        return self.rng.choice([R(1, 2), R(2), R(1), R(1, 4), R(3, 2), R(0)])

    def ref(self, a, idx):
        """idx: per dim  'jl' | ('jk', off) | ('fix', n)"""
        nm = self.nm
        subs = []
        for d, i in zip(a.dims, idx):
            if d[0] == 'h':
                subs.append(V(nm['jl']))
            elif i[0] == 'jk':
                subs.append(V(nm['jk']) if i[1] == 0 else add(V(nm['jk']), N(i[1])))
            else:
                if d[0] == 'v' and i[1] == self.klev and self.rng.random() < 0.5:
                    subs.append(V(nm['klev']))
                else:
                    subs.append(N(i[1]))
        return el(a.name, *subs)

    def concrete(self, a, idx, levels):
        """Index tuples (over the non-'h' dims) touched by the reference for the given vertical iteration levels."""
        out = [()]
        for d, i in zip(a.dims, idx):
            if d[0] == 'h':
                continue
            if i[0] == 'jk':
                out = [o + (l + i[1],) for o in out for l in levels] if len(out) == 1 else None
                if out is None:
                    raise MachineryError('two jk subscripts')
            else:
                out = [o + (i[1],) for o in out]
        return out

    def inbounds(self, a, idx, levels):
        for d, i in zip(a.dims, idx):
            if d[0] == 'v':
                ls = [l + i[1] for l in levels] if i[0] == 'jk' else [i[1]]
                if any(l < d[1] or l > d[2] for l in ls):
                    return False
            if d[0] == 'c' and not 1 <= i[1] <= d[1]:
                return False
        return True

    def idx_options(self, a, lc, for_write=False):
        """All subscript choices for array a in loop context lc (None outside a vertical loop)."""
        opts = [()]
        for d in a.dims:
            if d[0] == 'h':
                cur = ['jl']
            elif d[0] == 'v':
                cur = []
                if lc:
                    cur += [('jk', 0), ('jk', 0), ('jk', -1), ('jk', 1)]
                if (not lc or (not for_write and self.rng.random() < 0.3)) and not getattr(self, 'symbolic_levels', False):
                    cur += [('fix', d[1]), ('fix', d[2])]
            else:
                cur = [('fix', i) for i in range(1, d[1] + 1)]
            opts = [o + (c,) for o in opts for c in cur]
        levels = lc['levels'] if lc else []
        return [o for o in opts if self.inbounds(a, o, levels)]

    def can_read(self, a, idx, lc, body):
        if (a.name, idx) in body['w']:
            return True
        levels = lc['levels'] if lc else [0]
        if lc and any(i != 'jl' and i[0] == 'jk' and i[1] == -1 for i in idx) and (a.name, tuple(('jk', 0) if (i != 'jl' and i[0] == 'jk') else i for i in idx)) in body['w']:
            # written at level jk earlier in this iteration: level jk-1 was written by the previous iteration
            first = self.concrete(a, idx, levels[:1])
            return all(c in a.defined for c in first)
        return all(c in a.defined for c in self.concrete(a, idx, levels))

    # ------------------------------------------------------------------ expressions in a column context
    def rleaves(self, ks, lc, body):
        out = []
        for a in ks['arrs'].values():
            if a.ty != 'real' or (a.horizontal and not body['inh']):
                continue
            for idx in self.idx_options(a, lc):
                if self.can_read(a, idx, lc, body):
                    out.append(self.ref(a, idx))
        for s_, ok in ks['inv'].items():
            if ok:
                out.append(V(s_))
        for s_ in body['priv']:
            out.append(V(s_))
        return out

    def rexpr(self, ks, lc, body, depth=2):
        rng = self.rng
        leaves = self.rleaves(ks, lc, body)

        def leaf():
            r = rng.random()
            if leaves and r < 0.75:
                return copy.deepcopy(rng.choice(leaves))
            if lc and r < 0.82:
                return call('real', V(self.nm['jk']))
            return self.lit()

        def go(d):
            if d <= 0 or rng.random() < 0.3:
                return leaf()
            r = rng.random()
            if r < 0.3:
                return add(go(d - 1), go(d - 1))
            if r < 0.45:
                return add(go(d - 1), op('neg', leaf()))
            if r < 0.65:
                return op('prod', go(d - 1), rng.choice([R(1, 2), R(2), R(1, 4)]))
            if r < 0.72:
                return op('prod', leaf(), leaf())
            if r < 0.8:
                return op('quot', go(d - 1), rng.choice([R(2), R(4)]))
            if r < 0.88:
                return call(rng.choice(['max', 'min']), go(d - 1), self.lit())
            if r < 0.94:
                return call('abs', go(d - 1))
            return op('par', add(go(d - 1), leaf()))
        return go(depth)

    def cond(self, ks, lc, body):
        rng = self.rng
        cands = []
        for a in ks['arrs'].values():
            if a.ty in ('int', 'log') and a.horizontal and body['inh']:
                for idx in self.idx_options(a, lc):
                    if self.can_read(a, idx, lc, body):
                        r = self.ref(a, idx)
                        cands.append(r if a.ty == 'log' else cmp_(rng.choice(['>', '<=', '==']), r, N(rng.randint(0, 2))))
        c = cmp_(rng.choice(['>', '<', '>=', '<=']), self.rexpr(ks, lc, body, 1), self.lit())
        r = rng.random()
        if cands and r < 0.4:
            c2 = rng.choice(cands)
            if rng.random() < 0.3:
                return op(rng.choice(['and', 'or']), c, c2)
            if rng.random() < 0.2 and c2['k'] != 'cmp':
                return op('not', c2)
            return c2
        if ks.get('flag') and r < 0.5:
            return op('and', V('flag'), c)
        return c

    # ------------------------------------------------------------------ column statements (inside a horizontal loop)
    def col_stmts(self, ks, lc, body, n, depth=1, cond_ctx=False):
        rng = self.rng
        out = []
        for _ in range(n):
            kinds = ['a', 'a', 'a', 'a', 'priv']
            if depth > 0:
                kinds += ['if', 'if']
            k = rng.choice(kinds)
            if k == 'if':
                saved = (set(body['w']), set(body['priv']))
                c = self.cond(ks, lc, body)
                b1 = self.col_stmts(ks, lc, body, rng.randint(1, 2), depth - 1, True)
                w1 = set(body['w'])
                body['w'], body['priv'] = set(saved[0]), set(saved[1])
                b2 = self.col_stmts(ks, lc, body, 1, depth - 1, True) if rng.random() < 0.5 else []
                w2 = set(body['w'])
                body['w'], body['priv'] = set(saved[0]) | ((w1 & w2) if b2 else set()), set(saved[1])
                if b2 and not cond_ctx:
                    for key in (w1 & w2) - saved[0]:
                        body['uw'].add(key)
                out.append(if_(c, b1, b2))
                continue
            if k == 'priv':
                z = rng.choice(ks['privs'])
                e = self.rexpr(ks, lc, body)
                out.append(assign(V(z), e))
                body['priv'].add(z)
                continue
            targets = []
            for a in ks['arrs'].values():
                if not a.writable or not a.horizontal:
                    continue
                for idx in self.idx_options(a, lc, for_write=True):
                    targets.append((a, idx))
            if not targets:
                z = rng.choice(ks['privs'])
                out.append(assign(V(z), self.rexpr(ks, lc, body)))
                body['priv'].add(z)
                continue
            # prefer temporaries now and then so that they get defined
            tmps = [t_ for t_ in targets if t_[0].tmp]
            a, idx = rng.choice(tmps if tmps and rng.random() < 0.45 else targets)
            if a.ty == 'real':
                e = self.rexpr(ks, lc, body)
            elif a.ty == 'int':
                src = [x for x in ks['arrs'].values() if x.ty == 'int' and x.horizontal]
                base = None
                for x in src:
                    for i2 in self.idx_options(x, lc):
                        if self.can_read(x, i2, lc, body):
                            base = self.ref(x, i2)
                inner = add(base, N(rng.randint(1, 3))) if base is not None else N(rng.randint(0, 3))
                if lc and rng.random() < 0.5:
                    inner = add(inner, V(self.nm['jk']))
                e = call('mod', inner, N(rng.choice([3, 4, 5])))
            else:
                e = cmp_(rng.choice(['>', '<']), self.rexpr(ks, lc, body, 1), self.lit())
            out.append(assign(self.ref(a, idx), e))
            body['w'].add((a.name, idx))
            if not cond_ctx:
                body['uw'].add((a.name, idx))
        return out

    def new_body(self, lc, inh=True):
        return {'w': set(lc['w']) if lc else set(), 'uw': set(), 'priv': set(), 'inh': inh}

    def commit(self, ks, lc, body):
        """Unconditional writes of a finished horizontal loop become visible: to the rest of the vertical iteration
        (lc['w']) and, at the end of the vertical loop (or at once outside one), to the definedness map."""
        if lc:
            lc['w'] |= body['uw']
            lc['uw'] |= body['uw']
        else:
            for name, idx in body['uw']:
                a = ks['arrs'][name]
                a.defined |= set(self.concrete(a, idx, [0]))

    def end_vloop(self, ks, lc):
        for name, idx in lc['uw']:
            a = ks['arrs'][name]
            a.defined |= set(self.concrete(a, idx, lc['levels']))

    def hloop(self, ks, lc, n=None):
        nm = self.nm
        body = self.new_body(lc)
        ss = self.col_stmts(ks, lc, body, n or self.rng.randint(1, 3))
        self.commit(ks, lc, body)
        return do(nm['jl'], V(nm['start']), V(nm['end']), ss)

    def vecnot(self, ks, lc):
        """Vector notation over the horizontal range: one assignment, every horizontal subscript start:end."""
        nm = self.nm
        body = self.new_body(lc)
        ss = self.col_stmts(ks, lc, body, 1, depth=0)
        self.commit(ks, lc, body)
        sec = rng_(V(nm['start']), V(nm['end']))

        def sub(e):
            if isinstance(e, dict):
                if e.get('k') == 'var' and e.get('name') == nm['jl']:
                    return copy.deepcopy(sec)
                return {k: sub(v) for k, v in e.items()}
            if isinstance(e, list):
                return [sub(x) for x in e]
            return e
        s = ss[0]
        if s['lhs']['k'] != 'arr' or any(x.get('k') == 'var' and x.get('name') in ks['privs'] for x in _walk(s['rhs'])):
            return do(nm['jl'], V(nm['start']), V(nm['end']), ss)
        return sub(s)

    # ------------------------------------------------------------------ blocks of a kernel body
    def vrange(self):
        if getattr(self, 'symbolic_levels', False):
            return 1, self.klev
        lo = self.rng.choice([1, 1, 2]) if self.klev >= 2 else 1
        hi = self.rng.choice([self.klev, self.klev, self.klev - 1]) if self.klev - 1 >= lo else self.klev
        return lo, hi

    def bound_exprs(self, lo, hi):
        nm = self.nm
        hi_e = V(nm['klev']) if hi == self.klev else add(V(nm['klev']), N(hi - self.klev))
        return N(lo), hi_e

    def vloop(self, ks, with_call=None, rng_fixed=None):
        rng = self.rng
        nm = self.nm
        lo, hi = rng_fixed or self.vrange()
        lc = {'levels': list(range(lo, hi + 1)), 'w': set(), 'uw': set()}
        inner = []
        for _ in range(rng.choice([1, 1, 2])):
            r = rng.random()
            if r < 0.15 and ks['inv'] and not getattr(self, 'in_fuse', False):
                # loop-variant (in jk) scalar defined outside the horizontal loop: idempotent assignment
                c = rng.choice(list(ks['inv']))
                inner.append(assign(V(c), op('prod', call('real', V(nm['jk'])), rng.choice([R(1, 2), R(1, 4)]))))
                ks['inv'][c] = True
            if 'vecnot' in self.f and rng.random() < 0.25:
                inner.append(self.vecnot(ks, lc))
            else:
                inner.append(self.hloop(ks, lc))
            if with_call and rng.random() < 0.7:
                cs = with_call(ks, lc)
                if cs:
                    inner += cs
                with_call = None
        self.end_vloop(ks, lc)
        lo_e, hi_e = self.bound_exprs(lo, hi)
        return do(nm['jk'], lo_e, hi_e, inner)

    def carry_block(self, ks):
        """jk loop { horizontal loop reading a 1-d temporary written by the previous vertical iteration (guarded for the
        first one) ; call of the level kernel n2 }: the temporary carries values across vertical iterations."""
        nm = self.nm
        n2 = self.nested.get('n2')
        tmp = next((a for a in ks['arrs'].values() if a.tmp and a.ty == 'real' and a.dims == [('h',)]), None)
        two = [a for a in ks['arrs'].values() if a.ty == 'real' and a.writable and a.dims == [('h',), ('v', 1, self.klev)]
               and len(a.defined) == self.klev]
        if not n2 or tmp is None or len(two) < 2:
            return []
        tgt, src = self.rng.sample(two, 2)
        jl, jk = V(nm['jl']), V(nm['jk'])
        body = [if_(cmp_('>', jk, N(1)), [assign(el(tgt.name, jl, jk), add(el(tgt.name, jl, jk), el(tmp.name, jl)))]),
                assign(el(tmp.name, jl), op('prod', el(src.name, jl, jk), R(1, 2)))]
        loop = do(nm['jk'], N(1), V(nm['klev']), [
            do(nm['jl'], V(nm['start']), V(nm['end']), body),
            callst('n2', V(nm['start']), V(nm['end']), V(nm['klon']), el(src.name, rng_(), jk), el(tgt.name, rng_(), jk))])
        tmp.defined.add(())
        return [loop]

    def call_n1(self, ks):
        n1 = self.nested.get('n1')
        if not n1:
            return []
        nm = self.nm
        full = [a for a in ks['arrs'].values() if a.ty == 'real' and a.dims == [('h',), ('v', 1, self.klev)]]
        ins = [a for a in full if len(a.defined) == self.klev]
        if not ins:
            return []
        x = self.rng.choice(ins)
        outs = [a for a in full if a.writable and a is not x and (n1['yintent'] == 'out' or len(a.defined) == self.klev)]
        if not outs:
            return []
        y = self.rng.choice(outs)
        y.defined |= set(y.all_idx())
        args = [V(nm['start']), V(nm['end']), V(nm['klon']), V(nm['klev']), V(x.name), V(y.name)]
        if 'sizes' in self.f and self.rng.random() < 0.4 and self.klev > 1 and n1['yintent'] != 'out':
            # same storage, fewer levels: the callee's temporaries get a different extent at this call site
            args[3] = add(V(nm['klev']), N(-1))
        return [callst('n1', *args)]

    def call_n2(self, ks, lc):
        """Level kernel n2(start, end, klon, p, r) on level slices (inside a vertical loop) or 1-d arrays."""
        n2 = self.nested.get('n2')
        if not n2:
            return []
        nm = self.nm
        body = self.new_body(lc)
        body['inh'] = True
        cands = []
        for a in ks['arrs'].values():
            if a.ty != 'real' or not a.horizontal or a.dims[0] != ('h',):
                continue
            for idx in self.idx_options(a, lc):
                if self.can_read(a, idx, lc, body):
                    cands.append((a, idx))
        if len({c[0].name for c in cands}) < 2:
            return []
        p = self.rng.choice(cands)
        rs = [c for c in cands if c[0].writable and c[0].name != p[0].name]
        if not rs:
            return []
        r = self.rng.choice(rs)

        def actual(a, idx):
            e = self.ref(a, idx)
            if len(a.dims) == 1:
                return V(a.name)
            e['c'][0] = rng_()
            return e
        return [callst('n2', V(nm['start']), V(nm['end']), V(nm['klon']), actual(*p), actual(*r))]

    def scalar_block(self, ks):
        c = self.rng.choice(list(ks['inv']))
        others = [s_ for s_, ok in ks['inv'].items() if ok and s_ != c]
        if 'accum' in self.f and ks['inv'][c] and self.rng.random() < 0.6:
            e = op('prod', V(c), self.rng.choice([R(1, 2), R(2)])) if self.rng.random() < 0.5 else add(V(c), R(1, 2))
        elif others and self.rng.random() < 0.4:
            e = add(op('prod', V(self.rng.choice(others)), R(1, 2)), self.lit())
        else:
            e = self.lit()
        ks['inv'][c] = True
        return [assign(V(c), e)]

    def vert_block(self, ks):
        """Vertical-only local array (no horizontal dimension) defined level by level."""
        zs = [a for a in ks['arrs'].values() if a.tmp and not a.horizontal and a.ty == 'real']
        if not zs:
            return []
        a = self.rng.choice(zs)
        nm = self.nm
        e = add(op('prod', call('real', V(nm['jk'])), R(1, 4)), self.lit())
        a.defined |= set(a.all_idx())
        d = a.dims[0]
        return [do(nm['jk'], N(d[1]), V(nm['klev']) if d[2] == self.klev else add(V(nm['klev']), N(d[2] - self.klev)), [assign(el(a.name, V(nm['jk'])), e)])]

    def whole_block(self, ks):
        """(C38 'free' only) whole-array / full-section definitions of a temporary: tmp = c ; tmp(:, :) = c ; tmp(:, jk) = .."""
        tm = [a for a in ks['arrs'].values() if a.tmp and a.ty in ('real', 'int')]
        if not tm:
            return []
        a = self.rng.choice(tm)
        v = self.lit() if a.ty == 'real' else N(self.rng.randint(0, 3))
        a.defined |= set(a.all_idx())
        if self.rng.random() < 0.5:
            return [assign(V(a.name), v)]
        return [assign(el(a.name, *[rng_() for _ in a.dims]), v)]

    def fuse_block(self, ks):
        """Two or three vertical loops marked !$loki loop-fusion group(g): every array written in the group is only
        referenced at level jk inside the group, so that fusing the loops is legal."""
        rng = self.rng
        self.fuse_no = getattr(self, 'fuse_no', 0) + 1
        g = f'g{self.fuse_no}'
        saved_opts = self.idx_options

        def only_jk(a, lc, for_write=False):
            # arrays without a vertical dimension and loop-variant scalars would carry values from one vertical loop
            # into the other: inside the group they are read-only
            if for_write and not any(d[0] == 'v' for d in a.dims):
                return []
            return [o for o in saved_opts(a, lc, for_write) if all(i == 'jl' or i == ('jk', 0) or (i[0] == 'fix' and not a.writable) for i in o)]
        out = []
        same = rng.random() < 0.6
        first = (1, self.klev)
        self.idx_options = only_jk
        self.in_fuse = True
        try:
            for k in range(rng.choice([2, 2, 3])):
                r_ = first if (same or k == 0) else (min(2, self.klev), self.klev)
                out.append(raw(f'!$loki loop-fusion group({g})'))
                out.append(self.vloop(ks, rng_fixed=r_))
        finally:
            self.idx_options = saved_opts
            self.in_fuse = False
        return out

    # ------------------------------------------------------------------ kernels
    def temporaries(self, prefix, n):
        """Local temporaries: name -> Arr (+ declaration).  Shapes/size expressions: (klon) (klon,klev) (klon,0:klev)
        (klon,klev+1) (klon,2) (klon,2,klev) (klev) and for C38 (klev,klon)."""
        rng = self.rng
        nm = self.nm
        K, L = V(nm['klon']), V(nm['klev'])
        shapes = [('1', [('h',)], [(None, K)]), ('1', [('h',)], [(None, K)]),
                  ('2', [('h',), ('v', 1, self.klev)], [(None, K), (None, L)]),
                  ('2', [('h',), ('v', 1, self.klev)], [(None, K), (None, L)]),
                  ('h', [('h',), ('v', 0, self.klev)], [(None, K), (N(0), L)]),
                  ('p', [('h',), ('v', 1, self.klev + 1)], [(None, K), (None, add(L, N(1)))]),
                  ('c', [('h',), ('c', 2)], [(None, K), (None, N(2))]),
                  ('3', [('h',), ('c', 2), ('v', 1, self.klev)], [(None, K), (None, N(2)), (None, L)]),
                  ('v', [('v', 1, self.klev)], [(None, L)])]
        if 'free' in self.f:
            shapes += [('w', [('v', 1, self.klev), ('h',)], [(None, L), (None, K)]),
                       ('x', [('h',), ('v', 1, 2 * self.klev)], [(None, K), (None, op('prod', N(2), L))])]
        out, decls = {}, []
        for i in range(n):
            tag, dims, xd = rng.choice(shapes)
            ty, kind = 'real', None
            if 'kinds' in self.f and tag in '12hc':
                r = rng.random()
                if r < 0.2:
                    ty = 'int'
                elif r < 0.35:
                    ty = 'log'
                elif r < 0.55:
                    kind = 'jprd'
            name = f'{prefix}{ {"real": "z", "int": "i", "log": "l"}[ty] }{tag}{i + 1}'
            out[name] = Arr(name, ty, dims, True, tmp=True, kind=kind)
            decls.append(xdecl(name, ty, 'local', xd, kind))
        return out, decls

    def kernel_body(self, ks, nblocks, allow_calls=True):
        rng = self.rng
        out = []
        for _ in range(nblocks):
            kinds = ['vloop', 'vloop', 'vloop', 'hloop', 'scalar']
            if 'vecnot' in self.f:
                kinds.append('vecnot')
            if any(a.tmp and not a.horizontal for a in ks['arrs'].values()):
                kinds.append('vert')
            if allow_calls and self.nested.get('n1'):
                kinds += ['calln1', 'calln1']
            if allow_calls and self.nested.get('n2'):
                kinds += ['vloopcall', 'calln2']
                if 'carry' in self.f:
                    kinds += ['carry', 'carry']
            if 'fuse' in self.f:
                kinds += ['fuse']
            if 'free' in self.f:
                kinds += ['whole', 'whole']
            if ks.get('flag') or True:
                kinds.append('ifscalar')
            k = rng.choice(kinds)
            if k == 'vloop':
                out.append(self.vloop(ks))
            elif k == 'hloop':
                out.append(self.hloop(ks, None))
            elif k == 'vecnot':
                out.append(self.vecnot(ks, None))
            elif k == 'scalar':
                out += self.scalar_block(ks)
            elif k == 'vert':
                out += self.vert_block(ks)
            elif k == 'calln1':
                out += self.call_n1(ks)
            elif k == 'calln2':
                out += self.call_n2(ks, None)
            elif k == 'vloopcall':
                out.append(self.vloop(ks, with_call=self.call_n2))
            elif k == 'carry':
                out += self.carry_block(ks)
            elif k == 'fuse':
                out += self.fuse_block(ks)
            elif k == 'whole':
                out += self.whole_block(ks)
            elif k == 'ifscalar':
                # condition on loop-invariant data; definitions made inside do not count afterwards
                saved = {n_: set(a.defined) for n_, a in ks['arrs'].items()}
                sinv = dict(ks['inv'])
                nm = self.nm
                conds = [cmp_('>', V(nm['klev']), N(2)), cmp_('>=', V(nm['klon']), N(3))]
                if ks.get('flag'):
                    conds += [V('flag'), V('flag'), op('not', V('flag'))]
                c = rng.choice(conds)
                b1 = self.kernel_body(ks, rng.randint(1, 2), allow_calls)
                for n_, a in ks['arrs'].items():
                    a.defined = set(saved[n_])
                ks['inv'] = dict(sinv)
                b2 = self.kernel_body(ks, 1, allow_calls) if rng.random() < 0.4 else []
                for n_, a in ks['arrs'].items():
                    a.defined = set(saved[n_])
                ks['inv'] = dict(sinv)
                if b1:
                    out.append(if_(c, b1, b2))
        return out

    def make_kernel(self, name, fields, nblocks, ntmp, flag):
        """fields: list of (dummy name, type, dims spec, intent) bound by the caller."""
        nm = self.nm
        K, L = V(nm['klon']), V(nm['klev'])
        arrs, decls = {}, []
        args = [nm['start'], nm['end'], nm['klon'], nm['klev']]
        decls += [decl(a, 'int', 'in') for a in args]
        for fname, ty, rank, intent in fields:
            dims = [('h',), ('v', 1, self.klev)] if rank == 2 else [('h',)]
            arrs[fname] = Arr(fname, ty, dims, intent != 'in', intent=intent)
            arrs[fname].defined = set(arrs[fname].all_idx())
            decls.append(xdecl(fname, ty, intent, [(None, K), (None, L)] if rank == 2 else [(None, K)]))
            args.append(fname)
        if flag:
            args.append('flag')
            decls.append(decl('flag', 'log', 'in'))
        tmps, tdecls = self.temporaries(name[0] if name[0] != 'k' else '', ntmp)
        arrs.update(tmps)
        privs = ['zcol1', 'zcol2']
        inv = {'zinv1': False, 'zinv2': False}
        decls += tdecls + [decl(v, 'real') for v in privs + list(inv)] + [decl(nm['jl'], 'int'), decl(nm['jk'], 'int')]
        ks = {'arrs': arrs, 'privs': privs, 'inv': inv, 'flag': flag}
        body = self.kernel_body(ks, nblocks, allow_calls=True)
        return unit(name, args, decls, body)

    def make_n1(self):
        """n1(start, end, klon, klev, x, y): x(klon, klev) in, y(klon, klev) inout | out; own temporaries."""
        nm = self.nm
        yint = self.rng.choice(['inout', 'inout', 'out'])
        K, L = V(nm['klon']), V(nm['klev'])
        args = [nm['start'], nm['end'], nm['klon'], nm['klev'], 'px', 'py']
        decls = [decl(a, 'int', 'in') for a in args[:4]] + [xdecl('px', 'real', 'in', [(None, K), (None, L)]),
                                                            xdecl('py', 'real', yint, [(None, K), (None, L)])]
        arrs = {'px': Arr('px', 'real', [('h',), ('v', 1, self.klev)], False, intent='in'),
                'py': Arr('py', 'real', [('h',), ('v', 1, self.klev)], True, intent=yint)}
        # NOTE: n1 may be called with klev-1 levels ('sizes'): it only ever uses klev as a symbol, so the level
        # bookkeeping below (done for the full extent) is valid for the smaller extent as well
        arrs['px'].defined = set(arrs['px'].all_idx())
        pre = []
        if yint == 'inout':
            arrs['py'].defined = set(arrs['py'].all_idx())
        else:
            jl, jk = V(nm['jl']), V(nm['jk'])
            pre = [do(nm['jk'], N(1), L, [do(nm['jl'], V(nm['start']), V(nm['end']),
                                             [assign(el('py', jl, jk), op('prod', el('px', jl, jk), self.rng.choice([R(1, 2), R(2)])))])])]
            arrs['py'].defined = set(arrs['py'].all_idx())
        tmps, tdecls = self.temporaries('n', self.rng.randint(1, 2))
        arrs.update(tmps)
        privs = ['zcol1', 'zcol2']
        inv = {'zinv1': False, 'zinv2': False}
        decls += tdecls + [decl(v, 'real') for v in privs + list(inv)] + [decl(nm['jl'], 'int'), decl(nm['jk'], 'int')]
        ks = {'arrs': arrs, 'privs': privs, 'inv': inv, 'flag': False}
        saved = dict(self.nested)
        self.nested = {k: v for k, v in self.nested.items() if k == 'n2'}     # n1 may call the level kernel n2
        # 'sizes': n1 is also called with klev-1 levels, so every level reference stays symbolic (jk, jk+-1 over 1..klev)
        self.symbolic_levels = 'sizes' in self.f
        try:
            body = pre + self.kernel_body(ks, self.rng.randint(1, 3), allow_calls=True)
        finally:
            self.symbolic_levels = False
        self.nested = saved
        return unit('n1', args, decls, body), {'yintent': yint}

    def make_n2(self):
        """n2(start, end, klon, p, r): level kernel on 1-d slices, with a 1-d temporary."""
        nm = self.nm
        K = V(nm['klon'])
        args = [nm['start'], nm['end'], nm['klon'], 'pp', 'pr']
        decls = [decl(a, 'int', 'in') for a in args[:3]] + [xdecl('pp', 'real', 'in', [(None, K)]), xdecl('pr', 'real', 'inout', [(None, K)])]
        arrs = {'pp': Arr('pp', 'real', [('h',)], False, defined=[()], intent='in'),
                'pr': Arr('pr', 'real', [('h',)], True, defined=[()], intent='inout')}
        tmps, tdecls = {}, []
        for i in range(self.rng.randint(1, 2)):
            n_ = f'mz{i + 1}'
            tmps[n_] = Arr(n_, 'real', [('h',)], True, tmp=True)
            tdecls.append(xdecl(n_, 'real', 'local', [(None, K)]))
        arrs.update(tmps)
        privs = ['zcol1', 'zcol2']
        inv = {'zinv1': False}
        decls += tdecls + [decl(v, 'real') for v in privs + list(inv)] + [decl(nm['jl'], 'int')]
        ks = {'arrs': arrs, 'privs': privs, 'inv': inv, 'flag': False}
        body = []
        for _ in range(self.rng.randint(1, 3)):
            r = self.rng.random()
            if r < 0.2:
                body += self.scalar_block(ks)
            elif r < 0.35 and 'vecnot' in self.f:
                body.append(self.vecnot(ks, None))
            else:
                body.append(self.hloop(ks, None))
        return unit('n2', args, decls, body), {}

    # ------------------------------------------------------------------ whole programs
    def program(self, nblocks=3, depth=2):      # pylint: disable=arguments-renamed
        rng = self.rng
        nm = self.nm
        self.klon = rng.choice([2, 3, 4])
        self.klev = rng.choice([2, 3, 3])
        self.nb = rng.choice([1, 2, 2])
        self.nested = {}
        has_m = rng.random() < 0.5
        flag = rng.random() < 0.5
        units = []
        if 'nested' in self.f:
            if rng.random() < 0.7:
                u2, meta2 = self.make_n2()
                self.nested['n2'] = meta2
                units.append(u2)
            if rng.random() < 0.8:
                u1, meta1 = self.make_n1()
                self.nested['n1'] = meta1
                units.insert(0, u1)
        fields = [('pq', 'real', 2, 'inout'), ('pt', 'real', 2, rng.choice(['inout', 'inout', 'in'])), ('ps', 'real', 1, 'inout')]
        if has_m:
            fields.append(('km', 'int', 1, rng.choice(['inout', 'in'])))
        kernels = [self.make_kernel('k1', fields, nblocks, rng.randint(1, 4), flag)]
        if 'twokernels' in self.f and rng.random() < 0.5:
            f2 = [('pq', 'real', 2, 'inout'), ('pt', 'real', 2, 'inout'), ('ps', 'real', 1, rng.choice(['inout', 'in']))]
            kernels.append(self.make_kernel('k2', f2, max(1, nblocks - 1), rng.randint(1, 3), False))
        # ---- driver
        K, L, B = V(nm['klon']), V(nm['klev']), V(nm['nb'])
        dargs = [nm['klon'], nm['klev'], nm['nb'], nm['start'], nm['end']]
        ddecls = [decl(a, 'int', 'in') for a in dargs]
        if flag:
            dargs.append('flag')
            ddecls.append(decl('flag', 'log', 'in'))

        def field(name, ty, rank):
            d = xdecl(name, ty, 'inout', [(None, K), (None, L), (None, B)] if rank == 3 else [(None, K), (None, B)])
            d['dims'] = [[1, self.klon], [1, self.klev], [1, self.nb]] if rank == 3 else [[1, self.klon], [1, self.nb]]
            return d
        ddecls += [field('q', 'real', 3), field('t', 'real', 3), field('s', 'real', 2)]
        dargs += ['q', 't', 's']
        if has_m:
            ddecls.append(field('m', 'int', 2))
            dargs.append('m')
        ddecls += [decl(nm['ibl'], 'int')]
        ibl = V(nm['ibl'])
        amap = {'pq': el('q', rng_(), rng_(), ibl), 'pt': el('t', rng_(), rng_(), ibl), 'ps': el('s', rng_(), ibl), 'km': el('m', rng_(), ibl)}
        lbody = []
        for ku in kernels:
            acts = []
            for a in ku['args']:
                if a in amap:
                    acts.append(copy.deepcopy(amap[a]))
                else:
                    acts.append(V(a))
            lbody.append(callst(ku['name'], *acts))
            if ku['name'] == 'k1' and 'twocalls' in self.f and rng.random() < 0.3:
                lbody.append(callst(ku['name'], *copy.deepcopy(acts)))
        if 'drvloop' in self.f and rng.random() < 0.4:
            # vector code directly in the driver's block loop
            jl, jk = V(nm['jl']), V(nm['jk'])
            ddecls += [decl(nm['jl'], 'int'), decl(nm['jk'], 'int')]
            e = add(op('prod', el('q', jl, jk, ibl), rng.choice([R(1, 2), R(2)])), el('t', jl, jk, ibl))
            nest = do(nm['jk'], N(1), L, [do(nm['jl'], V(nm['start']), V(nm['end']), [assign(el('q', jl, jk, ibl), e)])])
            lbody.insert(rng.randint(0, len(lbody)), nest)
        dbody = [do(nm['ibl'], N(1), B, lbody)]
        driver = unit('kernel', dargs, ddecls, dbody)
        return {'units': [driver] + kernels + units, 'renderer': 'scc', 'names': self.nk,
                'sizes': [self.klon, self.klev, self.nb], 'features': sorted(self.f)}

    def inputs(self, prog, count=3):
        rng = self.rng
        nm = NAMES[prog['names']]
        klon, klev, nb = prog['sizes']
        u = prog['units'][0]
        ranges = [(1, klon), (1, klon)]
        if klon >= 2:
            ranges += [(2, klon), (1, klon - 1), (klon, klon)]
        if klon >= 3:
            ranges += [(2, klon - 1)]
        out = []
        for c in range(count):
            st, en = ranges[0] if c == 0 else rng.choice(ranges)
            if c == count - 1 and count >= 3 and rng.random() < 0.3:
                st, en = 2, 1             # empty horizontal range
            inp = {nm['klon']: F.val_int(klon), nm['klev']: F.val_int(klev), nm['nb']: F.val_int(nb),
                   nm['start']: F.val_int(st), nm['end']: F.val_int(en)}
            for d in u['decls']:
                if d['name'] == 'flag':
                    inp['flag'] = F.val_log(c % 2 == 0)
                elif d.get('xdims'):
                    size = 1
                    for lo, hi in d['dims']:
                        size *= hi - lo + 1
                    if d['type'] == 'int':
                        els = [F.val_int(rng.randint(-1, 3)) for _ in range(size)]
                    else:
                        els = [F.val_real(Fraction(rng.randint(-6, 8), 2)) for _ in range(size)]
                    inp[d['name']] = F.val_arr(d['dims'], els)
            out.append(inp)
        return out


def _walk(e):
    if isinstance(e, dict):
        yield e
        for v in e.values():
            yield from _walk(v)
    elif isinstance(e, list):
        for x in e:
            yield from _walk(x)


def temporaries_of(prog):
    """(unit, name) of every local array: coverage statistics only."""
    out = []
    for u in prog['units']:
        for d in u['decls']:
            if d.get('xdims') and d['name'] not in u['args']:
                out.append((u['name'], d['name']))
    return out


# ============================================================================================ Loki plumbing
CONFIG = {
    'default': {'mode': 'idem', 'role': 'kernel', 'expand': True, 'strict': True},
    'routines': {'kernel': {'role': 'driver', 'expand': True}},
}


def make_scheduler(text, workdir, fname='kmod.f90'):
    from loki import Scheduler, config as loki_config
    try:
        import logging
        from loki import logging as loki_logging
        loki_logging.logger.setLevel(logging.ERROR)
    except Exception:  # pylint: disable=broad-except
        pass
    try:
        loki_config['regex-frontend-timeout'] = 600
    except Exception:  # pylint: disable=broad-except
        pass
    os.makedirs(workdir, exist_ok=True)
    with open(os.path.join(workdir, fname), 'w') as fh:
        fh.write(text)
    return Scheduler(paths=[workdir], config=copy.deepcopy(CONFIG), seed_routines=['kernel'])


def scheduler_sources(sched):
    seen, out = set(), []
    for item in sched.items:
        src = item.source
        if id(src) in seen:
            continue
        seen.add(id(src))
        out.append((os.path.basename(str(src.path)), src.to_fortran()))
    return out


def dimensions(prog):
    from loki import Dimension
    nm = NAMES[prog['names']]
    horizontal = Dimension(name='horizontal', size=nm['klon'], index=nm['jl'], bounds=(nm['start'], nm['end']))
    vertical = Dimension(name='vertical', size=nm['klev'], index=nm['jk'])
    block = Dimension(name='block_dim', size=nm['nb'], index=nm['ibl'])
    return horizontal, vertical, block


_CONTIG = re.compile(r',\s*CONTIGUOUS(?=[^\n]*::\s*\w*STACK\s*\(\s*K_)', re.I)


def strip_contiguous_explicit_shape(text):
    """Documented normalisation (see notes/C38.md): FtrPtr/DirectIdx stack transformations declare the explicit-shape
    dummy  <T>, TARGET, CONTIGUOUS, INTENT(INOUT) :: P_STACK(K_P_STACK_SIZE)  which gfortran rejects (F2008 C530).
    The attribute is removed from exactly these declarations so that the rest of the behaviour can be observed; the
    un-normalised output is checked (and reported) by a dedicated case."""
    return _CONTIG.sub('', text)


_SIZE_ASSIGN = re.compile(r'^(\s*J_\w*STACK_SIZE = )(.*)$', re.M)
_STACK_ALLOC = re.compile(r'^(\s*ALLOCATE \(\s*(\w*STACK)\()(.*), (\w+)\s*\)\s*\)\s*$', re.M)


def pad_stack(text):
    """Documented normalisation for the FtrPtr/DirectIdx variants named *-pad (and the C37 pipelines built on them): the
    driver-side stack of every type gets ONE extra element (size variable and ALLOCATE).  Both transformations address
    the stack one element too far (C38 findings `ftrptr` / `directidx`); padding makes the behaviour behind that defect
    observable.  Continuation lines are joined first."""
    text = re.sub(r'[ \t]*&[ \t]*\n[ \t]*&[ \t]*', ' ', text)
    n1 = len(_SIZE_ASSIGN.findall(text))
    n2 = len(_STACK_ALLOC.findall(text))
    if n1 != n2:
        raise F.NotApplicable(f'pad_stack: {n1} stack size assignments vs {n2} stack allocations')
    text = _SIZE_ASSIGN.sub(lambda m: f'{m.group(1)}({m.group(2)}) + 1', text)
    text = _STACK_ALLOC.sub(lambda m: f'{m.group(1)}({m.group(3)}) + 1, {m.group(4)}))', text)
    return text


_SIZE_VAR = re.compile(r'^([ \t]*)(ISTSZ|J_(Z|I|LL)_?(\w*?)_?STACK_SIZE) = .*$', re.M)


def instrument_stack_sizes(text, mode):
    """"Stack high-water mark vs computed size" observation (C38): after every assignment of a driver-side stack size
    variable (pool allocator: ISTSZ in 8-byte words; FtrPtr/DirectIdx: J_<T>_<kind>_STACK_SIZE in elements; raw stack:
    the same name in horizontal columns) a PRINT of its value is inserted:  @@STACK <mode> <category> <name> <value>.
    Nothing else is changed.  The value is compared by TLC (spec/Trace_StackBound.tla) with the storage the ORIGINAL
    call tree needs on its deepest call path."""
    text = re.sub(r'[ \t]*&[ \t]*\n[ \t]*&[ \t]*', ' ', text)

    def ins(m):
        name = m.group(2)
        if name.upper() == 'ISTSZ':
            cat = 'all'
        else:
            cat = {'Z': m.group(4) or 'jprb', 'I': 'int', 'LL': 'log'}[m.group(3).upper()]
        return f"{m.group(0)}\n{m.group(1)}print '(A,1X,A,1X,A,1X,A,1X,I0)', '@@STACK', '{mode}', '{cat}', '{name}', {name}"
    return _SIZE_VAR.sub(ins, text)


def split_stack_lines(out, nruns):
    """Remove the @@STACK lines from a run's stdout; returns (clean stdout, per run list of {name, mode, cat, value})."""
    keep, recs, cur = [], [[] for _ in range(nruns)], None
    for line in out.splitlines():
        t = line.strip()
        if t.startswith('@@RUN'):
            cur = int(t.split()[1])
        if t.startswith('@@STACK'):
            f_ = t.split()
            if cur is not None and len(f_) == 5 and cur < nruns:
                recs[cur].append({'mode': f_[1], 'cat': f_[2], 'name': f_[3], 'value': int(f_[4])})
            continue
        keep.append(line)
    return '\n'.join(keep) + '\n', recs


# ============================================================================================ build + judge
FFLAGS_BASE = ['-O0', '-w', '-fno-range-check', '-ffree-line-length-none', '-fcray-pointer']
FFLAGS_CHECK = ['-g', '-fcheck=bounds', '-fsanitize=address']
ZERO_STACK = re.compile(r"Index '1' of dimension 1 of array 'zstack' above upper bound of 0")


def compile_run(workdir, tag, sources, flags=(), timeout=90):
    """gfortran build + run.  status: ok | compile-error | runtime-error | timeout.  A run that ends with exit status 0
    but without the final marker (a generated `STOP`: stack exhausted) is a runtime error."""
    d = os.path.join(workdir, tag)
    os.makedirs(d, exist_ok=True)
    files = []
    for name, text in sources:
        with open(os.path.join(d, name), 'w') as fh:
            fh.write(text)
        files.append(name)
    try:
        c = subprocess.run(['gfortran'] + FFLAGS_BASE + list(flags) + ['-o', 'a.out'] + files, cwd=d, capture_output=True, text=True, timeout=300)
    except subprocess.TimeoutExpired:
        return 'timeout', '', 'compile timeout'
    if c.returncode != 0:
        return 'compile-error', '', c.stderr[-3000:]
    env = dict(os.environ, ASAN_OPTIONS='detect_leaks=0:abort_on_error=0')
    r = None
    for tmo in (timeout, 5 * timeout):       # the programs run in milliseconds: a time-out is box load, retried once
        try:
            r = subprocess.run(['./a.out'], cwd=d, capture_output=True, text=True, timeout=tmo, env=env)
            break
        except subprocess.TimeoutExpired:
            continue
    if r is None:
        return 'timeout', '', 'run timeout'
    if r.returncode != 0:
        return 'runtime-error', r.stdout, _first_diag(r.stderr)
    if '@@END' not in r.stdout:
        return 'runtime-error', r.stdout, 'Error: program stopped before completion (generated STOP: stack size check failed)'
    return 'ok', r.stdout, r.stderr


def _first_diag(err):
    lines = [l.strip() for l in err.splitlines() if l.strip()]
    for l in lines:
        if 'ERROR: AddressSanitizer' in l:
            m = re.search(r'AddressSanitizer: ([\w-]+)', l)
            return f'Error: AddressSanitizer {m.group(1) if m else ""} (storage overrun in the transformed program)\n' + '\n'.join(lines[:12])
        if l.startswith('Fortran runtime error'):
            return 'Error: ' + l + '\n' + '\n'.join(lines[:6])
    return '\n'.join(lines[:12]) or 'Error: non-zero exit status'


def behaviour_check_multi(ctx, label, cases, variants, transform, *, entry='kernel', max_disagree=0.03, check_flags=True, workers=6, pick=None):
    """cases: list of (prog, inputs).  variants: list of variant names; transform(variant, text, prog, workdir) ->
    [(file, text)] or raises F.NotApplicable.  For every program: gfortran(original) once (pre-flight), one build per
    variant.  TLC (Trace_FMachine) validates every DISTINCT (program, input, observed output): the verdict is a
    function of exactly these three, so equal observations share one TLC evaluation.
    pick: optional {case index: [variants for this case]} (default: all variants for every case).
    Returns (results, fails, legal) with fails: {variant: [(idx, kind, msg)]}."""
    import concurrent.futures as cf
    import json
    import traceback

    def build_orig(idx):
        prog, inputs = cases[idx]
        text = F.render(prog)
        drv = F.driver_text(prog, entry, inputs)
        res = {'idx': idx, 'text': text, 'drv': drv, 'new': {}, 'srcs': {}, 'stack': {}}
        st, out, err = compile_run(ctx.work, f'{label}-{idx}-orig', [('kmod.f90', text), ('drv.f90', drv)])
        res['orig'] = (st, F.parse_output(out, len(inputs)) if st == 'ok' else None, err)
        return res

    def build_new(job):
        res, v = job
        inputs = cases[res['idx']][1]
        st, out, err = compile_run(ctx.work, f"{label}-{res['idx']}-{v}", list(res['srcs'][v]) + [('drv.f90', res['drv'])],
                                   flags=FFLAGS_CHECK if check_flags else ())
        if st == 'runtime-error' and ZERO_STACK.search(err):
            # exemption: the pool allocator takes LOC(ZSTACK(1, b)) of a ZERO-size stack (no temporaries left): only the
            # address is formed, nothing is stored.  Judge the build without -fcheck=bounds (AddressSanitizer stays on).
            st, out, err = compile_run(ctx.work, f"{label}-{res['idx']}-{v}", list(res['srcs'][v]) + [('drv.f90', res['drv'])],
                                       flags=[f_ for f_ in FFLAGS_CHECK if f_ != '-fcheck=bounds'])
            ctx.cover['exempt_zero_size_stack_address'] = ctx.cover.get('exempt_zero_size_stack_address', 0) + 1
        out, stk = split_stack_lines(out, len(inputs))
        if any(stk):
            res['stack'][v] = stk
        res['new'][v] = (st, F.parse_output(out, len(inputs)) if st == 'ok' else None, err)

    with cf.ThreadPoolExecutor(max_workers=workers) as ex:
        results = list(ex.map(build_orig, range(len(cases))))
    jobs = []
    for res in results:            # Loki is not thread-safe: transformations run serially here
        if res['orig'][0] != 'ok':
            continue
        prog = cases[res['idx']][0]
        for v in (pick[res['idx']] if pick else variants):
            try:
                res['srcs'][v] = transform(v, res['text'], copy.deepcopy(prog), os.path.join(ctx.work, f"{label}-{res['idx']}-{v}-tr"))
                jobs.append((res, v))
            except F.NotApplicable as ex_:
                res['new'][v] = ('not-applicable', None, str(ex_))
            except MachineryError:
                raise
            except Exception as ex_:  # pylint: disable=broad-except
                res['new'][v] = ('transform-raised', None, f'{type(ex_).__name__}: {ex_}\n' + traceback.format_exc()[-1500:])
    with cf.ThreadPoolExecutor(max_workers=workers) as ex:
        list(ex.map(build_new, jobs))

    tcases, index = [], {}
    stats = dict(programs=len(cases), orig_failed=0, not_applicable=0, illegal=0, oracle_disagreement=0, judged=0, tlc_evaluations=0)

    def want(idx, k, obs):
        key = (idx, k, json.dumps(obs))
        if key not in index:
            prog, inputs = cases[idx]
            index[key] = len(tcases)
            tcases.append({'prog': prog, 'entry': entry, 'input': F.input_json(inputs[k]), 'observed': obs, 'mode': 'run'})
        return index[key]

    pre_ix, new_ix = {}, {}
    for r in results:
        idx = r['idx']
        if r['orig'][0] != 'ok':
            stats['orig_failed'] += 1
            r['drop'] = f"original does not build/run: {r['orig'][0]} {r['orig'][2][:300]}"
            continue
        for k in range(len(cases[idx][1])):
            obs = r['orig'][1][k]
            if obs is None:
                continue
            pre_ix[(idx, k)] = want(idx, k, obs)
            for v, nw in r['new'].items():
                if nw[0] == 'ok' and nw[1][k] is not None:
                    new_ix[(idx, k, v)] = want(idx, k, nw[1][k])
    stats['tlc_evaluations'] = len(tcases)
    # binding self-check: a corrupted copy of the first observation must be rejected by the trace spec
    probe = None
    if tcases and label != 'shrink' and tcases[0]['observed']:
        bad_case = copy.deepcopy(tcases[0])
        bad_case['observed'][0][1] += 1
        probe = len(tcases)
        tcases.append(bad_case)
    verdicts = ctx.validate('Trace_FMachine', 'Trace_ExprEquiv', tcases, timeout=3000, per_shard_min=8) if tcases else {}
    if probe is not None and verdicts[0][0] and verdicts[probe][0]:
        raise MachineryError('trace spec accepted a corrupted observation (binding self-check)')
    if probe is not None:
        ctx.cover['corrupted_observation_rejected'] = bool(verdicts[0][0] and not verdicts[probe][0])
    legal = {}
    for (idx, k), i in pre_ix.items():
        ok, clause, _ = verdicts[i]
        if ok:
            legal.setdefault(idx, []).append(k)
        elif clause.startswith('illegal'):
            stats['illegal'] += 1
            ctx.cover.setdefault('illegal_reasons', {})
            ctx.cover['illegal_reasons'][clause] = ctx.cover['illegal_reasons'].get(clause, 0) + 1
        else:
            stats['oracle_disagreement'] += 1
            exs = ctx.cover.setdefault('oracle_disagreement_examples', [])
            if len(exs) < 3:
                exs.append({'clause': clause, 'program': results[idx]['text'][:2500], 'input': cases[idx][1][k]})
    if stats['oracle_disagreement'] / max(1, len(pre_ix)) > max_disagree:
        ex_ = ctx.cover.get('oracle_disagreement_examples', [{}])[0]
        raise MachineryError(f"oracle disagreement (gfortran on the ORIGINAL program vs FMachine) on {stats['oracle_disagreement']} of "
                             f"{len(pre_ix)} runs, e.g. {ex_.get('clause')}\n{ex_.get('program')}\ninput={ex_.get('input')}")
    fails = {v: [] for v in variants}
    bad = {}
    for (idx, k, v), i in sorted(new_ix.items()):
        if k not in legal.get(idx, []):
            continue
        stats['judged'] += 1
        ok, clause, _ = verdicts[i]
        if not ok and not clause.startswith('illegal'):
            bad.setdefault((idx, v), clause)
    for (idx, v), clause in bad.items():
        fails[v].append((idx, 'output', clause))
    for r in results:
        idx = r['idx']
        if 'drop' in r or idx not in legal:
            continue
        for v, nw in r['new'].items():
            if nw[0] == 'not-applicable':
                stats['not_applicable'] += 1
            if nw[0] in ('compile-error', 'runtime-error', 'timeout', 'transform-raised'):
                fails[v].append((idx, nw[0], nw[2]))
    # ---- "enough storage": reported stack sizes vs the high-water mark of the original call tree (Trace_StackBound).
    # Only for call trees whose calls are all unconditional and whose temporaries are all used (prog['stratum'] ==
    # 'multisize'): there Need(...) of the spec is exactly the high-water mark.
    scases, smeta, sindex = [], [], {}
    for r in results:
        idx = r['idx']
        prog, inputs = cases[idx]
        if 'drop' in r or idx not in legal or prog.get('stratum') != 'multisize':
            continue
        for v, stk in r['stack'].items():
            for k in legal[idx]:
                if not stk[k]:
                    continue
                key = (idx, k, json.dumps(stk[k], sort_keys=True))
                if key not in sindex:
                    sindex[key] = len(scases)
                    scases.append({'prog': prog, 'entry': entry, 'input': F.input_json(inputs[k]), 'alloc': stk[k]})
                smeta.append((idx, k, v, sindex[key]))
    if scases:
        sprobe = len(scases)
        bad_case = copy.deepcopy(scases[0])
        bad_case['alloc'][0]['value'] = -1
        scases.append(bad_case)
        sverd = ctx.validate('Trace_StackBound', 'Trace_ExprEquiv', scases, timeout=1500, per_shard_min=16)
        if sverd[sprobe][0]:
            raise MachineryError('Trace_StackBound accepted a negative stack size (binding self-check)')
        sbad = {}
        for idx, k, v, i in smeta:
            stats['storage_judged'] = stats.get('storage_judged', 0) + 1
            ok, clause, _ = sverd[i]
            if not ok:
                sbad.setdefault((idx, v), clause)
        for (idx, v), clause in sbad.items():
            fails[v].append((idx, 'storage', f'Error: stack under-allocated ({clause})'))
        stats['storage_tlc_evaluations'] = len(scases)
    for key, val in stats.items():
        ctx.cover[f'{label}_{key}'] = ctx.cover.get(f'{label}_{key}', 0) + val
    if label != 'shrink':
        import sys
        print(f'[{label}] {stats} failing: ' + str({v: len(f_) for v, f_ in fails.items() if f_}), file=sys.stderr)
    return results, fails, legal


def signature(kind, msg):
    """lib_fm.failure_signature with identifiers and type names abstracted (the argument / stack that is hit first
    depends on the program, the defect class does not)."""
    sig = F.failure_signature(kind, msg)
    sig = re.sub(r"[‘'`]\w+[’']", "'X'", sig)
    sig = re.sub(r'passed \w+\(N\) to \w+\(N\)', 'passed T to T', sig)
    return sig


def shape(prog):
    """Normal-form description of a (shrunk) program: statement kinds + structural markers of the SCC domain."""
    marks = set()
    nm = NAMES[prog['names']]
    for u in prog['units'][1:]:
        def walk(ss, in_v):
            for s_ in ss:
                k = s_['s']
                if k == 'call' and in_v:
                    marks.add('call-in-vloop')
                if k == 'raw':
                    marks.add('fuse-pragma')
                if k == 'assign':
                    if any(x.get('k') == 'range' for x in _walk(s_['lhs'])):
                        marks.add('vecnot')
                    if s_['lhs']['k'] == 'var' and any(x.get('k') == 'var' and x.get('name') == s_['lhs']['name'] for x in _walk(s_['rhs'])):
                        marks.add('accum')
                for key in ('body', 'els'):
                    if isinstance(s_.get(key), list):
                        walk(s_[key], in_v or (k == 'do' and s_['var'] == nm['jk']))
                for b in s_.get('bodies', []):
                    walk(b, in_v)
        walk(u['body'], False)
    return '+'.join([F.stmt_kinds(prog)] + sorted(marks))


def report_failures_multi(ctx, prop, cases, results, fails, transform, *, budget=4, shrink=True, shrink_all=False):
    """Per variant: group by failure signature; key = <prop>:<variant>:<signature> and, for wrong output, the shape of
    the (shrunk) program.  Build failures / crashes / exceptions are classes of their own: their key does not depend on
    the program.  `budget` = total number of shrink rounds (each re-runs the whole check on up to 12 candidates)."""
    import sys
    todo = []
    for v, fl in fails.items():
        groups = {}
        for idx, kind, msg in fl:
            groups.setdefault(signature(kind, msg), []).append((idx, kind, msg))
        if groups:
            ctx.cover.setdefault('failure_groups', {})[v] = {k: len(m) for k, m in groups.items()}
        for sig, members in sorted(groups.items()):
            todo.append((v, sig, members))
    # wrong-output groups are shrunk first (their key depends on it)
    todo.sort(key=lambda t: (t[2][0][1] != 'output', t[0], t[1]))
    for v, sig, members in todo:
        idx, kind, msg = min(members, key=lambda m: len(results[m[0]]['text']))
        prog, inputs = cases[idx]
        small = prog
        while shrink and budget > 0 and (kind == 'output' or shrink_all):
            budget -= 1
            cands = F.removal_candidates(small, limit=12)
            if not cands:
                break
            print(f'[{prop}] shrinking {v} {sig[:60]} ({len(cands)} candidates, {budget} rounds left)', file=sys.stderr)
            _, fl2, _ = behaviour_check_multi(ctx, 'shrink', [(c, inputs) for c in cands], [v], transform)
            hit = {i: signature(k2, m2) for i, k2, m2 in fl2[v]}
            nxt = next((c for i, c in enumerate(cands) if hit.get(i) == sig), None)
            if nxt is None:
                break
            small = nxt
        key = f'{prop}:{v}:{sig}' + (f':{shape(small)}' if kind == 'output' else '')
        newtext = '\n'.join(t for _, t in results[idx]['srcs'].get(v, []))
        ctx.violation(key, f'{v}: {len(members)} program(s); transformed call tree {"output differs" if kind == "output" else kind}: {msg[:900]}\n'
                           f'--- original ({"shrunk" if small is not prog else "unshrunk"}) ---\n{F.render(small)}--- transformed (unshrunk case) ---\n{newtext[:3500]}',
                      {'prog': prog, 'inputs': inputs, 'variant': v})


# ============================================================================================ variants
# name -> (pipeline / recipe, options).  Options understood here: vertical (pass the vertical Dimension), strip (apply
# strip_contiguous_explicit_shape to the output), everything else is handed to the Loki constructor.
C37_VARIANTS = {
    'vvector':            ('SCCVVectorPipeline', dict(directive='openacc')),
    'vvector-trim':       ('SCCVVectorPipeline', dict(directive='openacc', trim_vector_sections=True)),
    'vvector-nodemote':   ('SCCVVectorPipeline', dict(directive='omp-gpu', demote_local_arrays=False)),
    'vvector-vertical':   ('SCCVVectorPipeline', dict(vertical=True)),
    'svector':            ('SCCSVectorPipeline', dict(directive='openacc')),
    'svector-trim':       ('SCCSVectorPipeline', dict(directive='openmp', trim_vector_sections=True, vertical=True)),
    'vhoist':             ('SCCVHoistPipeline', dict(directive='openacc')),
    'vhoist-kw':          ('SCCVHoistPipeline', dict(directive='openacc', as_kwarguments=True, vertical=True)),
    'shoist':             ('SCCSHoistPipeline', dict(directive='openacc')),
    'shoist-kw':          ('SCCSHoistPipeline', dict(directive='openacc', as_kwarguments=True)),
    'vstack':             ('SCCVStackPipeline', dict(directive='openacc', check_bounds=True)),
    'vstack-nocheck':     ('SCCVStackPipeline', dict(directive='openacc', check_bounds=False)),
    'vstack-locrhs':      ('SCCVStackPipeline', dict(check_bounds=True, cray_ptr_loc_rhs=True)),
    'sstack':             ('SCCSStackPipeline', dict(directive='openacc', check_bounds=True)),
    'vftrptr':            ('SCCVStackFtrPtrPipeline', dict(directive='openacc', strip=True, pad=True)),
    'sftrptr':            ('SCCSStackFtrPtrPipeline', dict(directive='openacc', strip=True, pad=True)),
    'vdirectidx':         ('SCCVStackDirectIdxPipeline', dict(directive='openacc', strip=True, pad=True)),
    'sdirectidx':         ('SCCSStackDirectIdxPipeline', dict(directive='openacc', strip=True, pad=True)),
    'vraw':               ('SCCVRawStackPipeline', dict(directive='openacc')),
    'sraw':               ('SCCSRawStackPipeline', dict(directive='openacc')),
}

C38_VARIANTS = {
    'hoist':          ('hoist', dict()),
    'hoist-kw':       ('hoist', dict(as_kwarguments=True)),
    'hoist-noremap':  ('hoist', dict(remap_dimensions=False)),
    'hoist-dimvars':  ('hoist', dict(dim_vars='klev')),
    'hoist-alloc':    ('hoist-alloc', dict()),
    'hoist-alloc-kw': ('hoist-alloc', dict(as_kwarguments=True)),
    'pool':           ('pool', dict(check_bounds=True)),
    'pool-nocheck':   ('pool', dict(check_bounds=False)),
    'pool-locrhs':    ('pool', dict(check_bounds=True, cray_ptr_loc_rhs=True)),
    'ftrptr':         ('ftrptr', dict(strip=True)),
    'directidx':      ('directidx', dict(strip=True)),
    'ftrptr-pad':     ('ftrptr', dict(strip=True, pad=True)),
    'directidx-pad':  ('directidx', dict(strip=True, pad=True)),
    'ftrptr-asis':    ('ftrptr', dict()),
    'directidx-asis': ('directidx', dict()),
    'raw':            ('raw', dict()),
}


def transform_c37(variant, text, prog, workdir):
    from loki.transformations.single_column import scc as scc_mod
    pname, opts = C37_VARIANTS[variant]
    opts = dict(opts)
    horizontal, vertical, block = dimensions(prog)
    strip = opts.pop('strip', False)
    pad = opts.pop('pad', False)
    kw = dict(horizontal=horizontal, block_dim=block)
    if opts.pop('vertical', False):
        kw['vertical'] = vertical
    kw.update(opts)
    sched = make_scheduler(text, workdir)
    pipeline = getattr(scc_mod, pname)(**kw)
    sched.process(pipeline)
    srcs = scheduler_sources(sched)
    if strip:
        srcs = [(n, strip_contiguous_explicit_shape(t)) for n, t in srcs]
    if pad:
        srcs = [(n, pad_stack(t)) for n, t in srcs]
    return srcs


def transform_c38(variant, text, prog, workdir):
    from loki.transformations import temporaries as T
    recipe, opts = C38_VARIANTS[variant]
    opts = dict(opts)
    horizontal, _vertical, block = dimensions(prog)
    nm = NAMES[prog['names']]
    strip = opts.pop('strip', False)
    pad = opts.pop('pad', False)
    sched = make_scheduler(text, workdir)
    if recipe in ('hoist', 'hoist-alloc'):
        dim_vars = opts.pop('dim_vars', None)
        sched.process(T.HoistTemporaryArraysAnalysis(dim_vars=(nm[dim_vars],) if dim_vars else None))
        cls = T.HoistVariablesTransformation if recipe == 'hoist' else T.HoistTemporaryArraysTransformationAllocatable
        sched.process(cls(**opts))
    elif recipe == 'pool':
        sched.process(T.TemporariesPoolAllocatorTransformation(block_dim=block, horizontal=horizontal, **opts))
    elif recipe == 'ftrptr':
        sched.process(T.FtrPtrStackTransformation(block_dim=block, horizontal=horizontal, **opts))
    elif recipe == 'directidx':
        sched.process(T.DirectIdxStackTransformation(block_dim=block, horizontal=horizontal, **opts))
    elif recipe == 'raw':
        sched.process(T.TemporariesRawStackTransformation(block_dim=block, horizontal=horizontal, **opts))
    else:
        raise MachineryError(f'unknown recipe {recipe}')
    srcs = scheduler_sources(sched)
    if strip:
        srcs = [(n, strip_contiguous_explicit_shape(t)) for n, t in srcs]
    if pad:
        srcs = [(n, pad_stack(t)) for n, t in srcs]
    mode = {'pool': 'words', 'ftrptr': 'elems', 'directidx': 'elems', 'raw': 'cols'}.get(recipe)
    if mode and prog.get('stratum') == 'multisize':
        srcs = [(n, instrument_stack_sizes(t, mode)) for n, t in srcs]
    return srcs


# ============================================================================================ fixed corpus
def _driver(nm, sizes, kernels, flag=False):
    """Driver-role `kernel` over q, t (klon, klev, nb) and s (klon, nb) calling the given kernel units once per block."""
    klon, klev, nb = sizes
    K, L, B = V(nm['klon']), V(nm['klev']), V(nm['nb'])
    dargs = [nm['klon'], nm['klev'], nm['nb'], nm['start'], nm['end']]
    ddecls = [decl(a, 'int', 'in') for a in dargs]

    def field(name, rank):
        d = xdecl(name, 'real', 'inout', [(None, K), (None, L), (None, B)] if rank == 3 else [(None, K), (None, B)])
        d['dims'] = [[1, klon], [1, klev], [1, nb]] if rank == 3 else [[1, klon], [1, nb]]
        return d
    ddecls += [field('q', 3), field('t', 3), field('s', 2), decl(nm['ibl'], 'int')]
    dargs += ['q', 't', 's']
    ibl = V(nm['ibl'])
    amap = {'pq': el('q', rng_(), rng_(), ibl), 'pt': el('t', rng_(), rng_(), ibl), 'ps': el('s', rng_(), ibl)}
    body = [callst(ku['name'], *[copy.deepcopy(amap[a]) if a in amap else V(a) for a in ku['args']]) for ku in kernels]
    return unit('kernel', dargs, ddecls, [do(nm['ibl'], N(1), B, body)])


def _kernel(nm, name, temps, body, fields=('pq', 'pt', 'ps')):
    K, L = V(nm['klon']), V(nm['klev'])
    args = [nm['start'], nm['end'], nm['klon'], nm['klev']] + list(fields)
    decls = [decl(a, 'int', 'in') for a in args[:4]]
    for f_ in fields:
        decls.append(xdecl(f_, 'real', 'inout', [(None, K)] if f_ == 'ps' else [(None, K), (None, L)]))
    decls += temps + [decl(nm['jl'], 'int'), decl(nm['jk'], 'int')]
    return unit(name, args, decls, body)


def _level_kernel(nm):
    K = V(nm['klon'])
    jl = V(nm['jl'])
    return unit('n2', [nm['start'], nm['end'], nm['klon'], 'pp', 'pr'],
                [decl(nm['start'], 'int', 'in'), decl(nm['end'], 'int', 'in'), decl(nm['klon'], 'int', 'in'),
                 xdecl('pp', 'real', 'in', [(None, K)]), xdecl('pr', 'real', 'inout', [(None, K)]), decl(nm['jl'], 'int')],
                [do(nm['jl'], V(nm['start']), V(nm['end']), [assign(el('pr', jl), add(el('pr', jl), el('pp', jl)))])])


def _inner_kernel(nm):
    """n1(start, end, klon, klev, px, py) with one (klon, klev) temporary."""
    K, L = V(nm['klon']), V(nm['klev'])
    jl, jk = V(nm['jl']), V(nm['jk'])
    hl = lambda ss: do(nm['jk'], N(1), L, [do(nm['jl'], V(nm['start']), V(nm['end']), ss)])
    return unit('n1', [nm['start'], nm['end'], nm['klon'], nm['klev'], 'px', 'py'],
                [decl(a, 'int', 'in') for a in (nm['start'], nm['end'], nm['klon'], nm['klev'])] +
                [xdecl('px', 'real', 'in', [(None, K), (None, L)]), xdecl('py', 'real', 'inout', [(None, K), (None, L)]),
                 xdecl('nw', 'real', 'local', [(None, K), (None, L)]), decl(nm['jl'], 'int'), decl(nm['jk'], 'int')],
                [hl([assign(el('nw', jl, jk), op('prod', el('px', jl, jk), R(1, 2)))]),
                 hl([assign(el('py', jl, jk), add(el('py', jl, jk), el('nw', jl, jk)))])])


def corpus(which, rng):
    """Small hand-written call trees that exercise one construct each (always part of the run, both tiers)."""
    out = []
    for names in ('alt',):
        nm = NAMES[names]
        K, L = V(nm['klon']), V(nm['klev'])
        jl, jk = V(nm['jl']), V(nm['jk'])
        st, en = V(nm['start']), V(nm['end'])
        sizes = [3, 3, 2]
        progs = []
        if which == 'C37':
            # (a) 1-d temporary carried over vertical iterations, nested level kernel called inside the vertical loop
            body = [do(nm['jk'], N(1), L, [
                do(nm['jl'], st, en, [if_(cmp_('>', jk, N(1)), [assign(el('pt', jl, jk), add(el('pt', jl, jk), el('ztmp', jl)))]),
                                      assign(el('ztmp', jl), op('prod', el('pq', jl, jk), R(1, 2)))]),
                callst('n2', st, en, K, el('pq', rng_(), jk), el('pt', rng_(), jk))])]
            k1 = _kernel(nm, 'k1', [xdecl('ztmp', 'real', 'local', [(None, K)])], body)
            progs.append(('carry', [k1, _level_kernel(nm)]))
            # (b) demotable temporaries, vector notation, a (klon, klev) temporary that must be hoisted / stacked, nested kernel
            body = [do(nm['jk'], N(1), L, [do(nm['jl'], st, en, [assign(el('ztmp', jl), op('prod', el('pq', jl, jk), R(2))),
                                                                  assign(el('zbig', jl, jk), add(el('ztmp', jl), el('pt', jl, jk)))])]),
                    do(nm['jl'], st, en, [assign(el('zkeep', jl), op('prod', el('pq', jl, N(1)), R(1, 2)))]),
                    callst('n1', st, en, K, L, V('zbig'), V('pq')),
                    do(nm['jk'], N(2), L, [assign(el('pt', rng_(st, en), jk), add(el('zbig', rng_(st, en), jk), el('pq', rng_(st, en), add(jk, N(-1)))))]),
                    do(nm['jl'], st, en, [if_(cmp_('>', el('pt', jl, N(1)), R(1)), [assign(el('ps', jl), add(el('zbig', jl, L), el('zkeep', jl)))],
                                              [assign(el('ps', jl), add(R(1, 2), el('zkeep', jl)))])])]
            # ztmp: one section (demotable); zkeep: buffers a value across the nested call (two sections: must stay an array)
            k1 = _kernel(nm, 'k1', [xdecl('ztmp', 'real', 'local', [(None, K)]), xdecl('zkeep', 'real', 'local', [(None, K)]),
                                    xdecl('zbig', 'real', 'local', [(None, K), (None, L)])], body)
            progs.append(('basic', [k1, _inner_kernel(nm)]))
            # (c) loop-invariant scalar updated (non-idempotently) between two horizontal loops of one vector section
            body = [assign(V('zc'), R(1)), callst('n2', st, en, K, el('pq', rng_(), N(2)), el('pt', rng_(), N(2))),
                    do(nm['jl'], st, en, [assign(el('pq', jl, N(1)), add(el('pq', jl, N(1)), V('zc')))]),
                    assign(V('zc'), op('prod', V('zc'), R(1, 2))),
                    do(nm['jl'], st, en, [assign(el('pt', jl, N(1)), add(el('pt', jl, N(1)), V('zc')))])]
            progs.append(('accum', [_kernel(nm, 'k1', [decl('zc', 'real')], body), _level_kernel(nm)]))
        else:
            # (a) nested kernel called with klev and klev-1 levels
            body = [callst('n1', st, en, K, L, V('pq'), V('pt')), callst('n1', st, en, K, add(L, N(-1)), V('pt'), V('pq'))]
            progs.append(('sizes', [_kernel(nm, 'k1', [], body), _inner_kernel(nm)]))
            # (b) two temporaries of one type, the second one defined by a whole-array assignment
            hl = lambda ss: do(nm['jk'], N(1), L, [do(nm['jl'], st, en, ss)])
            body = [hl([assign(el('za', jl, jk), op('prod', el('pq', jl, jk), R(1, 2)))]), assign(V('zb'), R(1)),
                    hl([assign(el('pt', jl, jk), add(el('za', jl, jk), el('zb', jl, jk)))])]
            k1 = _kernel(nm, 'k1', [xdecl('za', 'real', 'local', [(None, K), (None, L)]), xdecl('zb', 'real', 'local', [(None, K), (None, L)])], body)
            progs.append(('whole', [k1]))
            # (c) kernel without temporaries of its own calling a kernel with a temporary
            body = [hl([assign(el('pt', jl, jk), op('prod', el('pt', jl, jk), R(1, 2)))]), callst('n1', st, en, K, L, V('pq'), V('pt'))]
            progs.append(('passthrough', [_kernel(nm, 'k1', [], body), _inner_kernel(nm)]))
        for tag, us in progs:
            prog = {'units': [_driver(nm, sizes, us[:1])] + us, 'renderer': 'scc', 'names': names, 'sizes': sizes,
                    'features': ['corpus-' + tag]}
            g = GenSCC(rng, (), names)
            out.append((prog, g.inputs(prog, 2)))
    return out


# ============================================================================================ multisize stratum (C38)
def _driver_calls(nm, sizes, calls):
    """Driver-role `kernel` over q, t (klon, klev, nb), s (klon, nb): calls = [(unit, {dummy: actual expr})] in the block loop."""
    klon, klev, nb = sizes
    K, L, B = V(nm['klon']), V(nm['klev']), V(nm['nb'])
    dargs = [nm['klon'], nm['klev'], nm['nb'], nm['start'], nm['end']]
    ddecls = [decl(a, 'int', 'in') for a in dargs]

    def field(name, rank):
        d = xdecl(name, 'real', 'inout', [(None, K), (None, L), (None, B)] if rank == 3 else [(None, K), (None, B)])
        d['dims'] = [[1, klon], [1, klev], [1, nb]] if rank == 3 else [[1, klon], [1, nb]]
        return d
    ddecls += [field('q', 3), field('t', 3), field('s', 2), decl(nm['ibl'], 'int')]
    dargs += ['q', 't', 's']
    ibl = V(nm['ibl'])
    amap = {'pq': el('q', rng_(), rng_(), ibl), 'pt': el('t', rng_(), rng_(), ibl), 'ps': el('s', rng_(), ibl)}
    body = []
    for ku, over in calls:
        body.append(callst(ku['name'], *[copy.deepcopy(over[a]) if a in over else copy.deepcopy(amap[a]) if a in amap else V(a)
                                         for a in ku['args']]))
    return unit('kernel', dargs, ddecls, [do(nm['ibl'], N(1), B, body)])


def _order(vals, kind):
    """vals: distinct (expr, value) pairs sorted by value.  'asc': largest last; 'mid': small, LARGE, medium (three calls);
    'desc': largest first (control)."""
    if kind == 'asc':
        return vals
    if kind == 'desc':
        return vals[::-1]
    return [vals[0], vals[-1]] + vals[1:-1]


def multisize_cases(rng):
    """Call trees in which ONE kernel is called two or three times from the same caller with DIFFERENT size actuals:
        kernel (driver) -> ka(start, end, klon, klev, kt, pq, pt)   temporaries (klon, kt) [real, + integer]
                        ka -> kb(start, end, klon, klev, ku, px, py) temporaries (klon, ku) [real, + real(jprd)]
    ka's temporaries are live across its calls of kb; every call is unconditional and every temporary is used, so the
    storage needed is own + max over the calls (spec/Trace_StackBound).  Size actuals are expressions over the caller's
    klev / kt (never over a variable that has the callee dummy's name).  Strata (prog['msize']):
      drv-asc   driver calls ka 2-3x, largest not first;  ka is a leaf
      nest-asc  driver calls ka once; ka calls kb 2-3x, largest not first
      both      driver and ka both call 2-3x, largest not first, kb sized from kt
      control   largest first on both levels"""
    out = []
    for tag in ('drv-asc', 'nest-asc', 'both', 'control'):
        names = rng.choice(['ifs', 'alt'])
        nm = NAMES[names]
        klon, klev, nb = rng.choice([2, 3]), rng.choice([2, 3]), rng.choice([1, 2, 2])
        K, L = V(nm['klon']), V(nm['klev'])
        jl, jt = V(nm['jl']), V('jt')
        st, en = V(nm['start']), V(nm['end'])
        pool = [(N(1), 1), (N(2), 2), (add(L, N(-1)), klev - 1), (L, klev), (add(L, N(1)), klev + 1), (op('prod', N(2), L), 2 * klev)]

        def pick_sizes(cands, n):
            byval = {}
            for e, v in cands:
                if v >= 1:
                    byval.setdefault(v, e)
            vs = sorted(rng.sample(sorted(byval), min(n, len(byval))))
            return [(byval[v], v) for v in vs]
        with_int = rng.random() < 0.5
        with_kind = rng.random() < 0.5
        # ---- nested kernel kb
        hl = lambda hi, ss: do('jt', N(1), hi, [do(nm['jl'], st, en, ss)])
        ntemps = [xdecl('nw', 'real', 'local', [(None, K), (None, V('ku'))])]
        nbody = [hl(V('ku'), [assign(el('nw', jl, jt), add(el('px', jl, N(1)), op('prod', call('real', jt), R(1, 2))))])]
        acc = el('nw', jl, jt)
        if with_kind:
            ntemps.append(xdecl('nd', 'real', 'local', [(None, K), (None, V('ku'))], 'jprd'))
            nbody.append(hl(V('ku'), [assign(el('nd', jl, jt), op('prod', el('nw', jl, jt), R(1, 2)))]))
            acc = add(acc, el('nd', jl, jt))
        nbody.append(hl(V('ku'), [assign(el('py', jl, N(1)), add(el('py', jl, N(1)), op('prod', op('par', acc), R(1, 2))))]))
        nargs = [nm['start'], nm['end'], nm['klon'], nm['klev'], 'ku', 'px', 'py']
        nbu = unit('kb', nargs, [decl(a, 'int', 'in') for a in nargs[:5]] +
                   [xdecl('px', 'real', 'in', [(None, K), (None, L)]), xdecl('py', 'real', 'inout', [(None, K), (None, L)])] +
                   ntemps + [decl(nm['jl'], 'int'), decl('jt', 'int')], nbody)
        # ---- kernel ka
        nest_kind = {'drv-asc': None, 'nest-asc': rng.choice(['asc', 'mid']), 'both': rng.choice(['asc', 'mid']), 'control': 'desc'}[tag]
        drv_kind = {'drv-asc': rng.choice(['asc', 'mid']), 'nest-asc': None, 'both': rng.choice(['asc', 'mid']), 'control': 'desc'}[tag]
        ktemps = [xdecl('za', 'real', 'local', [(None, K), (None, V('kt'))])]
        fill = [assign(el('za', jl, jt), add(op('prod', el('pq', jl, N(1)), R(1, 2)), call('real', jt)))]
        use = add(el('pt', jl, L), op('prod', el('za', jl, jt), R(1, 4)))
        if with_int:
            ktemps.append(xdecl('zi', 'int', 'local', [(None, K), (None, V('kt'))]))
            fill.append(assign(el('zi', jl, jt), call('mod', add(jt, N(1)), N(3))))
            use = add(use, call('real', el('zi', jl, jt)))
        kbody = [hl(V('kt'), fill)]
        nest_sizes = []
        if nest_kind:
            cands = pool + ([(add(V('kt'), N(1)), None), (V('kt'), None)] if tag == 'both' else [])
            cands = [c for c in cands if c[1] is not None]
            nest_sizes = _order(pick_sizes(cands, 3 if nest_kind == 'mid' else 2), nest_kind)
            for e, _ in nest_sizes:
                kbody.append(callst('kb', st, en, K, L, copy.deepcopy(e), V('pq'), V('pt')))
            if tag == 'both':
                # one more call whose size is derived from ka's own size argument (translated twice on the way up)
                kbody.insert(2, callst('kb', st, en, K, L, add(V('kt'), N(1)), V('pq'), V('pt')))
        kbody.append(hl(V('kt'), [assign(el('pt', jl, L), use)]))
        kargs = [nm['start'], nm['end'], nm['klon'], nm['klev'], 'kt', 'pq', 'pt']
        kau = unit('ka', kargs, [decl(a, 'int', 'in') for a in kargs[:5]] +
                   [xdecl('pq', 'real', 'inout', [(None, K), (None, L)]), xdecl('pt', 'real', 'inout', [(None, K), (None, L)])] +
                   ktemps + [decl(nm['jl'], 'int'), decl('jt', 'int')], kbody)
        drv_sizes = _order(pick_sizes(pool, 3 if drv_kind == 'mid' else 2), drv_kind) if drv_kind else pick_sizes(pool, 1)
        driver = _driver_calls(nm, [klon, klev, nb], [(kau, {'kt': e}) for e, _ in drv_sizes])
        units = [driver, kau] + ([nbu] if nest_kind else [])
        prog = {'units': units, 'renderer': 'scc', 'names': names, 'sizes': [klon, klev, nb], 'features': ['multisize-' + tag],
                'stratum': 'multisize',
                'msize': {'driver': [v for _, v in drv_sizes], 'nested': [v for _, v in nest_sizes], 'int': with_int, 'kind2': with_kind}}
        g = GenSCC(rng, (), names)
        out.append((prog, g.inputs(prog, 2)))
    return out
