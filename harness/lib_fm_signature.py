"""Call-tree generators and Loki drivers for C39 (parametrisation) and C34 (call-signature rewrites).

Programs are MiniFortran JSON (spec/FMachine.tla); the expected behaviour is computed by TLC only
(Trace_FMachine / Trace_Parametrise).  This module derives call trees `kernel -> lev1 -> lev2` with integer size
and flag arguments (used as loop bounds, extents of automatic and dummy arrays - decl field "xdims", see
FMachine.HasX - and in conditions), drives the transformations through the Scheduler and records what the
gfortran build of the transformed sources prints."""
import copy
import os
import subprocess

from . import lib_fm as F
from .lib_fm import V, N, op, call, el, cmp_, assign, decl, unit, NONE, rng_
from .core import MachineryError

ASSUMED = {'k': 'assumed'}


def xdecl(name, ty, intent, xdims):
    """Array declaration with expression bounds: xdims = [(lo|None, hi|ASSUMED), ...]."""
    d = decl(name, ty, intent, [(1, 1)] * len(xdims))
    d['xdims'] = [[lo or NONE, hi] for lo, hi in xdims]
    return d


def do(var, lo, hi, body, st=None):
    return {'s': 'do', 'var': var, 'lo': lo, 'hi': hi, 'st': st or NONE, 'body': body}


def if_(cond, body, els=None, inline=False):
    s = {'s': 'if', 'conds': [cond], 'bodies': [body], 'els': els or []}
    if inline and len(body) == 1 and not els:
        s['inline'] = True
    return s


def callst(name, *args):
    return {'s': 'call', 'name': name, 'args': list(args)}


def mod_(e, k):
    return call('mod', e, N(k))


def add(*c):
    return op('sum', *c)


def walk_stmts(ss):
    yield from F._flat(ss)


def mark_keep(stmts):
    """Statements the shrinker must not delete (initialisation / observation of the harness-owned locals)."""
    for st in walk_stmts(stmts):
        st['keep'] = True
    return stmts


def n_keep(prog):
    return sum(1 for u in prog['units'] for st in walk_stmts(u['body']) if st.get('keep'))


def prune_unreachable(prog, root='kernel'):
    """Drop the units no call chain from `root` reaches: the Scheduler only rewrites the call tree of its seed, so a
    dead module routine that still calls a rewritten one would break the build without any fault of Loki."""
    units = {u['name']: u for u in prog['units']}
    seen, todo = set(), [root]
    while todo:
        n = todo.pop()
        if n in seen or n not in units:
            continue
        seen.add(n)
        todo += [s['name'] for s in walk_stmts(units[n]['body']) if s['s'] == 'call']
        todo += [nm for nm in _called_functions(units[n]['body']) if nm in units]
    prog['units'] = [u for u in prog['units'] if u['name'] in seen]
    return prog


def _called_functions(obj, acc=None):
    acc = set() if acc is None else acc
    if isinstance(obj, dict):
        if obj.get('k') == 'call':
            acc.add(obj['f'])
        for v in obj.values():
            _called_functions(v, acc)
    elif isinstance(obj, list):
        for v in obj:
            _called_functions(v, acc)
    return acc


# ============================================================================================ Scheduler plumbing
CONFIG = {
    'default': {'mode': 'idem', 'role': 'kernel', 'expand': True, 'strict': True},
    'routines': {'kernel': {'role': 'driver', 'expand': True}},
}


def make_scheduler(text, workdir, fname='kmod.f90', seeds=('kernel',), config=None):
    from loki import Scheduler, config as loki_config
    try:
        loki_config['regex-frontend-timeout'] = 600
    except Exception:  # pylint: disable=broad-except
        pass
    os.makedirs(workdir, exist_ok=True)
    with open(os.path.join(workdir, fname), 'w') as fh:
        fh.write(text)
    return Scheduler(paths=[workdir], config=copy.deepcopy(config or CONFIG), seed_routines=list(seeds))


def scheduler_sources(sched):
    """The (file name, Fortran text) of every source file the scheduler holds, in item order."""
    seen, out = set(), []
    for item in sched.items:
        src = item.source
        if id(src) in seen:
            continue
        seen.add(id(src))
        out.append((os.path.basename(str(src.path)), src.to_fortran()))
    return out


# ============================================================================================ C39 generator
class GenParam(F.Gen):
    """kernel(nlev, mode, n, m, flag, ia, ra, [ib,] k, x) -> lev1(klev, kmode, a, b, r) -> lev2(nl, md, c, s).
    nlev in 1..4 is the extent of automatic arrays / explicit-shape dummies and a loop bound at every level; mode is
    a flag used in conditions and SELECT CASE.  meta['sites'] records the form of every call site."""

    NLEV = (1, 4)

    def __init__(self, rng, features=()):
        super().__init__(rng, features)
        self.forms = {}

    # ---- expressions over the size / flag arguments
    def wa_index(self, scalars):
        if self.active_loops and self.active_loops[-1] in self.lev_loops and self.rng.random() < 0.7:
            return V(self.active_loops[-1])
        return add(N(1), call('mod', call('abs', self.int_expr(1, scalars)), V('nlev')))

    def int_leaf(self, scalars):
        r = self.rng.random()
        if getattr(self, 'in_kernel', False) and r < 0.12:
            return el('wa', self.wa_index(self.int_scalars_noarr))
        return super().int_leaf(scalars)

    def lev_cond(self):
        r = self.rng.random()
        if r < 0.4:
            return cmp_(self.rng.choice(['==', '/=']), V('mode'), N(self.rng.randint(0, 2)))
        if r < 0.7:
            return cmp_(self.rng.choice(['>', '>=', '<']), V('nlev'), N(self.rng.randint(1, 3)))
        return op('and', cmp_('>', V('nlev'), N(1)), cmp_('<', V('mode'), N(2)))

    def stmt(self, d):
        rng = self.rng
        if not getattr(self, 'in_kernel', False) or rng.random() > 0.45:
            return super().stmt(d)
        kinds = ['waelem', 'wasum', 'call1', 'call1']
        if d > 0:
            kinds += ['levloop', 'levloop', 'modeif', 'modesel']
        k = rng.choice(kinds)
        scal = self.int_scalars
        writable = [v for v in self.int_writable if v not in self.active_loops]
        if k == 'waelem':
            return [assign(el('wa', self.wa_index(self.int_scalars_noarr)), self.bounded(self.int_expr(2, scal)))]
        if k == 'wasum':
            f = rng.choice(['sum', 'maxval', 'size'])
            return [assign(V(rng.choice(writable)), self.bounded(add(call(f, V('wa')), self.int_leaf(scal))))]
        if k == 'call1':
            return self.call_lev1()
        if k == 'levloop':
            free = [v for v in self.loopvars if v not in self.active_loops]
            if not free:
                return super().stmt(d)
            v = free[0]
            hi = V('nlev') if rng.random() < 0.7 else add(V('nlev'), N(-1))
            st = None
            lo = N(1)
            if rng.random() < 0.15:
                lo, hi, st = V('nlev'), N(1), N(-1)
            self.active_loops.append(v)
            self.lev_loops.add(v)
            self.loop_range[v] = (1, self.NLEV[1])
            body = [assign(el('wa', V(v)), self.bounded(add(el('wa', V(v)), self.int_expr(1, scal))))] + self.block(d - 1, rng.randint(0, 2)) \
                if rng.random() < 0.8 else self.block(d - 1, rng.randint(1, 2))
            self.active_loops.pop()
            self.lev_loops.discard(v)
            return [do(v, lo, hi, body, st)]
        if k == 'modeif':
            return [if_(self.lev_cond(), self.block(d - 1, rng.randint(1, 2)), self.block(d - 1, 1) if rng.random() < 0.5 else None)]
        if k == 'modesel':
            cases = [{'lo': c, 'hi': c, 'body': self.block(d - 1, 1)} for c in rng.sample([0, 1, 2], rng.randint(1, 2))]
            cases.sort(key=lambda c: c['lo'])
            return [{'s': 'select', 'e': V(rng.choice(['mode', 'nlev'])), 'cases': cases,
                     'default': self.block(d - 1, 1) if rng.random() < 0.6 else []}]
        return super().stmt(d)

    # ---- call sites
    def flag_actual(self, form):
        """Actual argument for a flag dummy: 'plain' passes the caller's flag variable itself (this is what
        ParametriseTransformation follows down the tree), the other forms pass something else."""
        return {'plain': V('mode'), 'expr': add(V('mode'), N(1)), 'other': V('n'), 'lit': N(1), 'dup': V('nlev')}[form]

    def call_lev1(self):
        rng = self.rng
        form = self.forms['lev1'] if 'mixed' not in self.f or rng.random() < 0.6 else rng.choice(['plain', 'expr', 'other', 'lit'])
        size = V('nlev') if self.forms['size1'] == 'plain' else add(V('nlev'), N(0))
        out = V(rng.choice([v for v in ('t1', 't2', 'k') if v not in self.active_loops]))
        self.sites.append(('lev1', form))
        return [callst('lev1', size, self.flag_actual(form), V('wa'), V('ia'), out)]

    def make_lev(self):
        """lev1 / lev2 with automatic arrays dimensioned by the size dummy; dummy names differ from the
        caller's names for some programs (renaming through the tree)."""
        rng = self.rng
        same = rng.random() < 0.4
        kl, km = ('nlev', 'mode') if same else ('klev', 'kmode')
        # ---- lev2(nl, md, c, s)
        nl, md = ('nlev', 'mode') if rng.random() < 0.5 else ('nl', 'md')
        if 'cross' in self.f:
            # crossing names: the size / flag dummies of the intermediate level are spelled like OTHER top-level
            # parametrised variables (the value must follow the binding, not the spelling), lev2 permutes again
            kl, km = rng.choice([('mode', 'nlev'), ('mode', 'nlev'), ('n', 'm'), ('m', 'nlev'), ('mode', 'n'), ('n', 'nlev')])
            nl, md = rng.choice([('nlev', 'mode'), ('mode', 'nlev'), ('m', 'n'), ('n', 'mode'), ('nl', 'md'), ('nlev', 'm')])
        d2 = [decl(nl, 'int', 'in'), decl(md, 'int', 'in'), xdecl('c', 'int', 'inout', [(None, V(nl))]), decl('s', 'int', 'inout'),
              decl('q', 'int'), xdecl('w', 'int', 'local', [(None, V(nl)), (None, N(2))])]
        inner = [assign(el('w', V('q'), N(1)), mod_(add(el('c', V('q')), V(md), V('q')), 13)),
                 assign(el('w', V('q'), N(2)), V('s')),
                 assign(V('s'), mod_(add(V('s'), el('w', V('q'), N(1))), 29))]
        if rng.random() < 0.5:
            inner.append(if_(cmp_('==', V(md), N(rng.randint(0, 2))), [assign(el('c', V('q')), add(el('w', V('q'), N(2)), N(1)))], inline=True))
        b2 = [do('q', N(1), V(nl), inner)]
        if rng.random() < 0.5:
            b2.append(if_(cmp_('>', V(nl), N(rng.randint(1, 3))), [assign(el('c', V(nl)), mod_(add(el('c', N(1)), V('s')), 11))]))
        if rng.random() < 0.4:
            b2.append(assign(V('s'), mod_(add(V('s'), call('sum', V('w'))), 31)))
        if rng.random() < 0.15:
            b2.append({'s': 'print', 'items': [V(nl), V(md), V('s')]})
        lev2 = unit('lev2', [nl, md, 'c', 's'], d2, b2)
        # ---- lev1(kl, km, a, b, r)
        lo0 = rng.random() < 0.5
        d1 = [decl(kl, 'int', 'in'), decl(km, 'int', 'in'), xdecl('a', 'int', 'inout', [(None, V(kl))]),
              decl('b', 'int', 'inout', [(0, 4)]), decl('r', 'int', 'out'), decl('q', 'int'), decl('s', 'int'),
              xdecl('tmp', 'int', 'local', [(N(0), V(kl))] if lo0 else [(None, V(kl))])]
        c1 = rng.choice([2, 3])
        inner = [assign(el('tmp', V('q')), mod_(add(op('prod', el('a', V('q')), N(c1)), V(km), V('q')), 17))]
        if rng.random() < 0.6:
            inner.append(if_(cmp_(rng.choice(['==', '/=', '>']), V(km), N(rng.randint(0, 2))), [assign(el('tmp', V('q')), add(el('tmp', V('q')), N(1)))], inline=rng.random() < 0.5))
        inner.append(assign(V('r'), mod_(add(V('r'), el('tmp', V('q'))), 19)))
        if rng.random() < 0.5:
            inner.append(assign(el('a', V('q')), mod_(add(el('a', V('q')), V('r')), 7)))
        b1 = [assign(V('r'), N(0)), assign(V('s'), V(km))]
        if lo0:
            b1.append(assign(el('tmp', N(0)), V(kl)))
        b1.append(do('q', N(1), V(kl), inner))
        # the call(s) down to lev2: the array actual has exactly kl elements
        form2 = self.forms['lev2']
        acts = {'plain': V(km), 'expr': add(V(km), N(1)), 'other': V('q'), 'lit': N(2), 'dup': V(kl)}
        arr2 = el('tmp', rng_(N(1), V(kl))) if lo0 else V('tmp')
        size2 = V(kl) if self.forms['size2'] == 'plain' else add(V(kl), N(0))
        b1.append(callst('lev2', size2, acts[form2], arr2, V('r')))
        self.sites.append(('lev2', form2))
        if rng.random() < 0.35:
            f2 = form2 if 'mixed' not in self.f else rng.choice(['plain', 'expr', 'lit'])
            b1.append(if_(cmp_('>', V(kl), N(1)), [callst('lev2', size2, acts[f2], V('a'), V('s'))]))
            self.sites.append(('lev2', f2))
            b1.append(assign(V('r'), mod_(add(V('r'), V('s')), 23)))
        if rng.random() < 0.5:
            b1.append({'s': 'select', 'e': V(km), 'cases': [{'lo': 0, 'hi': 0, 'body': [assign(el('b', mod_(V(kl), 5)), V('r'))]},
                                                            {'lo': 1, 'hi': 2, 'body': [assign(el('b', N(0)), add(V('r'), V(kl)))]}], 'default': []})
        else:
            b1.append(assign(el('b', mod_(add(V(kl), V(km)), 5)), V('r')))
        lev1 = unit('lev1', [kl, km, 'a', 'b', 'r'], d1, b1)
        self.names = {'lev1': (kl, km), 'lev2': (nl, md)}
        return [lev1, lev2]

    def program(self, nstmts=5, depth=2):
        rng = self.rng
        self.arrays = {'ia': self.IA[1], 'ra': self.RA[1]}
        if 'twod' in self.f and rng.random() < 0.4:
            self.arrays['ib'] = self.IB[1]
        self.active_loops, self.loop_range, self.lev_loops = [], {}, set()
        self.int_writable = ['k', 't1', 't2']
        self.int_scalars = ['n', 'm', 'k', 't1', 't2', 'nlev', 'mode', 'nlev', 'mode']
        self.int_scalars_noarr = list(self.int_scalars)
        self.real_scalars, self.real_writable = ['x', 'y'], ['x', 'y']
        self.helpers, self.functions, self.assoc_names, self.assoc_depth = [], [], [], 0
        self.sites = []
        forms = ['plain'] * 5 + ['expr', 'other', 'lit'] + (['dup'] * 2 if 'dup' in self.f else [])
        self.forms = {'lev1': rng.choice(forms), 'lev2': rng.choice(forms),
                      'size1': 'plain' if rng.random() < 0.85 else 'expr', 'size2': 'plain' if rng.random() < 0.85 else 'expr'}
        if 'dup' in self.f:
            self.forms.update({rng.choice(['lev1', 'lev2']): 'dup', 'size1': 'plain', 'size2': 'plain'})
        if 'entry1' in self.f:
            self.forms.update(lev1='plain', size1='plain')
        if 'cross' in self.f:
            self.forms.update(lev1='plain', lev2='plain', size1='plain', size2='plain')
        levs = self.make_lev()
        decls = [decl('nlev', 'int', 'in'), decl('mode', 'int', 'in'), decl('n', 'int', 'in'), decl('m', 'int', 'in'), decl('flag', 'log', 'in'),
                 decl('ia', 'int', 'inout', self.arrays['ia']), decl('ra', 'real', 'inout', self.arrays['ra'])]
        args = ['nlev', 'mode', 'n', 'm', 'flag', 'ia', 'ra']
        if 'ib' in self.arrays:
            decls.append(decl('ib', 'int', 'inout', self.arrays['ib']))
            args.append('ib')
        decls += [decl('k', 'int', 'out'), decl('x', 'real', 'out')]
        args += ['k', 'x']
        decls += [decl(v, 'int') for v in ('i', 'j', 'l', 'w', 't1', 't2')] + [decl('y', 'real'), xdecl('wa', 'int', 'local', [(None, V('nlev'))])]
        init = [assign(V('k'), N(0)), assign(V('x'), F.R(0)), assign(V('t1'), V('m')), assign(V('t2'), N(1)), assign(V('y'), F.R(1, 2)),
                assign(V('wa'), add(V('mode'), N(1)))]
        if rng.random() < 0.6:
            init.append(do('i', N(1), V('nlev'), [assign(el('wa', V('i')), mod_(add(op('prod', V('i'), N(2)), V('m')), 9))]))
        self.in_kernel = True
        first = self.call_lev1() if 'entry1' in self.f or 'cross' in self.f else []     # an unconditional call
        mark_keep(init[5:])
        body = init + first + self.block(depth, nstmts)
        if not any(s['s'] == 'call' and s['name'] == 'lev1' for s in walk_stmts(body)):
            body += self.call_lev1()
        if 'mixed' in self.f and len({f for c, f in self.sites if c == 'lev1'}) < 2:
            self.forms['lev1'] = 'expr' if self.forms['lev1'] == 'plain' else 'plain'
            self.f.discard('mixed')
            body += self.call_lev1()
        self.in_kernel = False
        body += mark_keep([assign(V('t2'), call('sum', V('wa'))), assign(V('k'), mod_(add(V('k'), V('t2'), V('t1')), 97))])
        kernel = unit('kernel', args, decls, body)
        sites = {}
        for callee, form in self.sites:
            sites.setdefault(callee, set()).add(form)
        tags = set()
        if any('dup' in v for v in sites.values()):
            tags.add('dup')
        if any(len(v) > 1 for v in sites.values()):
            tags.add('mixed')
        return {'units': [kernel] + levs, 'meta': {'names': self.names, 'sites': {k: sorted(v) for k, v in sites.items()}, 'tags': sorted(tags)}}

    def inputs(self, prog, count=6, fixed=None):
        """Inputs for a parametrisation `fixed` {kernel dummy: value}: the first half match, the others differ
        in at least one parametrised dummy."""
        rng = self.rng
        out = super().inputs(prog, count)
        for c, inp in enumerate(out):
            inp['nlev'] = F.val_int(rng.randint(*self.NLEV))
            inp['mode'] = F.val_int(rng.randint(0, 2))
            if fixed:
                for kname, v in fixed.items():
                    inp[kname] = F.val_int(v)
                if c >= (count + 1) // 2:
                    ks = rng.sample(sorted(fixed), rng.randint(1, len(fixed)))
                    for kname in ks:
                        lo, hi = self.NLEV if kname == 'nlev' else (0, 3)
                        inp[kname] = F.val_int(rng.choice([x for x in range(lo, hi + 1) if x != fixed[kname]]))
        return out


def gen_param_case(rng, features=(), ninputs=6):
    """One C39 case: program + parametrisation choice (stored in prog['param']) + inputs."""
    g = GenParam(rng, features)
    prog = g.program(nstmts=rng.randint(3, 6), depth=2)
    entry = 'lev1' if 'entry1' in features else rng.choice(['role', 'role', 'kernel'])
    cands = ['nlev', 'mode'] + (['n', 'm'] if entry != 'lev1' else [])
    chosen = [v for v in cands if rng.random() < 0.55] or [rng.choice(cands[:2])]
    for feat, must in (('dup', 'nlev'), ('mixed', 'mode')):
        if feat in features and must not in chosen:
            chosen.append(must)
    fixed = {}
    for v in chosen:
        fixed[v] = rng.randint(*g.NLEV) if v == 'nlev' else rng.randint(0, 2) if v == 'mode' else rng.choice([0, 1, 3, 5, 2])
    if 'cross' in features:
        # every top-level name that is re-used as a dummy name further down is parametrised, with pairwise distinct values
        names = prog['meta']['names']
        chosen = sorted({'nlev', 'mode'} | ({*names['lev1'], *names['lev2']} & {'n', 'm'}))
        fixed, used = {}, set()
        for v in chosen:
            pool = range(g.NLEV[0], g.NLEV[1] + 1) if v == 'nlev' else (0, 1, 2) if v == 'mode' else (0, 1, 2, 3, 5)
            fixed[v] = rng.choice([x for x in pool if x not in used])
            used.add(fixed[v])
    if entry == 'lev1':
        kl, km = prog['meta']['names']['lev1']
        dic2p = {{'nlev': kl, 'mode': km}[v]: val for v, val in fixed.items()}
    else:
        dic2p = dict(fixed)
    prog['param'] = {'dic2p': dic2p, 'fixed': [[k, v] for k, v in sorted(fixed.items())],
                     'rbv': rng.random() < 0.5, 'callback': rng.random() < 0.5, 'entry': entry}
    if 'cross' in features and 'prt' in param_tags(prog):
        prog['param']['rbv'] = False     # keep the stratum clear of the replace_by_value / PRINT finding
    return prog, g.inputs(prog, ninputs, fixed)


def gen_consts_case(rng, features, ninputs=3):
    """C39 anchor declare_fixed_value_scalars_as_constants: general kernels (lib_fm.Gen); locals that are assigned
    exactly one literal become PARAMETERs.  No input is 'non-matching' (fixed = [])."""
    g = F.Gen(rng, features)
    prog = g.program(nstmts=rng.randint(4, 8), depth=2)
    prog['param'] = {'dic2p': {}, 'fixed': [], 'rbv': False, 'callback': False, 'entry': 'consts'}
    return prog, g.inputs(prog, ninputs)


def transform_consts(text, prog, workdir):
    from loki import Sourcefile
    from loki.transformations.parametrise import declare_fixed_value_scalars_as_constants
    src = Sourcefile.from_source(text)
    for routine in src.all_subroutines:
        declare_fixed_value_scalars_as_constants(routine)
    return [('kmod.f90', src.to_fortran())]


def transform_param(text, prog, workdir):
    from loki.ir import nodes as ir
    from loki.transformations.parametrise import ParametriseTransformation
    p = prog['param']
    if p['entry'] == 'consts':
        return transform_consts(text, prog, workdir)

    def error_stop(**kw):
        return (ir.GenericStmt(text=f'error stop "{kw["msg"]}"'),)
    sched = make_scheduler(text, workdir)
    entry_points = None if p['entry'] == 'role' else (p['entry'],)
    trafo = ParametriseTransformation(dic2p=dict(p['dic2p']), replace_by_value=p['rbv'], entry_points=entry_points,
                                      abort_callback=error_stop if p['callback'] else None)
    sched.process(transformation=trafo)
    return scheduler_sources(sched)


def F_names(e, acc=None):
    """Names of the variables an expression mentions."""
    acc = set() if acc is None else acc
    if isinstance(e, dict):
        if e.get('k') in ('var', 'arr'):
            acc.add(e['name'])
        for v in e.values():
            F_names(v, acc)
    elif isinstance(e, list):
        for v in e:
            F_names(v, acc)
    return acc


def param_tags(prog):
    """Classification of a parametrised call tree for the violation key (not an oracle): which parametrised
    variables reach which call sites as plain actual arguments.  dup = one of them is passed twice in a call,
    mixed = call sites of one callee pass them at different positions or pass different values at one position
    (e.g. `n` here, `mode` there, both parametrised); rbv = replace_by_value."""
    p = prog['param']
    units = {u['name']: u for u in prog['units']}
    if p['entry'] == 'consts':
        kinds = {s['s'] for u in prog['units'] for s in walk_stmts(u['body'])}
        return 'consts' + ('+assoc' if 'assoc' in kinds else '')
    par = {('lev1' if p['entry'] == 'lev1' else 'kernel'): dict(p['dic2p'])}     # unit -> {parametrised name: value}
    tags, sitepos = set(), {}
    for uname in ('kernel', 'lev1', 'lev2'):
        if uname not in units:
            continue
        pu = par.get(uname, {})
        for s in walk_stmts(units[uname]['body']):
            if s['s'] != 'call' or s['name'] not in units:
                continue
            pos = tuple(i for i, a in enumerate(s['args']) if a['k'] == 'var' and a['name'] in pu)
            names = [s['args'][i]['name'] for i in pos]
            if len(set(names)) < len(names):
                tags.add('dup')
            # a site = the positions that receive a parametrised variable AND the values they receive
            sitepos.setdefault(s['name'], set()).add(tuple((i, pu[s['args'][i]['name']]) for i in pos))
            for i in pos:
                par.setdefault(s['name'], {}).setdefault(units[s['name']]['args'][i], pu[s['args'][i]['name']])
    if any(len(v) > 1 for v in sitepos.values()):
        tags.add('mixed')
    if p['rbv']:
        tags.add('rbv')
    # cross = below the entry point a parametrised dummy is spelled like a top-level key that has ANOTHER value
    if any(nm in p['dic2p'] and p['dic2p'][nm] != val for uname, pu in par.items() if uname != 'kernel' and p['entry'] != 'lev1'
           for nm, val in pu.items()):
        tags.add('cross')
    for uname, pu in par.items():       # replace_by_value and a parametrised variable is an item of a PRINT statement
        for s in walk_stmts(units[uname]['body'] if p['rbv'] else []):
            if s['s'] == 'print' and any(nm in pu for it in s['items'] for nm in F_names(it)):
                tags.add('prt')
    return '+'.join(sorted(tags)) or 'plain'


# ============================================================================================ C39 check loop
def driver_selectable(prog, entry, inputs):
    """The harness PROGRAM of lib_fm.driver_text with every run guarded by `sel_ == k .or. sel_ < 0`
    (sel_ = first command argument): a run that stops the executable does not hide the other runs."""
    head, blocks = None, []
    for k, inp in enumerate(inputs):
        lines = F.driver_text(prog, entry, [inp]).splitlines()
        a = lines.index('  integer :: i_, j_, k_')
        b = lines.index("  print '(A)', '@@END'")
        head = lines[:a + 1]
        blk = [ln.replace("'@@RUN ', 0", f"'@@RUN ', {k}") for ln in lines[a + 1:b]]
        blocks.append([f'  if (sel_ == {k} .or. sel_ < 0) then'] + blk + ['  end if'])
    out = head + ['  integer :: sel_', '  character(len=16) :: arg_', '  call get_command_argument(1, arg_)', '  read(arg_, *) sel_']
    for blk in blocks:
        out += blk
    out += ["  print '(A)', '@@END'", 'end program drv']
    return '\n'.join(out) + '\n'


GUARD_TEXT = 'parametrised to value'
ABORT = ['abort', 1, 1]


def build_exe(workdir, tag, sources, check=False):
    d = os.path.join(workdir, tag)
    os.makedirs(d, exist_ok=True)
    for name, text in sources:
        with open(os.path.join(d, name), 'w') as fh:
            fh.write(text)
    flags = ['-fcheck=bounds,do'] if check else []
    try:
        c = subprocess.run(['gfortran', '-O0', '-w', '-fno-range-check', '-ffree-line-length-none'] + flags + ['-o', 'a.out'] + [n for n, _ in sources],
                           cwd=d, capture_output=True, text=True, timeout=600)
    except subprocess.TimeoutExpired:
        return d, 'timeout', 'compile timeout'
    if c.returncode != 0:
        return d, 'compile-error', c.stderr[-3000:]
    return d, 'ok', ''


def run_exe(d, sel, timeout=300):
    """-> (status, stdout, stderr): 'ok' | 'abort' (stopped through the generated guard) | 'runtime-error' | 'timeout'"""
    try:
        r = subprocess.run(['./a.out', str(sel)], cwd=d, capture_output=True, text=True, timeout=timeout)
    except subprocess.TimeoutExpired:
        return 'timeout', '', 'run timeout'
    if r.returncode == 0:
        return 'ok', r.stdout, r.stderr
    if GUARD_TEXT in r.stdout or GUARD_TEXT in r.stderr:
        return 'abort', r.stdout, r.stderr
    return 'runtime-error', r.stdout, (r.stderr or f'exit status {r.returncode}')[-2000:]


def param_check(ctx, label, cases, transform, entry='kernel', max_disagree=0.03):
    """lib_fm.behaviour_check for parametrised programs: every input runs in its own process, a stop through the
    generated guard is recorded as the observation <<Abort>>, and TLC judges with Trace_Parametrise (matching
    input: Run(prog).out; other inputs: Abort).  Same return value as behaviour_check."""
    import concurrent.futures as cf

    def build_orig(idx):
        prog, inputs = cases[idx]
        text = F.render(prog)
        drv = driver_selectable(prog, entry, inputs)
        res = {'idx': idx, 'text': text, 'drv': drv}
        d, st, err = build_exe(ctx.work, f'{label}-{idx}-orig', [('kmod.f90', text), ('drv.f90', drv)])
        obs = None
        if st == 'ok':
            st, out, err = run_exe(d, -1)
            if st == 'ok':
                obs = F.parse_output(out, len(inputs))
        res['orig'] = (st, obs, err)
        return res

    def build_new(res):
        if 'srcs' not in res:
            return res
        inputs = cases[res['idx']][1]
        d, st, err = build_exe(ctx.work, f"{label}-{res['idx']}-new", list(res['srcs']) + [('drv.f90', res['drv'])], check=True)
        if st != 'ok':
            res['new'] = (st, None, err)
            return res
        obs, worst = [], ('ok', '')
        for k in range(len(inputs)):
            st, out, err = run_exe(d, k)
            if st == 'ok':
                o = F.parse_output(out.replace(f'@@RUN {k}', '@@RUN 0'), 1)[0]
                obs.append(o)
            elif st == 'abort':
                obs.append([ABORT])
            else:
                obs.append(None)
                worst = (st, f'input {k}: {err}')
        res['new'] = ('ok' if worst[0] == 'ok' else worst[0], obs, worst[1])
        return res

    import time
    t0 = time.time()
    with cf.ThreadPoolExecutor(max_workers=8) as ex:
        results = list(ex.map(build_orig, range(len(cases))))
    t1 = time.time()
    for res in results:
        if res['orig'][0] != 'ok':
            continue
        prog = cases[res['idx']][0]
        try:
            res['srcs'] = transform(res['text'], prog, os.path.join(ctx.work, f"{label}-{res['idx']}-tr"))
            res['newtext'] = '\n'.join(t for _, t in res['srcs'])
        except F.NotApplicable as ex:
            res['new'] = ('not-applicable', None, str(ex))
        except MachineryError:
            raise
        except Exception as ex:  # pylint: disable=broad-except
            import traceback
            res['new'] = ('transform-raised', None, f'{type(ex).__name__}: {ex}\n' + traceback.format_exc()[-1500:])
    t2 = time.time()
    with cf.ThreadPoolExecutor(max_workers=8) as ex:
        results = list(ex.map(build_new, results))
    t3 = time.time()
    tcases, tmeta = [], []
    stats = dict(programs=len(cases), orig_failed=0, not_applicable=0, illegal=0, oracle_disagreement=0, judged=0,
                 judged_matching=0, judged_abort=0)
    for r in results:
        prog, inputs = cases[r['idx']]
        fixed = prog['param']['fixed']
        tprog = {'units': prog['units']}
        if r['orig'][0] != 'ok':
            stats['orig_failed'] += 1
            r['drop'] = f"original does not build/run: {r['orig'][0]} {r['orig'][2][:300]}"
            continue
        if r['new'][0] == 'not-applicable':
            stats['not_applicable'] += 1
        for k, inp in enumerate(inputs):
            obs = r['orig'][1][k]
            if obs is None:
                continue
            base = {'prog': tprog, 'entry': entry, 'input': F.input_json(inp), 'fixed': fixed}
            tcases.append(dict(base, observed=obs, mode='preflight'))
            tmeta.append((r['idx'], k, 'preflight'))
            if r['new'][1] is not None and r['new'][1][k] is not None:
                newobs = r['new'][1][k]
                if os.environ.get('VERIF_SIG_CORRUPT') and newobs:      # development aid: the binding must notice a corrupted record
                    newobs = [list(newobs[0][:1]) + [newobs[0][1] + 1] + list(newobs[0][2:])] + newobs[1:] if newobs[0] != ABORT else [['int', 0, 1]]
                tcases.append(dict(base, observed=newobs, mode='new'))
                tmeta.append((r['idx'], k, 'new'))
    verdicts = ctx.validate('Trace_Parametrise', 'Trace_Parametrise', tcases, timeout=2400, per_shard_min=8) if tcases else {}
    ctx.cover.setdefault(f'{label}_phase_wall_s', []).append(
        dict(build_orig=round(t1 - t0, 1), transform=round(t2 - t1, 1), build_new=round(t3 - t2, 1), tlc=round(time.time() - t3, 1)))
    pre = {(idx, k): verdicts[i] for i, (idx, k, mode) in enumerate(tmeta) if mode == 'preflight'}
    bad = {}
    for i, (idx, k, mode) in enumerate(tmeta):
        if mode != 'new':
            continue
        p = pre.get((idx, k))
        if p is None or not p[0]:
            continue
        stats['judged'] += 1
        ok, clause, _ = verdicts[i]
        if ok:
            stats['judged_abort' if clause == 'ok-abort' else 'judged_matching'] += 1
        elif not clause.startswith('illegal'):
            bad.setdefault(idx, (k, clause))
    legal_inputs = {}
    for (idx, k), v in pre.items():
        if v[0]:
            legal_inputs.setdefault(idx, []).append(k)
        elif v[1].startswith('illegal'):
            stats['illegal'] += 1
        else:
            stats['oracle_disagreement'] += 1
            exs = ctx.cover.setdefault('oracle_disagreement_examples', [])
            if len(exs) < 3:
                exs.append({'clause': v[1], 'program': results[idx]['text'][:2500], 'input': cases[idx][1][k]})
    hard = []
    for r in results:
        idx = r['idx']
        if 'drop' in r or idx not in legal_inputs:
            continue
        if r['new'][0] in ('compile-error', 'runtime-error', 'timeout', 'transform-raised'):
            hard.append((idx, r['new'][0], r['new'][2]))
    if stats['oracle_disagreement'] / max(1, len(pre)) > max_disagree:
        ex = ctx.cover.get('oracle_disagreement_examples', [{}])[0]
        raise MachineryError(f"oracle disagreement (gfortran on the ORIGINAL program vs FMachine) on {stats['oracle_disagreement']} of "
                             f"{len(pre)} runs, e.g. {ex.get('clause')}\n{ex.get('program')}\ninput={ex.get('input')}")
    fails = [(idx, 'output', bad[idx][1]) for idx in bad if not any(h[0] == idx for h in hard)] + hard
    for key, val in stats.items():
        ctx.cover[f'{label}_{key}'] = ctx.cover.get(f'{label}_{key}', 0) + val
    return results, fails, legal_inputs


def output_class(msg):
    """Class of a Trace_* rejection clause (positions and values abstracted)."""
    return msg.split(':')[0]


def signature(kind, msg):
    import re
    if kind == 'output':
        return 'output:' + output_class(msg)
    if kind == 'runtime-error':
        line = next((ln.strip() for ln in msg.splitlines() if 'runtime error' in ln), None)
        if line:
            line = re.sub(r"'[^']*'", '<v>', line.split('runtime error:')[1].strip())
            return 'runtime-error:' + re.sub(r'\d+', 'N', line)[:90]
    sig = re.sub(r"[‘'`][^’']*[’']", '<name>', F.failure_signature(kind, msg))
    return re.sub(r'; did you mean.*', '', sig)


def report_grouped(ctx, label, cases, results, fails, check, tagger, rounds=3, max_groups=5):
    """Violations keyed `<label>:<tags of the program>:<failure class>`; one representative per key is shrunk by
    statement deletion (re-running `check` on the candidates) as long as class and tags stay the same."""
    groups = {}
    for idx, kind, msg in fails:
        groups.setdefault((tagger(cases[idx][0]), signature(kind, msg)), []).append((idx, kind, msg))
    ctx.cover[f'{label}_failure_groups'] = {f'{t}|{s}': len(v) for (t, s), v in groups.items()}
    import re
    from .core import load_known
    known = [f.get('match', '') for f in load_known()]
    if ctx.quick:
        rounds, max_groups = min(rounds, 1), min(max_groups, 2)
    max_groups = int(os.environ.get('VERIF_SIG_MAXSHRINK', max_groups))     # development aid
    shrunk = 0
    for (tags, sig), members in sorted(groups.items()):
        idx, kind, msg = min(members, key=lambda m: len(results[m[0]]['text']))
        prog, inputs = cases[idx]
        small = prog
        key = f'{label}:{tags}:{sig}'
        # the key does not depend on the shrunk program: known findings are reported unshrunk (shrinking costs builds + TLC)
        if shrunk < max_groups and not any(re.fullmatch(m, key) for m in known):
            shrunk += 1
            for _ in range(rounds):
                cands = [c for c in map(prune_unreachable, F.removal_candidates(small, limit=60))
                         if tagger(c) == tags and n_keep(c) == n_keep(small)][:12]
                if not cands:
                    break
                _, fl, _ = check([(c, inputs) for c in cands])
                hit = {i for i, kd, mg in fl if signature(kd, mg) == sig}
                nxt = next((c for i, c in enumerate(cands) if i in hit), None)
                if nxt is None:
                    break
                small = nxt
        ctx.violation(key,
                      f'{label}: {len(members)} program(s) [{tags}]; transformed program {"judged " + msg if kind == "output" else kind + ": " + msg[:700]}\n'
                      f'--- original (shrunk) ---\n{F.render(small)}--- options ---\n{small.get("param") or small.get("meta")}\n'
                      f'--- transformed (unshrunk case) ---\n{results[idx].get("newtext", "")[:3000]}',
                      {'prog': prog, 'inputs': inputs})


# ============================================================================================ C34 generators
class GenSig(F.Gen):
    """C34 call trees: kernel(nv, n, m, flag, ia, ra, ib, k, x) with the locals wc(2:7), wv(nv) calling the helper
    units of one family:  seq (sequence association), dup (duplicated actual arguments), shape (assumed-shape
    dummies), dtype (derived-type arguments), tbp (type-bound calls).  The standard helpers h1/h2 stay in the mix
    (their call sites must survive unchanged)."""

    NV = (2, 4)

    def __init__(self, rng, family, features=()):
        super().__init__(rng, tuple(features) + ('call', 'twod'))
        self.family = family
        self.opts = {}

    # ---- shared pieces
    def out_scalar(self):
        return V(self.rng.choice(['t1', 't2', 'k']))

    def count_expr(self, c):
        """An expression with value in 1..c."""
        if c > 1 and self.rng.random() < 0.3:
            return call('min', call('max', V('n'), N(1)), N(c))
        return N(c)

    def make_helpers(self):
        base = super().make_helpers()
        mine = getattr(self, 'fam_' + self.family)()
        self.helpers = self.helpers + [h for h in mine for _ in range(3)]
        return base + [h['unit'] for h in mine] + getattr(self, 'extra_units', [])

    def program(self, nstmts=5, depth=2):
        prog = super().program(nstmts, depth)
        kern = prog['units'][0]
        kern['args'].insert(0, 'nv')
        kern['decls'].insert(0, decl('nv', 'int', 'in'))
        kern['decls'] += [decl('wc', 'int', 'local', [(2, 7)]), xdecl('wv', 'int', 'local', [(None, V('nv'))])]
        init = [do('i', N(2), N(7), [assign(el('wc', V('i')), mod_(add(op('prod', V('i'), N(3)), V('m')), 11))]),
                do('i', N(1), V('nv'), [assign(el('wv', V('i')), mod_(add(V('i'), V('n'), N(20)), 7))])]
        body = kern['body']
        names = {h['unit']['name'] for h in self.helpers[2:]}
        if not any(s['s'] == 'call' and s['name'] in names for s in walk_stmts(body)):
            body += self.rng.choice(self.helpers[2:])['mkcall'](self)
        tail = []
        if 'sec3' in self.f:
            # 3-d locals with pairwise distinct extents wd(2,3,4), we(2,nv,4); one unconditional call that passes a
            # section with a scalar subscript in a leading / middle position; position-sensitive observation
            kern['decls'] += [decl('wd', 'int', 'local', self.SEC3['wd']),
                              xdecl('we', 'int', 'local', [(None, N(2)), (None, V('nv')), (None, N(4))])]
            init += [do('l', N(1), N(4), [do('j', N(1), N(3), [do('i', N(1), N(2), [
                        assign(el('wd', V('i'), V('j'), V('l')), mod_(add(V('i'), op('prod', V('j'), N(3)), op('prod', V('l'), N(7)), V('m')), 11))])])]),
                     do('l', N(1), N(4), [do('j', N(1), V('nv'), [do('i', N(1), N(2), [
                        assign(el('we', V('i'), V('j'), V('l')), mod_(add(op('prod', V('i'), N(2)), V('j'), op('prod', V('l'), N(5)), V('n')), 7))])])])]
            body += self.sec3_call(forced=True)
            tail.append(assign(V('t1'), mod_(add(V('t1'), call('sum', V('wd')), op('prod', el('wd', N(2), N(1), N(1)), N(3)), op('prod', el('wd', N(1), N(3), N(4)), N(5)),
                                                 op('prod', el('wd', N(2), N(2), N(3)), N(7)), call('sum', V('we')), op('prod', el('we', N(1), N(2), N(4)), N(3))), 103)))
        # observe the locals
        tail += [assign(V('t2'), mod_(add(call('sum', V('wc')), call('sum', V('wv'))), 101)), assign(V('k'), mod_(add(V('k'), V('t2'), V('t1')), 97))]
        kern['body'] = body[:5] + mark_keep(init) + body[5:] + mark_keep(tail)
        prog['meta'] = {'family': self.family, 'opts': self.opts}
        prune_unreachable(prog)
        for u in prog['units'][1:]:       # scalar dummies are declared before the arrays whose bounds mention them
            u['decls'].sort(key=lambda d: 0 if d['name'] in u['args'] and not d['dims'] else 1)
        if getattr(self, 'types', None):
            prog['types'] = self.types
            prog['renderer'] = 'signature'
        return prog

    def inputs(self, prog, count=4):
        out = super().inputs(prog, count)
        for inp in out:
            inp['nv'] = F.val_int(self.rng.randint(*self.NV))
        return out

    # ---- stratum sec3 of the shape family: sections of 3-d arrays with scalar subscripts at every position
    SEC3 = {'wd': [(1, 2), (1, 3), (1, 4)], 'we': [(1, 2), (1, 2), (1, 4)]}     # we: second extent nv >= 2

    def sec3_call(self, want=None, forced=False):
        """sh1(a(:)) gets two scalar subscripts, sh2(b2(:,:)) / sh4(b3(:,:)) one; `forced`: a call whose scalar subscript
        is in a non-trailing position."""
        rng = self.rng
        if not getattr(self, 'sec3_spec', None):
            # one section shape per helper and program (all call sites of a callee pass the same extents: explicit shapes
            # are taken from ONE call site, see notes/C34.md `mixext`); at least one helper gets a non-trailing scalar
            spec = {}
            for h in ('sh1', 'sh2', 'sh4'):
                nonvar = rng.random() < 0.75
                if h == 'sh1':
                    keep = rng.choice([1, 2]) if nonvar else 0      # the range; at position 1 or 2 it leaves a leading scalar
                    scal = [d for d in range(3) if d != keep]
                else:
                    scal = [rng.choice([0, 1]) if nonvar else 2]    # position of the single scalar subscript
                spec[h] = (rng.choice(['wd', 'wd', 'we']), scal)
            if all(min(sc) > max(d for d in range(3) if d not in sc) for _, sc in spec.values()):
                spec['sh4'] = (spec['sh4'][0], [rng.choice([0, 1])])
            self.sec3_spec = spec
        nontrail = [h for h, (_, sc) in self.sec3_spec.items() if min(sc) < max(d for d in range(3) if d not in sc)]
        want = rng.choice(nontrail) if forced else want or rng.choice(['sh1', 'sh2', 'sh4', 'sh4'])
        arr, scal = self.sec3_spec[want]
        subs = []
        for d, (lo, hi) in enumerate(self.SEC3[arr]):
            if d not in scal:
                subs.append(rng_())
            elif rng.random() < 0.25:
                subs.append(add(N(lo), mod_(call('abs', V('n')), hi - lo + 1)))
            else:
                subs.append(N(rng.randint(lo, hi)))
        out = V(rng.choice(['t1', 'k'])) if forced else self.out_scalar()
        return [callst(want, el(arr, *subs), out)]

    # ---- family: sequence association
    SEQ_ARRAYS = {'ia': [(0, 4)], 'ib': [(1, 3), (-1, 1)], 'wc': [(2, 7)]}

    def fam_seq(self):
        sq1 = unit('sq1', ['v', 'cnt', 'r'], [xdecl('v', 'int', 'inout', [(None, V('cnt'))]), decl('cnt', 'int', 'in'), decl('r', 'int', 'out'), decl('q', 'int')],
                   [assign(V('r'), N(0)),
                    do('q', N(1), V('cnt'), [assign(el('v', V('q')), mod_(add(op('prod', el('v', V('q')), N(2)), V('q')), 13)),
                                             assign(V('r'), add(V('r'), el('v', V('q'))))])])
        sq2 = unit('sq2', ['v', 'c1', 'c2', 's'], [xdecl('v', 'int', 'in', [(None, V('c1')), (None, V('c2'))]), decl('c1', 'int', 'in'), decl('c2', 'int', 'in'),
                                                  decl('s', 'int', 'inout'), decl('q', 'int')],
                   [do('q', N(1), V('c2'), [assign(V('s'), mod_(add(V('s'), el('v', V('c1'), V('q')), op('prod', el('v', N(1), V('q')), V('q'))), 31))]),
                    assign(V('s'), mod_(add(V('s'), call('sum', V('v'))), 41))])
        hi3 = add(V('lo'), V('cnt'), N(-1))
        sq3 = unit('sq3', ['v', 'lo', 'cnt', 'r'], [xdecl('v', 'int', 'inout', [(V('lo'), hi3)]), decl('lo', 'int', 'in'), decl('cnt', 'int', 'in'),
                                                   decl('r', 'int', 'out'), decl('q', 'int')],
                   [assign(V('r'), add(op('prod', call('lbound', V('v'), N(1)), N(100)), call('ubound', V('v'), N(1)))),
                    do('q', V('lo'), hi3, [assign(el('v', V('q')), mod_(add(el('v', V('q')), V('q')), 11))]),
                    assign(V('r'), mod_(add(V('r'), el('v', V('lo'))), 211))])

        def actual(g, need_write):
            """-> (actual expression, number of elements available from it)"""
            rng = g.rng
            arr = rng.choice(['ia', 'ib', 'ib', 'wc'])
            dims = g.SEQ_ARRAYS[arr]
            size = 1
            for lo, hi in dims:
                size *= hi - lo + 1
            r = rng.random()
            if r < 0.12:
                return V(arr), size
            if r < 0.22 and len(dims) == 1:
                lo, hi = dims[0]
                a, b = sorted(rng.sample(range(lo, hi + 1), 2))
                return el(arr, rng_(N(a), N(b))), b - a + 1
            if r < 0.3 and len(dims) == 2:
                j = rng.randint(dims[1][0], dims[1][1])
                return el(arr, rng_(), N(j)), dims[0][1] - dims[0][0] + 1
            # element actual: sequence association with the rest of the array
            subs, lin, stride = [], 0, 1
            for d, (lo, hi) in enumerate(dims):
                p = rng.randint(lo, hi) if len(dims) == 1 or rng.random() < 0.4 else rng.randint(lo + 1, hi) if d == 0 else rng.randint(lo, hi - 1)
                if d == 0 and p < hi and rng.random() < 0.2:
                    subs.append(add(N(p), mod_(call('abs', V('n')), 2)))      # p or p + 1
                    p += 1
                else:
                    subs.append(N(p))
                lin += (p - lo) * stride
                stride *= hi - lo + 1
            return el(arr, *subs), size - lin

        def call1(g):
            a, avail = actual(g, True)
            c = g.rng.randint(min(avail, 2), min(avail, 5))
            return [callst('sq1', a, g.count_expr(c) if c < 3 else N(c), g.out_scalar())]

        def call2(g):
            a, avail = actual(g, False)
            c1 = g.rng.randint(1, min(3, avail))
            c2 = g.rng.randint(1, min(3, avail // c1))
            return [callst('sq2', a, N(c1), N(c2), g.out_scalar())]

        def call3(g):
            a, avail = actual(g, True)
            c = g.rng.randint(1, min(avail, 4))
            return [callst('sq3', a, N(g.rng.choice([0, 1, 2, -1])), g.count_expr(c), g.out_scalar())]
        return [{'unit': sq1, 'mkcall': call1}, {'unit': sq2, 'mkcall': call2}, {'unit': sq3, 'mkcall': call3}]

    # ---- family: duplicated actual arguments
    def fam_dup(self):
        rng = self.rng
        self.opts.update(size=rng.choice(['dupvar', 'dupvar', 'duplit', 'nodup']), arr=rng.choice(['dup', 'dup', 'nodup']),
                         recurse=rng.random() < 0.7, rename=rng.random() < 0.4, spec_use=rng.random() < 0.5, nested=rng.random() < 0.6)
        names = rng.choice([('n1', 'n2'), ('klon', 'klev'), ('n_a', 'n_b')])
        n1, n2 = names
        lim = call('min', V(n1), V(n2))
        d1 = [decl(n1, 'int', 'in'), decl(n2, 'int', 'in'), xdecl('a', 'int', 'in', [(N(0), N(4))]), xdecl('b', 'int', 'in', [(N(0), N(4))]),
              decl('r', 'int', 'out'), decl('q', 'int'), xdecl('tmp', 'int', 'local', [(None, V(n2) if self.opts['spec_use'] else N(4))])]
        b1 = [assign(V('r'), N(0)), assign(V('tmp'), N(1)),
              do('q', N(1), lim, [assign(el('tmp', V('q')), add(el('a', mod_(V('q'), 5)), el('b', mod_(add(V('q'), V(n2)), 5)))),
                                  assign(V('r'), mod_(add(V('r'), op('prod', el('tmp', V('q')), V('q'))), 37))]),
              assign(V('r'), mod_(add(V('r'), op('prod', V(n1), N(3)), V(n2)), 41))]
        units = []
        if self.opts['nested']:
            d2 = [decl('m1', 'int', 'in'), decl('m2', 'int', 'in'), xdecl('c', 'int', 'in', [(None, V('m1'))]), decl('s', 'int', 'inout'), decl('q', 'int')]
            b2 = [do('q', N(1), call('min', V('m1'), V('m2')), [assign(V('s'), mod_(add(V('s'), el('c', V('q')), V('m2')), 43))])]
            units.append(unit('dp2', ['m1', 'm2', 'c', 's'], d2, b2))
            arr = V('tmp') if self.opts['spec_use'] else el('tmp', rng_(N(1), V(n2)))
            b1.append(callst('dp2', V(n2), V(n1), arr, V('r')))
        dp1 = unit('dp1', [n1, n2, 'a', 'b', 'r'], d1, b1)
        self.extra_units = units

        def call1(g):
            o = g.opts
            s1, s2 = {'dupvar': (V('nv'), V('nv')), 'duplit': (N(3), N(3)), 'nodup': (V('nv'), N(g.rng.randint(2, 4)))}[o['size']]
            if o['size'] == 'nodup' and g.rng.random() < 0.5:
                s1, s2 = s2, s1
            a1, a2 = (V('ia'), V('ia')) if o['arr'] == 'dup' else (V('ia'), el('wc', rng_(N(2), N(6))))
            return [callst('dp1', s1, s2, a1, a2, g.out_scalar())]
        return [{'unit': dp1, 'mkcall': call1}]

    # ---- family: assumed-shape dummies made explicit
    def fam_shape(self):
        rng = self.rng
        self.opts.update(clash=('clash' in self.f), nested=rng.random() < 0.5, whole_op=rng.random() < 0.5)
        tmpname = 'nv' if self.opts['clash'] else 'sz'
        d1 = [xdecl('a', 'int', 'inout', [(None, ASSUMED)]), decl('r', 'int', 'out'), decl('q', 'int'), decl(tmpname, 'int')]
        b1 = [assign(V(tmpname), call('size', V('a'))),
              assign(V('r'), add(op('prod', V(tmpname), N(7)), call('lbound', V('a'), N(1)), op('prod', call('ubound', V('a'), N(1)), N(3)))),
              do('q', N(1), V(tmpname), [assign(el('a', V('q')), mod_(add(el('a', V('q')), V('q')), 13)),
                                         assign(V('r'), mod_(add(V('r'), op('prod', el('a', V('q')), V('q'))), 97))])]
        if self.opts['whole_op']:
            b1.append(assign(V('a'), add(V('a'), N(1))))
        units = []
        if self.opts['nested']:
            d3 = [xdecl('c', 'int', 'in', [(None, ASSUMED)]), decl('s', 'int', 'inout')]
            b3 = [assign(V('s'), mod_(add(V('s'), call('sum', V('c')), op('prod', call('size', V('c')), N(5)), el('c', call('size', V('c')))), 89))]
            units.append(unit('sh3', ['c', 's'], d3, b3))
            b1.append(callst('sh3', V('a'), V('r')))
        sh1 = unit('sh1', ['a', 'r'], d1, b1)
        d2 = [xdecl('b2', 'int', 'in', [(None, ASSUMED), (None, ASSUMED)]), decl('s', 'int', 'inout')]
        b2 = [assign(V('s'), mod_(add(V('s'), op('prod', call('size', V('b2'), N(1)), N(5)), call('size', V('b2'), N(2)), call('sum', V('b2')), el('b2', N(1), N(1)),
                                      op('prod', call('ubound', V('b2'), N(2)), N(11))), 89))]
        sh2 = unit('sh2', ['b2', 's'], d2, b2)
        self.extra_units = units
        if 'sec3' in self.f:
            # sh4(b3, r): rank-2 inout dummy: whole-array operation, loop to the extent of the second dimension
            d4 = [xdecl('b3', 'int', 'inout', [(None, ASSUMED), (None, ASSUMED)]), decl('r', 'int', 'out'), decl('q', 'int')]
            b4 = [assign(V('r'), add(op('prod', call('size', V('b3'), N(1)), N(10)), call('size', V('b3'), N(2)))),
                  assign(V('b3'), add(V('b3'), N(1))),
                  do('q', N(1), call('size', V('b3'), N(2)), [
                      assign(el('b3', N(1), V('q')), mod_(add(el('b3', N(1), V('q')), V('q')), 13)),
                      assign(V('r'), mod_(add(V('r'), op('prod', el('b3', call('size', V('b3'), N(1)), V('q')), V('q'))), 97))])]
            sh4 = unit('sh4', ['b3', 'r'], d4, b4)
            return [{'unit': sh1, 'mkcall': lambda g: g.sec3_call(want='sh1')}, {'unit': sh2, 'mkcall': lambda g: g.sec3_call(want='sh2')},
                    {'unit': sh4, 'mkcall': lambda g: g.sec3_call(want='sh4')}]

        def call1(g):
            r = g.rng.random()
            if r < 0.2:
                a = V('ia')
            elif r < 0.4:
                a = V('wc')
            elif r < 0.6:
                a = V('wv')
            elif r < 0.7:
                lo, hi = sorted(g.rng.sample(range(0, 5), 2))
                a = el('ia', rng_(N(lo), N(hi)))
            elif r < 0.8:
                a = el('ib', rng_(), N(g.rng.randint(-1, 1)))
            elif r < 0.9:
                a = el('ib', N(g.rng.randint(1, 3)), rng_())
            else:
                a = el('wv', rng_(N(2), V('nv')))
            return [callst('sh1', a, g.out_scalar())]

        def call2(g):
            r = g.rng.random()
            a = V('ib') if r < 0.6 else el('ib', rng_(N(1), N(2)), rng_()) if r < 0.8 else el('ib', rng_(), rng_(N(0), N(1)))
            return [callst('sh2', a, g.out_scalar())]
        return [{'unit': sh1, 'mkcall': call1}, {'unit': sh2, 'mkcall': call2}]


def actual_extents(u, a):
    """Extents (as text) of an array actual: whole array or section of a local / dummy of unit u."""
    d = next((x for x in u['decls'] if x['name'] == a['name']), None)
    if d is None:
        return ('?',)
    if d.get('xdims'):
        ext = [F.rx(hi) if lo == NONE and hi != ASSUMED else f'{F.rx(lo) if lo != NONE else 1}:{F.rx(hi) if hi != ASSUMED else ""}' for lo, hi in d['xdims']]
    else:
        ext = [str(hi - lo + 1) for lo, hi in d['dims']]
    if a['k'] == 'var':
        return tuple(ext)
    out = []
    for e, c in zip(ext, a['c']):
        if c['k'] == 'range':
            out.append(e if c['lo'] == NONE and c['hi'] == NONE else F.rsub(c))
    return tuple(out)


def sig_tags(prog):
    """Call-site classes of a C34 program (violation key only)."""
    fam = prog['meta']['family']
    units = {u['name']: u for u in prog['units']}
    tags = set()
    dupgroups = {}
    extents = {}
    for u in prog['units']:
        for s in walk_stmts(u['body']):
            if s['s'] != 'call' or s['name'] not in units:
                continue
            cal = units[s['name']]
            if fam == 'seq' and s['name'].startswith('sq'):
                a = s['args'][0]
                if a['k'] == 'var':
                    tags.add('whole')
                elif any(c['k'] == 'range' for c in a['c']):
                    tags.add('sec')
                elif len(a['c']) == 1:
                    tags.add('e1')
                else:
                    tags.add('e2' + ('r2' if s['name'] == 'sq2' else ''))
            elif fam == 'dup' and s['name'].startswith('dp'):
                # dummies of the callee that receive the same actual (duplicates of the caller's own dummies count:
                # they are merged by the time the nested call is rewritten)
                mine = dupgroups.get(u['name'], {})
                keys = [mine.get(a['name'], a['name']) if a['k'] == 'var' else F.rx(a) for a in s['args']]
                rename = prog['meta'].get('opts', {}).get('rename')
                for key in set(keys):
                    grp = [dn for dn, kk in zip(cal['args'], keys) if kk == key]
                    if len(grp) < 2:
                        continue
                    isarr = bool(next(d for d in cal['decls'] if d['name'] == grp[0])['dims'])
                    tags.add('duparray' if isarr else 'dupscalar')
                    for dn in grp:
                        dupgroups.setdefault(cal['name'], {})[dn] = grp[0]
                    gone = set(grp if rename else grp[1:])     # names that no longer exist in the callee afterwards
                    if any(nm in gone for d in cal['decls'] if d.get('xdims') for nm in F_names(d['xdims'])):
                        tags.add('specuse')
            elif fam == 'shape' and s['name'].startswith('sh'):
                a = s['args'][0]
                extents.setdefault(s['name'], set()).add(actual_extents(u, a))
                if a['k'] == 'var':
                    decl_ = next((d for d in u['decls'] if d['name'] == a['name']), None)
                    lb1 = decl_ is not None and (all(lo == 1 for lo, _ in decl_['dims']) if not decl_.get('xdims') else all(lo == NONE for lo, _ in decl_['xdims']))
                    assumed = decl_ is not None and decl_.get('xdims') and any(hi == ASSUMED for _, hi in decl_['xdims'])
                    tags.add('whole' if lb1 or assumed else 'wholelb')
                    if decl_ is not None and decl_.get('xdims') and not assumed:
                        tags.add('vardim')
                else:
                    nr = sum(1 for c in a['c'] if c['k'] == 'range')
                    if len(a['c']) == 3:      # section of a 3-d array: are all scalar subscripts trailing?
                        sc = [i for i, c in enumerate(a['c']) if c['k'] != 'range']
                        rg = [i for i, c in enumerate(a['c']) if c['k'] == 'range']
                        tags.add('sec3t' if sc and rg and min(sc) > max(rg) else 'sec3')
                        continue
                    decl_ = next((d for d in u['decls'] if d['name'] == a['name']), None)
                    lbs = [lo for (lo, _), c in zip(decl_['dims'], a['c']) if c['k'] == 'range'] if decl_ is not None and not decl_.get('xdims') else [1]
                    tags.add('sec' if nr == len(a['c']) else 'secrank' if all(lo == 1 for lo in lbs) else 'secranklb')
    o = prog['meta'].get('opts', {})
    if fam == 'shape' and o.get('clash'):
        tags.add('clash')
    if any(len(v) > 1 for v in extents.values()):
        tags.add('mixext')      # call sites of one assumed-shape callee pass different extents
    if fam == 'dup':
        tags.add('rename' if o.get('rename') else 'keepnames')
    if fam in ('dtype', 'tbp'):
        tags |= {'lb%d' % o.get('vlb', 1)} | ({'nested'} if o.get('nested') else set()) | ({'expand'} if o.get('expand_after') else set())
        if any(s.get('tbp') for u in prog['units'] for s in walk_stmts(u['body']) if s['s'] == 'call'):
            tags.add('tbcall')
    return fam + ':' + ('+'.join(sorted(tags)) or 'none')


def gen_sig_case(rng, family, features=(), ninputs=3):
    g = GenSig(rng, family, features)
    prog = g.program(nstmts=rng.randint(3, 6), depth=2)
    return prog, g.inputs(prog, ninputs)


def transform_sig(text, prog, workdir):
    fam = prog['meta']['family']
    o = prog['meta'].get('opts', {})
    sched = make_scheduler(text, workdir)
    if fam == 'seq':
        from loki.transformations.sanitise import SequenceAssociationTransformation
        sched.process(transformation=SequenceAssociationTransformation(resolve_sequence_associations=True))
    elif fam == 'dup':
        from loki.transformations.routine_signatures import RemoveDuplicateArgs
        sched.process(transformation=RemoveDuplicateArgs(recurse_to_kernels=o['recurse'], rename_common=o['rename']))
    elif fam == 'shape':
        from loki.transformations.argument_shape import ArgumentArrayShapeAnalysis, ExplicitArgumentArrayShapeTransformation
        sched.process(transformation=ArgumentArrayShapeAnalysis())
        sched.process(transformation=ExplicitArgumentArrayShapeTransformation())
    elif fam in ('dtype', 'tbp'):
        from loki.transformations.transform_derived_types import DerivedTypeArgumentsTransformation, TypeboundProcedureCallTransformation
        if fam == 'tbp':
            sched.process(transformation=TypeboundProcedureCallTransformation(duplicate_typebound_kernels=o.get('dupkern', False)))
        if fam == 'dtype' or o.get('expand_after'):
            sched.process(transformation=DerivedTypeArgumentsTransformation(all_derived_types=o.get('all_types', True)))
    else:
        raise MachineryError(f'unknown family {fam}')
    return scheduler_sources(sched)


class checked_builds:
    """Context manager: lib_fm.behaviour_check builds the TRANSFORMED programs (`-new` tags) with -fcheck=bounds,do:
    an actual argument a rewritten call makes too small for its dummy, or an index a rewritten declaration puts
    out of bounds, must not go unnoticed."""

    @staticmethod
    def compile_run(workdir, tag, sources, timeout=120):
        d, st, err = build_exe(workdir, tag, sources, check=tag.endswith('-new'))
        if st != 'ok':
            return st, '', err
        try:
            r = subprocess.run(['./a.out'], cwd=d, capture_output=True, text=True, timeout=timeout)
        except subprocess.TimeoutExpired:
            return 'timeout', '', 'run timeout'
        if r.returncode != 0:
            return 'runtime-error', r.stdout, r.stderr[-2000:]
        return 'ok', r.stdout, r.stderr

    def __enter__(self):
        self.saved = F.compile_run
        F.compile_run = self.compile_run
        return self

    def __exit__(self, *exc):
        F.compile_run = self.saved
        return False


# ============================================================================================ derived types (C34 dtype / tbp)
def rec_decls(name, tname, intent, types, top=True, root=None, prefix=''):
    """Flat declarations of a record variable (see FMachine.CallUnit BoundComp): placeholder + one decl per component."""
    root = root or name
    ph = decl(name, 'rec', intent)
    ph['tname'] = tname
    if not top:
        ph.update(rec=root, field=prefix)
    out = [ph]
    for fname, fty, fdims in types[tname]['fields']:
        if fty.startswith('rec:'):
            out += rec_decls(f'{name}%{fname}', fty[4:], intent, types, False, root, f'{prefix}%{fname}')
        else:
            d = decl(f'{name}%{fname}', fty, intent, fdims)
            d.update(rec=root, field=f'{prefix}%{fname}')
            out.append(d)
    return out


def render_sig(prog):
    """Module layout with derived-type definitions (prog['types']) and record declarations."""
    lines = ['module kmod', '  implicit none', '  integer, parameter :: jprb = selected_real_kind(13, 300)']
    for tname, t in prog.get('types', {}).items():
        lines.append(f'  type {tname}')
        for fname, fty, fdims in t['fields']:
            dims = '(' + ', '.join(f'{lo}:{hi}' for lo, hi in fdims) + ')' if fdims else ''
            ty = f'type({fty[4:]})' if fty.startswith('rec:') else F.TYPES[fty]
            lines.append(f'    {ty} :: {fname}{dims}')
        present = {u['name'] for u in prog['units']}
        binds = [(b, tg) for b, tg in t.get('bindings', []) if tg in present]
        if binds:
            lines.append('  contains')
            for bname, target in binds:
                lines.append(f'    procedure :: {bname} => {target}')
        lines.append(f'  end type {tname}')
    lines.append('contains')
    for u in prog['units']:
        pad = '  '
        lines.append(f"{pad}subroutine {u['name']}({', '.join(u['args'])})")
        for d in u['decls']:
            if 'rec' in d:
                continue
            if d['type'] == 'rec':
                kw = 'class' if d.get('passed') else 'type'
                intent = f", intent({d['intent']})" if d['name'] in u['args'] else ''
                lines.append(f"{pad}  {kw}({d['tname']}){intent} :: {d['name']}")
            else:
                lines.append(pad + '  ' + F.rdecl(d, d['name'] in u['args']))
        lines += render_tbp(F.rstmts(u['body'], 4, None), u['body'])
        lines.append(f"{pad}end subroutine {u['name']}")
    lines.append('end module kmod')
    return '\n'.join(lines) + '\n'


def render_tbp(lines, body):
    """Calls marked tbp = 'binding' are written `call obj%binding(rest)` (the machine sees the plain call with the
    passed object as first argument - that is what a type-bound call with the PASS attribute means)."""
    marks = [s for s in walk_stmts(body) if s['s'] == 'call' and s.get('tbp')]
    for s in marks:
        plain = f"call {s['name']}({', '.join(F.rx(a) for a in s['args'])})"
        tb = f"call {F.rx(s['args'][0])}%{s['tbp']}({', '.join(F.rx(a) for a in s['args'][1:])})"
        for i, ln in enumerate(lines):
            if ln.strip() == plain or ln.strip().endswith(') ' + plain):
                lines[i] = ln.replace(plain, tb)
                break
        else:
            raise MachineryError(f'render_tbp: call not found: {plain}')
    return lines


F.RENDERERS['signature'] = render_sig


def _fam_dtype(self, tbp=False):
    rng = self.rng
    vlb = rng.choice([0, 1, 1])
    nested = rng.random() < 0.6
    self.opts.update(vlb=vlb, nested=nested, all_types=True, tbp=tbp)
    types = {'t_state': {'fields': [('cnt', 'int', []), ('v', 'int', [(vlb, vlb + 4)]), ('w', 'int', [(1, 3)])]}}
    if nested:
        types['t_outer'] = {'fields': [('inner', 'rec:t_state', []), ('tag', 'int', [])]}
    self.types = types
    lo, hi = vlb, vlb + 4
    # dt2(e, s): read-only use
    d2 = rec_decls('e', 't_state', 'in', types) + [decl('s', 'int', 'inout')]
    b2 = [assign(V('s'), mod_(add(V('s'), el('e%v', N(lo + 1)), op('prod', V('e%cnt'), N(3)), call('size', V('e%v')), call('sum', V('e%w'))), 89))]
    dt2 = unit('dt2', ['e', 's'], d2, b2)
    if tbp:
        self.opts.update(dupkern=rng.random() < 0.3, expand_after=rng.random() < 0.4)
    # dt1(d, r): updates components, passes the record on
    d1 = rec_decls('d', 't_state', 'inout', types) + [decl('r', 'int', 'out'), decl('q', 'int')]
    b1 = [assign(V('r'), V('d%cnt')),
          do('q', N(lo), N(hi), [assign(el('d%v', V('q')), mod_(add(el('d%v', V('q')), V('q'), V('d%cnt')), 13)),
                                 assign(V('r'), mod_(add(V('r'), op('prod', el('d%v', V('q')), add(V('q'), N(1)))), 97))]),
          assign(V('d%cnt'), mod_(add(V('d%cnt'), N(1)), 7))]
    if rng.random() < 0.5:
        b1.append(assign(V('d%w'), add(V('d%w'), V('d%cnt'))))
    if rng.random() < 0.6:
        b1.append(callst('dt2', V('d'), V('r')))
        if tbp and rng.random() < 0.5:
            b1[-1]['tbp'] = 'peek'
    dt1 = unit('dt1', ['d', 'r'], d1, b1)
    units = []
    hs = []
    if tbp:
        types['t_state']['bindings'] = [('upd', 'dt1'), ('peek', 'dt2')]
        for u in (dt1, dt2):
            u['decls'][0]['passed'] = True

    def mark(sts, binding):
        if tbp and rng.random() < 0.75:
            sts[0]['tbp'] = binding
        return sts

    def call1(g):
        tgt = V('st') if not nested or g.rng.random() < 0.6 else V('ou%inner')
        return mark([callst('dt1', tgt, g.out_scalar())], 'upd')

    def call2(g):
        tgt = V('st') if not nested or g.rng.random() < 0.5 else V('ou%inner')
        return mark([callst('dt2', tgt, g.out_scalar())], 'peek')
    hs += [{'unit': dt1, 'mkcall': call1}, {'unit': dt2, 'mkcall': call2}]
    if nested:
        d3 = rec_decls('o', 't_outer', 'inout', types) + [decl('r', 'int', 'out')]
        b3 = [assign(V('o%tag'), add(V('o%tag'), N(1))),
              assign(el('o%inner%v', N(lo)), mod_(add(el('o%inner%v', N(hi)), V('o%tag')), 11)),
              assign(V('r'), add(V('o%tag'), V('o%inner%cnt')))]
        if rng.random() < 0.7:
            b3 += mark([callst('dt2', V('o%inner'), V('r'))], 'peek')
        dt3 = unit('dt3', ['o', 'r'], d3, b3)

        def call3(g):
            return [callst('dt3', V('ou'), g.out_scalar())]
        hs.append({'unit': dt3, 'mkcall': call3})
    self.extra_units = units
    return hs


def _dtype_program(self, prog):
    """Kernel side of the dtype / tbp families: record locals, their initialisation and observation."""
    kern = prog['units'][0]
    types = self.types
    vlb = self.opts['vlb']
    kern['decls'] += rec_decls('st', 't_state', 'local', types)
    init = [assign(V('st%cnt'), V('m')), assign(V('st%v'), V('ia')), assign(V('st%w'), add(V('n'), N(2)))]
    tail = [assign(V('t2'), mod_(add(V('st%cnt'), call('sum', V('st%v')), call('sum', V('st%w'))), 101)), assign(V('ia'), V('st%v'))]
    if self.opts['nested']:
        kern['decls'] += rec_decls('ou', 't_outer', 'local', types)
        init += [assign(V('ou%tag'), N(3)), assign(V('ou%inner%cnt'), N(2)), assign(V('ou%inner%v'), add(V('ia'), N(1))), assign(V('ou%inner%w'), N(1))]
        tail += [assign(V('t1'), mod_(add(V('t1'), V('ou%tag'), V('ou%inner%cnt'), call('sum', V('ou%inner%v')), el('ou%inner%v', N(vlb))), 103))]
    tail.append(assign(V('k'), mod_(add(V('k'), V('t2'), V('t1')), 97)))
    body = kern['body']
    kern['body'] = body[:5] + mark_keep(init) + body[5:] + mark_keep(tail)
    return prog


GenSig.fam_dtype = lambda self: _fam_dtype(self, False)
GenSig.fam_tbp = lambda self: _fam_dtype(self, True)
_orig_program = GenSig.program


def _program(self, nstmts=5, depth=2):
    prog = _orig_program(self, nstmts, depth)
    if self.family in ('dtype', 'tbp'):
        _dtype_program(self, prog)
    return prog


GenSig.program = _program
