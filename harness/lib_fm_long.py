"""Programs with very long constructs for C04 (line wrapping) and, as extra corpus, C02/C03.

`LongGen` extends the MiniFortran generator of lib_fm with statements whose printed form is far longer than a
line: deep expressions, calls with many (keyword) arguments, PRINT/WRITE lists with long character literals
(both quote kinds, doubled quotes, `!`, `&`, brackets inside literals, lengths around the line width), long
logical conditions, array constructors, declarations with many entities, SELECT CASE with many values, inline
IF / WHERE / FORALL with long bodies, labelled statements, ALLOCATE lists, long trailing comments, and deep
block nesting.  The text-only statements are `raw` statements (no-ops for the reference machine).
`long_program_text()` renders the program and adds a parameter module with a long USE ... ONLY list.
"""
from . import lib_fm as F
from .lib_fm import V, N, op, call, el, cmp_, assign, decl, unit, NONE

WORDS = ['alpha', 'beta', 'gamma', 'delta', 'epsilon', 'zeta', 'eta', 'theta', 'iota', 'kappa', 'lambda', 'omega',
         "don't", "it's", 'a&b', 'wow!', '(x)', 'say "hi"', 'x % y', 'end if', '&', '!', "''", 'a,b', '::', 'c = d']


def fquote(s, q="'"):
    return q + s.replace(q, q + q) + q


class LongGen(F.Gen):
    NARGS = 14

    def __init__(self, rng, features=(), maxlit=150, apostrophes=True):
        super().__init__(rng, features)
        self.maxlit = maxlit
        self.nlabel = 100
        # apostrophes=False: no apostrophe inside literal values (the backend prints literals with '...' delimiters and
        # doubles embedded apostrophes; C04 shows that such literals can be broken across lines)
        self.words = WORDS if apostrophes else [w for w in WORDS if "'" not in w]

    # ------------------------------------------------------------------ text pieces
    def literal(self, n=None):
        """A character literal of about n characters (value made of words with blanks and awkward characters)."""
        rng = self.rng
        n = n or rng.choice([8, 20, 40, 70, 95, 110, 118, 122, 125, 127, 129, 131, 133, 140, self.maxlit])
        s = ''
        while len(s) < n:
            s += rng.choice(self.words) + rng.choice([' ', ' ', ', ', '  ', ''])
        s = s[:n].rstrip() or 'x'
        if s.endswith('&'):
            s += 'z'            # a literal that ends in & is legal but obscures the reports: keep & inside
        return fquote(s, rng.choice(["'", "'", '"']))

    # declared by the raw declarations that program() adds; names with underscores and digits
    EXTRA_SCALARS = ['local_scalar_variable_1', 'local_scalar_variable_2', 'local_scalar_variable_11', 'iv3', 'iv17']

    def long_int(self, d=None):
        d = d or self.rng.choice([3, 4, 4, 5])
        return self.int_expr(d, self.int_scalars + self.EXTRA_SCALARS)

    def long_cond(self, n=None):
        n = n or self.rng.randint(3, 9)
        cs = [self.cond(self.int_scalars) for _ in range(n)]
        e = cs[0]
        for c in cs[1:]:
            e = op(self.rng.choice(['and', 'or']), e, c) if e['k'] not in ('and', 'or') or self.rng.random() < 0.5 else \
                {'k': e['k'], 'c': e['c'] + [c]}
        return e

    def raw(self, text):
        return {'s': 'raw', 'text': text}

    # ------------------------------------------------------------------ statements
    KINDS = ['longassign', 'longcall', 'kwcall', 'print', 'write', 'cond', 'inlineif', 'charassign', 'constructor', 'select',
             'where', 'forall', 'label', 'allocate', 'comment', 'concat', 'fcallchain', 'assoc']

    def stmt(self, d):
        rng = self.rng
        if rng.random() < 0.45:
            return super().stmt(d)
        return self.long_stmt(rng.choice(self.KINDS + ['longassign', 'print']), d)

    def long_stmt(self, k, d):
        """One statement of the given long kind."""
        rng = self.rng
        writable = [v for v in self.int_writable if v not in self.active_loops]
        if k == 'cond' and d <= 0:
            k = 'inlineif'
        if k == 'longassign':
            return [assign(V(rng.choice(writable)), self.bounded(self.long_int()))]
        if k == 'longcall':
            args = [self.long_int(rng.choice([1, 2, 3])) for _ in range(self.NARGS)]
            return [{'s': 'call', 'name': 'hlong', 'args': args + [V(rng.choice(['t1', 't2']))]}]
        if k == 'kwcall':
            names = [f'argument_number_{i + 1}' for i in range(self.NARGS)]
            kw = ', '.join(f'{n}={F.rx(self.long_int(rng.choice([1, 2])))}' for n in names)
            return [self.raw(f"call hlong({kw}, result_value={rng.choice(['t1', 't2'])})")]
        if k == 'print':
            items = []
            for _ in range(rng.randint(1, 5)):
                items.append(self.literal() if rng.random() < 0.6 else F.rx(self.long_int(2)))
            return [self.raw('print *, ' + ', '.join(items))]
        if k == 'write':
            fmt = fquote('(' + ', '.join(rng.choice(['a', 'i0', '1x', "'text'" if "don't" in self.words else '"text"', 'i8'])
                                         for _ in range(rng.randint(2, 30))) + ')')
            items = [self.literal() if rng.random() < 0.5 else F.rx(self.long_int(1)) for _ in range(rng.randint(1, 4))]
            return [self.raw(f'write(*, {fmt}) ' + ', '.join(items))]
        if k == 'cond':
            return [{'s': 'if', 'conds': [self.long_cond()], 'bodies': [self.block(d - 1, 1)], 'els': self.block(d - 1, 1) if rng.random() < 0.4 else []}]
        if k == 'inlineif':
            return [{'s': 'if', 'conds': [self.long_cond(rng.randint(1, 5))], 'bodies': [[assign(V(rng.choice(writable)), self.bounded(self.long_int()))]],
                     'els': [], 'inline': True}]
        if k == 'charassign':
            return [self.raw(f'cbuf = {self.literal()}')]
        if k == 'concat':
            return [self.raw('cbuf = ' + ' // '.join(self.literal(rng.choice([10, 30, 60, 100])) for _ in range(rng.randint(2, 5))))]
        if k == 'constructor':
            vals = ', '.join(str(rng.randint(-99, 999)) for _ in range(40))
            return [self.raw(f'itab = (/ {vals} /)')]
        if k == 'select':
            vals = ', '.join(str(3 * i) if rng.random() < 0.8 else f'{3 * i}:{3 * i + 1}' for i in range(rng.randint(20, 60)))
            w = rng.choice(writable)
            return [self.raw('\n'.join([f'select case ({F.rx(self.long_int(2))})', f'case ({vals})', f'  {w} = {w}', 'case default',
                                        f'  {w} = {w}', 'end select']))]
        if k == 'where':
            return [self.raw(f'where (ia > {F.rx(self.long_int(2))}) ia = mod({F.rx(self.long_int(4))}, 7)')]
        if k == 'forall':
            return [self.raw(f'forall (iq = 0:4, ia(iq) > {F.rx(self.long_int(2))}) ia(iq) = mod({F.rx(self.long_int(4))}, 7)')]
        if k == 'label':
            self.nlabel += 10
            w = rng.choice(writable)
            return [self.raw(f'{self.nlabel} {w} = mod({F.rx(self.long_int(5))}, 11)')]
        if k == 'allocate':
            names = [f'alloc_array_{i + 1}' for i in range(8)]
            return [self.raw('allocate(' + ', '.join(f'{n}({F.rx(self.long_int(1))})' for n in names) + ', stat=istat)'),
                    self.raw('deallocate(' + ', '.join(names) + ', stat=istat)')]
        if k == 'comment':
            w = rng.choice(writable)
            c = '! ' + ' '.join(rng.choice(self.words) for _ in range(rng.randint(5, 40)))
            if rng.random() < 0.5:
                return [self.raw(c)]
            return [self.raw(f'{w} = mod({F.rx(self.long_int(rng.choice([2, 4])))}, 5)  {c}')]
        if k == 'fcallchain' and self.functions:
            e = V(rng.choice(self.int_scalars))
            for _ in range(rng.randint(3, 7)):
                e = call('f1', e, self.int_leaf(self.int_scalars))
            return [assign(V(rng.choice(writable)), self.bounded(e))]
        if k == 'assoc' and self.assoc_depth < 1:
            n = rng.randint(4, 9)
            names = [f'associated_name_{i + 1}' for i in range(n)]
            targets = [op('sum', self.long_int(2), N(1)) for _ in range(n)]
            self.assoc_depth += 1
            body = [assign(V(rng.choice(writable)), self.bounded(op('sum', *[V(x) for x in names])))]
            self.assoc_depth -= 1
            return [{'s': 'assoc', 'names': names, 'targets': targets, 'body': body}]
        return super().stmt(d)

    def nest(self, body, levels):
        """Wrap a block into `levels` nested IF / DO WHILE-free blocks (deep indentation)."""
        for lv in range(levels):
            c = cmp_('>=', V('n'), N(-lv - 50)) if lv % 3 else op('or', V('flag'), cmp_('<', V('m'), N(1000 + lv)))
            body = [{'s': 'if', 'conds': [c], 'bodies': [body], 'els': []}]
        return body

    # ------------------------------------------------------------------ whole programs
    def program(self, nstmts=8, depth=2, nest_levels=0, showcase=False):
        prog = super().program(nstmts=nstmts, depth=depth)
        kernel = prog['units'][0]
        if showcase:
            # one statement of every long kind, so that every construct occurs in every program
            for k in self.KINDS:
                kernel['body'] += self.long_stmt(k, 1)
        nwide = self.rng.choice([12, 30, 45])
        extra = [
            self.raw('integer :: ' + ', '.join(f'local_scalar_variable_{i + 1}' for i in range(nwide))),
            self.raw('integer, dimension(0:4) :: ' + ', '.join(f'local_array_{i + 1}' for i in range(nwide))),
            self.raw('real(kind=jprb) :: ' + ', '.join(f'zr{i + 1}({i % 3 + 1}, 0:{i % 4})' for i in range(nwide))),
            self.raw('integer, parameter :: iparam_table(30) = (/ ' + ', '.join(str(7 * i) for i in range(30)) + ' /)'),
            self.raw('integer :: ' + ', '.join(f'iv{i + 1} = {i * 11}' for i in range(24))),
            self.raw('integer, allocatable :: ' + ', '.join(f'alloc_array_{i + 1}(:)' for i in range(8))),
            self.raw('character(len=400) :: cbuf'),
            self.raw('integer :: itab(40), iq, istat'),
        ]
        init, rest = kernel['body'][:5], kernel['body'][5:]
        if nest_levels:
            cut = len(rest) // 2
            rest = rest[:cut] + self.nest(rest[cut:], nest_levels)
        kernel['body'] = extra + init + rest
        if not any(u['name'] == 'hlong' for u in prog['units']):
            names = [f'argument_number_{i + 1}' for i in range(self.NARGS)]
            decls = [decl(n, 'int', 'in') for n in names] + [decl('result_value', 'int', 'out')]
            body = [assign(V('result_value'), call('mod', op('sum', *[V(n) for n in names]), N(17)))]
            prog['units'].append(unit('hlong', names + ['result_value'], decls, body))
        return prog


PMOD_N = 36


def long_program_text(prog, rng):
    """Fortran text of the program plus a parameter module; the kernel gets a long USE ... ONLY list with renames."""
    text = F.render(prog)
    names = [f'module_parameter_{i + 1}' for i in range(PMOD_N)]
    pmod = ['module pmod', '  implicit none'] + [f'  integer, parameter :: {n} = {i}' for i, n in enumerate(names)] + ['end module pmod', '']
    only = ', '.join((f'renamed_{i} => {n}' if rng.random() < 0.3 else n) for i, n in enumerate(names))
    lines = text.split('\n')
    out = []
    for l in lines:
        out.append(l)
        if l.strip().startswith('subroutine kernel('):
            out.append(f'    use pmod, only: {only}')
    return '\n'.join(pmod) + '\n'.join(out)


# ----------------------------------------------------------------------------- deterministic length sweep (C04)
# Statements whose single over-long expression string is followed by more text of the same statement:
#   IF (<cond>) THEN | IF (<cond>) stmt | CALL s(<one huge argument>) | SELECT CASE (<expr>) | WHERE (<mask>)
# The length of the FINAL operand is swept so that the end of the expression walks over the last columns of a
# continuation line (the text that follows -- `) THEN`, `)` -- must then go to a line of its own).
SWEEP_FORMS = ('ifthen', 'inlineif', 'call', 'select', 'where')
SWEEP_BASES = (7, 8, 9, 10, 11)        # operands before the final one: for one of them the last line is nearly full
SWEEP_RANGE = range(6, 30)             # length of the final operand: more than one operand + operator (22 columns)
SWEEP_STEPS = tuple((nb, n) for nb in SWEEP_BASES for n in SWEEP_RANGE)


def sweep_marker(nb, n):
    """The final operand of a sweep step: a name of exactly n characters that carries the step (`l07b09z`)."""
    return ('l%02db%02d' % (n, nb)) + 'z' * (n - 6)


def sweep_text(form, depth, steps=SWEEP_STEPS):
    """A module with one statement of the given form per sweep step, nested in `depth` IF blocks."""
    logical = form in ('ifthen', 'inlineif')
    names = [f'lflag_number_{i:02d}' for i in range(max(SWEEP_BASES))] if logical else [f'ivalue_number_{i:02d}' for i in range(max(SWEEP_BASES))]
    sep = ' .and. ' if logical else ' + '
    ty = 'logical' if logical else 'integer'
    L = ['module kmod', 'implicit none', 'contains', 'subroutine kernel(ia, k)', 'integer, intent(inout) :: ia(0:4), k']
    L += [f'{ty} :: {b}' for b in names] + [f'{ty} :: {sweep_marker(nb, n)}' for nb, n in steps] + ['logical :: lnest']
    L += ['if (lnest) then'] * depth
    for nb, n in steps:
        e = sep.join(names[:nb] + [sweep_marker(nb, n)])
        if form == 'ifthen':
            L += [f'if ({e}) then', 'k = 1', 'end if']
        elif form == 'inlineif':
            L += [f'if ({e}) k = 1']
        elif form == 'call':
            L += [f'call hsweep({e})']
        elif form == 'select':
            L += [f'select case ({e})', 'case (1)', 'k = 1', 'end select']
        elif form == 'where':
            L += [f'where (ia > {e})', 'ia = 0', 'end where']
    L += ['end if'] * depth
    L += ['end subroutine kernel', 'subroutine hsweep(j)', 'integer, intent(in) :: j', 'end subroutine hsweep', 'end module kmod', '']
    return '\n'.join(L)


def sweep_hits(printed, lo=122):
    """Sweep steps whose final operand sits at the end of a long physical line, or alone right after a break
    (selection of inputs by the column the expression ends in; nothing is judged here)."""
    import re
    hits = set()
    for line in printed.split('\n'):
        m = re.search(r'\bl(\d\d)b(\d\d)z*\b', line, re.I)
        if not m or '::' in line:
            continue
        body = line.rstrip()
        body = body[:-1].rstrip() if body.endswith('&') else body
        if len(line.rstrip()) >= lo or body.lstrip().lstrip('&').strip().lower().startswith(m.group(0).lower()):
            hits.add((int(m.group(2)), int(m.group(1))))
    return hits
